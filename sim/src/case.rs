//! One generated case = one forked child that builds a fresh factory, runs the scenario and oracle,
//! and reports a `CaseResult` through a pipe.

use serde::{Deserialize, Serialize};
use serde_json::Value;
use vcore::{
    fork::{self, Exit, Limits},
    pt::CaseOutcome,
};

use crate::exec::{self, Abort};

#[derive(Clone, Debug, Default, Serialize, Deserialize)]
pub struct SimStats {
    pub polls: u64,
    pub datagrams: u64,
    pub virt_ms: u64,
    pub max_dds_delay_ns: u64,
    pub faults_applied: u32,
}

#[derive(Clone, Debug, Default, Serialize, Deserialize)]
pub struct CaseResult {
    /// (signature, explanation) when the oracle rejects
    pub verdict: Option<(String, String)>,
    pub nontrivial: bool,
    pub classes: Vec<String>,
    pub info: Value,
    pub harness_error: Option<String>,
    pub sim: SimStats,
}

impl CaseResult {
    /// Records a failure. The first one wins, except that a failure whose signature is a listed known
    /// finding gives way to a later one that is not: known findings must not mask other violations
    /// of the same case.
    pub fn fail(&mut self, sig: impl Into<String>, what: impl Into<String>) {
        let sig = sig.into();
        match &self.verdict {
            None => self.verdict = Some((sig, what.into())),
            Some((cur, _)) => {
                if is_known(cur) && !is_known(&sig) {
                    self.verdict = Some((sig, what.into()));
                }
            }
        }
    }
    pub fn class(&mut self, c: impl Into<String>) {
        let c = c.into();
        if !self.classes.contains(&c) {
            self.classes.push(c);
        }
    }
}

fn is_known(sig: &str) -> bool {
    use std::sync::OnceLock;
    static KNOWN: OnceLock<std::sync::Mutex<std::collections::HashMap<String, vcore::Known>>> = OnceLock::new();
    let prop = sig.split(':').next().unwrap_or("").to_string();
    let m = KNOWN.get_or_init(Default::default);
    let mut g = m.lock().unwrap();
    g.entry(prop.clone()).or_insert_with(|| vcore::Known::load(&prop)).matches(sig)
}

/// Normalise a panic message: digit runs → N, long messages cut, so signatures are stable.
pub fn normalize_msg(m: &str) -> String {
    let mut out = String::new();
    let mut in_digits = false;
    for c in m.chars() {
        if c.is_ascii_digit() {
            if !in_digits {
                out.push('N');
                in_digits = true;
            }
        } else {
            in_digits = false;
            out.push(c);
        }
    }
    out.chars().take(100).collect()
}

pub fn normalize_loc(l: &str) -> String {
    if let Some(i) = l.find("/repo/") {
        l[i + 6..].to_string()
    } else {
        l.to_string()
    }
}

pub fn is_repo_location(l: &str) -> bool {
    l.contains("/repo/") || l.starts_with("dds/src") || l.starts_with("src/")
}

pub fn panic_signature(prop: &str, loc: &str, msg: &str) -> String {
    format!("{}:panic:{}:{}", prop, normalize_loc(loc), normalize_msg(msg))
}

pub fn sim_stats() -> SimStats {
    exec::with_world(|w| SimStats {
        polls: w.polls,
        datagrams: w.net.log.len() as u64,
        virt_ms: (w.now_ns - exec::START_NS) / 1_000_000,
        max_dds_delay_ns: w.dds_delays.iter().map(|d| d.1).max().unwrap_or(0),
        faults_applied: w.net.faults_applied,
    })
}

/// Map an executor abort to a verdict on the result.
pub fn apply_abort(prop: &str, res: &mut CaseResult, a: Abort) {
    match a {
        Abort::Panic(p) => {
            if is_repo_location(&p.location) || p.dds_task {
                res.fail(
                    panic_signature(prop, &p.location, &p.message),
                    format!(
                        "panic in {} task at {}: {}",
                        if p.dds_task { "the DDS worker" } else { "an API call" },
                        p.location,
                        p.message
                    ),
                );
            } else {
                res.harness_error = Some(format!("harness panic at {}: {}", p.location, p.message));
            }
        }
        Abort::Deadlock => res.fail(
            format!("{prop}:deadlock"),
            "nothing left to run: no runnable task, no timer, no datagram (worker gone or lost wake-up)",
        ),
        Abort::StepLimit => res.fail(
            format!("{prop}:livelock:step-limit"),
            "executor step limit exceeded (tasks keep waking each other without virtual time advancing)",
        ),
    }
}

const RESULT_MARK: &str = "\nRESULT ";

/// Runs `body` in a forked child; converts crashes of the child into verdicts.
pub fn run_forked(prop: &str, limits: Limits, body: impl FnOnce() -> CaseResult) -> CaseResult {
    let cr = fork::run_in_child(limits, |fd| {
        vcore::alloc::set_report_fd(fd);
        exec::install_panic_hook(fd);
        let r = body();
        let mut out = RESULT_MARK.as_bytes().to_vec();
        out.extend(serde_json::to_vec(&r).unwrap());
        out
    });
    let text = String::from_utf8_lossy(&cr.payload).to_string();
    if let Some(i) = text.rfind(RESULT_MARK) {
        if let Ok(r) = serde_json::from_str::<CaseResult>(&text[i + RESULT_MARK.len()..]) {
            if cr.exit == Exit::Code(0) {
                return r;
            }
        }
    }
    // the child did not complete normally
    let mut res = CaseResult::default();
    let panic_line = text.lines().rev().find_map(|l| l.strip_prefix("PANIC ").map(|s| s.to_string()));
    if let Some(sz) = cr.alloc_refused() {
        res.fail(
            format!("{prop}:alloc:single-request-over-cap"),
            format!("a single allocation of {sz} bytes was requested (cap exceeded)"),
        );
    } else if cr.wall_limit_hit() {
        res.harness_error = Some("wall-clock safety net hit in child".into());
    } else if matches!(cr.exit, Exit::Signal(s) if s == libc::SIGXCPU) {
        res.fail(format!("{prop}:hang:cpu-limit"), format!("CPU limit exceeded ({} ms used)", cr.cpu_ms));
    } else if let Some(p) = panic_line {
        let (loc, msg) = p.split_once('|').unwrap_or(("?", &p));
        if is_repo_location(loc) {
            res.fail(panic_signature(prop, loc, msg), format!("child died after panic at {loc}: {msg}"));
        } else {
            res.harness_error = Some(format!("child died after harness panic at {loc}: {msg}"));
        }
    } else {
        match cr.exit {
            Exit::Signal(s) if s == libc::SIGSEGV || s == libc::SIGBUS => {
                res.fail(format!("{prop}:crash:signal{s}"), "child killed by a memory fault signal (stack overflow?)")
            }
            Exit::Signal(s) if s == libc::SIGABRT => {
                res.fail(format!("{prop}:abort"), "child aborted")
            }
            e => res.harness_error = Some(format!("child ended abnormally: {e:?}")),
        }
    }
    res
}

pub fn to_outcome(r: CaseResult, key: u64, case_json: impl FnOnce() -> Value) -> CaseOutcome {
    let mut o = CaseOutcome::pass(key, r.nontrivial);
    o.classes = r.classes.clone();
    if let Some(h) = &r.harness_error {
        o.verdict = Some(("harness:error".into(), h.clone()));
    } else if let Some(v) = r.verdict.clone() {
        o.verdict = Some(v);
    }
    if r.nontrivial || r.verdict.is_some() {
        o.sample = Some(serde_json::json!({"case": case_json(), "observed": r.info, "sim": r.sim}));
    }
    o
}
