//! Data types used by the simulated scenarios.

use dust_dds::infrastructure::type_support::DdsType;

#[derive(Clone, Debug, PartialEq, DdsType)]
pub struct KeyedData {
    #[dust_dds(key)]
    pub id: u8,
    pub seq: u32,
    pub blob: Vec<u8>,
}

/// deterministic payload so that the receiver can check integrity from (seq, len) alone
pub fn blob_for(seq: u32, len: usize) -> Vec<u8> {
    (0..len).map(|i| (seq.wrapping_mul(31).wrapping_add(i as u32 * 7) >> (i % 3)) as u8).collect()
}

#[derive(Clone, Debug, PartialEq, DdsType)]
pub struct Unkeyed {
    pub seq: u32,
    pub blob: Vec<u8>,
}

/// type with the member kinds the content-filter language supports (int32, string)
#[derive(Clone, Debug, PartialEq, DdsType)]
pub struct Filterable {
    #[dust_dds(key)]
    pub id: u8,
    pub level: i32,
    pub color: String,
    pub seq: u32,
}

#[derive(Clone, Debug, PartialEq, DdsType)]
#[dust_dds(nested)]
pub struct InnerKey {
    pub a: u8,
    pub b: u16,
}

/// keyed type with a nested struct key, a string key and a late numeric key
#[derive(Clone, Debug, PartialEq, DdsType)]
pub struct RichKey {
    #[dust_dds(key)]
    pub k: InnerKey,
    pub pad: u32,
    #[dust_dds(key)]
    pub name: String,
    #[dust_dds(key)]
    pub n: i64,
    pub blob: Vec<u8>,
}
