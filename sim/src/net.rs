//! In-memory datagram network with a choice tape for faults, plus a passive wire log.

use std::collections::VecDeque;

use dust_dds::transport::{
    interface::{
        RtpsTransportParticipant, TransportDataReceiver, TransportParticipantFactory, WriteMessage,
    },
    types::Locator,
};

use crate::exec::{self, with_world};

pub const PORT_USER: u32 = 7410;
pub const PORT_META: u32 = 7411;
pub const PORT_MCAST_BASE: u32 = 7400;
const MCAST_ADDR: [u8; 16] = [0, 0, 0, 0, 0, 0, 0, 0, 0, 0, 0, 0, 239, 255, 0, 1];

#[derive(Clone, Copy, Debug, PartialEq, Eq, serde::Serialize, serde::Deserialize)]
pub enum Class {
    /// addressed to a participant's default (user traffic) unicast locator
    User,
    /// addressed to a metatraffic unicast locator
    MetaUnicast,
    /// addressed to the domain's metatraffic multicast locator
    MetaMulticast,
}

#[derive(Clone, Copy, Debug, PartialEq, Eq)]
pub enum Fate {
    /// deliver after the given delay (ns)
    Deliver(u64),
    Drop,
    /// deliver twice: now and after the given delay
    Dup(u64),
    /// append the submessages of this datagram to the previous undelivered datagram of the same
    /// source and destination (one RTPS message with several submessages); falls back to Deliver(0)
    Coalesce,
}

pub const MS: u64 = 1_000_000;

/// Default fault menu (index 0 is benign). A tape value v selects `menu[idx(v, len)]`.
pub fn default_menu() -> Vec<Fate> {
    vec![
        Fate::Deliver(0),
        Fate::Deliver(0),
        Fate::Deliver(0),
        Fate::Deliver(MS),
        Fate::Deliver(10 * MS),
        Fate::Deliver(60 * MS),
        Fate::Deliver(250 * MS),
        Fate::Deliver(1100 * MS),
        Fate::Dup(0),
        Fate::Dup(30 * MS),
        Fate::Coalesce,
        Fate::Drop,
        Fate::Drop,
        Fate::Drop,
    ]
}

pub struct Endpoint {
    pub domain_id: i32,
    pub user: Locator,
    pub meta: Locator,
    pub mcast: Locator,
    pub rx: TransportDataReceiver,
    /// when false the participant is partitioned: nothing in, nothing out
    pub connected: bool,
}

#[derive(Clone, Debug)]
pub struct WireRecord {
    pub t_ns: u64,
    pub from: usize,
    pub to: usize,
    pub class: Class,
    pub data: std::sync::Arc<[u8]>,
    /// what the network did with it
    pub dropped: bool,
    pub delay_ns: u64,
    pub duplicated: bool,
    pub attacked: bool,
}

struct InFlight {
    at: u64,
    seq: u64,
    from: usize,
    to: usize,
    data: Vec<u8>,
}

pub struct Net {
    pub endpoints: Vec<Endpoint>,
    inflight: Vec<InFlight>,
    seq: u64,
    pub fragment_size: usize,
    /// fault choices; exhausted ⇒ benign
    pub tape: VecDeque<u16>,
    pub menu: Vec<Fate>,
    /// which traffic classes consume tape entries
    pub attack_user: bool,
    pub attack_meta: bool,
    /// when set, only datagrams from/to these participants are attacked
    pub attack_only_between: Option<(usize, usize)>,
    pub log: Vec<WireRecord>,
    pub log_enabled: bool,
    /// deliver announcements across domains (tape driven elsewhere); default faithful
    pub cross_domain: bool,
    pub tape_used: usize,
    pub faults_applied: u32,
    /// per sending participant: offset of its wall clock against the receivers' (seconds). The only
    /// place a sender's clock shows on the wire is INFO_TS, which is rewritten accordingly.
    pub clock_skew_s: Vec<i64>,
}

impl Net {
    pub fn new() -> Self {
        Net {
            endpoints: vec![],
            inflight: vec![],
            seq: 0,
            fragment_size: 1344,
            tape: VecDeque::new(),
            menu: default_menu(),
            attack_user: false,
            attack_meta: false,
            attack_only_between: None,
            log: vec![],
            log_enabled: true,
            cross_domain: false,
            tape_used: 0,
            faults_applied: 0,
            clock_skew_s: vec![],
        }
    }

    pub fn next_delivery_time(&self) -> Option<u64> {
        self.inflight.iter().map(|d| d.at).min()
    }

    pub fn in_flight(&self) -> usize {
        self.inflight.len()
    }

    fn classify(&self, to: usize, loc: &Locator) -> Option<Class> {
        let e = &self.endpoints[to];
        if *loc == e.user {
            Some(Class::User)
        } else if *loc == e.meta {
            Some(Class::MetaUnicast)
        } else if *loc == e.mcast {
            Some(Class::MetaMulticast)
        } else if self.cross_domain
            && loc.port() >= PORT_MCAST_BASE
            && loc.address() == MCAST_ADDR
        {
            Some(Class::MetaMulticast)
        } else {
            None
        }
    }

    fn push(&mut self, at: u64, from: usize, to: usize, data: Vec<u8>) {
        let seq = self.seq;
        self.seq += 1;
        self.inflight.push(InFlight { at, seq, from, to, data });
    }

    pub fn send(&mut self, now: u64, from: usize, buf: &[u8], locators: &[Locator]) {
        if !self.endpoints.get(from).map(|e| e.connected).unwrap_or(true) {
            return;
        }
        let skewed;
        let buf = match self.clock_skew_s.get(from).copied().unwrap_or(0) {
            0 => buf,
            skew => {
                skewed = skew_info_ts(buf, skew);
                &skewed[..]
            }
        };
        for to in 0..self.endpoints.len() {
            let class = locators.iter().find_map(|l| self.classify(to, l));
            let Some(class) = class else { continue };
            if !self.endpoints[to].connected {
                // addressed to a partitioned participant: lost, but still visible to the wire monitor
                if self.log_enabled {
                    self.log.push(WireRecord {
                        t_ns: now,
                        from,
                        to,
                        class,
                        data: buf.to_vec().into(),
                        dropped: true,
                        delay_ns: 0,
                        duplicated: false,
                        attacked: false,
                    });
                }
                continue;
            }
            let class_attacked = match class {
                Class::User => self.attack_user,
                _ => self.attack_meta,
            };
            let pair_ok = match self.attack_only_between {
                None => true,
                Some((a, b)) => (from == a && to == b) || (from == b && to == a),
            };
            let attacked = class_attacked && pair_ok && from != to;
            let fate = if attacked {
                let v = self.tape.pop_front();
                if v.is_some() {
                    self.tape_used += 1;
                }
                let v = v.unwrap_or(0);
                self.menu[vcore::pt::idx(v, self.menu.len())]
            } else {
                Fate::Deliver(0)
            };
            let mut rec = WireRecord {
                t_ns: now,
                from,
                to,
                class,
                data: buf.to_vec().into(),
                dropped: false,
                delay_ns: 0,
                duplicated: false,
                attacked,
            };
            match fate {
                Fate::Deliver(d) => {
                    if d > 0 {
                        self.faults_applied += 1;
                    }
                    rec.delay_ns = d;
                    self.push(now + d, from, to, buf.to_vec());
                }
                Fate::Drop => {
                    self.faults_applied += 1;
                    rec.dropped = true;
                }
                Fate::Dup(d) => {
                    self.faults_applied += 1;
                    rec.duplicated = true;
                    rec.delay_ns = d;
                    self.push(now, from, to, buf.to_vec());
                    self.push(now + d, from, to, buf.to_vec());
                }
                Fate::Coalesce => {
                    // append to the latest undelivered datagram of the same link, if any
                    let prev = self
                        .inflight
                        .iter_mut()
                        .filter(|d| d.from == from && d.to == to)
                        .max_by_key(|d| d.seq);
                    match prev {
                        Some(p) if buf.len() > 20 && p.data.len() > 20 && p.data[8..20] == buf[8..20] => {
                            self.faults_applied += 1;
                            p.data.extend_from_slice(&buf[20..]);
                        }
                        _ => self.push(now, from, to, buf.to_vec()),
                    }
                }
            }
            if self.log_enabled {
                self.log.push(rec);
            }
        }
    }

    fn pop_due(&mut self, now: u64) -> Option<InFlight> {
        let mut best: Option<usize> = None;
        for (i, d) in self.inflight.iter().enumerate() {
            if d.at <= now {
                match best {
                    Some(b) if (self.inflight[b].at, self.inflight[b].seq) <= (d.at, d.seq) => {}
                    _ => best = Some(i),
                }
            }
        }
        best.map(|i| self.inflight.remove(i))
    }
}

/// Delivers one due datagram (spawns the receive task). Returns false when none is due.
pub fn deliver_due() -> bool {
    let d = with_world(|w| {
        let now = w.now_ns;
        w.net.pop_due(now)
    });
    let Some(d) = d else { return false };
    let rx = with_world(|w| {
        let e = &w.net.endpoints[d.to];
        if e.connected { Some(e.rx.clone()) } else { None }
    });
    let _ = d.from;
    if let Some(rx) = rx {
        let data = d.data;
        exec::spawn(async move { rx.receive_message(data).await });
    }
    true
}

/// Inject a raw datagram into a participant (as if received from the network), immediately.
pub fn inject(to: usize, data: Vec<u8>) {
    let rx = with_world(|w| w.net.endpoints[to].rx.clone());
    exec::spawn(async move { rx.receive_message(data).await });
}

struct SimWriter(usize);
impl WriteMessage for SimWriter {
    fn write_message(&self, buf: &[u8], locators: &[Locator]) {
        with_world(|w| {
            let now = w.now_ns;
            w.net.send(now, self.0, buf, locators)
        })
    }
}

/// Adds `skew_s` seconds to every INFO_TS timestamp of an RTPS message.
pub fn skew_info_ts(buf: &[u8], skew_s: i64) -> Vec<u8> {
    let mut b = buf.to_vec();
    let mut p = 20;
    while p + 4 <= b.len() {
        let (id, flags) = (b[p], b[p + 1]);
        let le = flags & 1 == 1;
        let len = if le { u16::from_le_bytes([b[p + 2], b[p + 3]]) } else { u16::from_be_bytes([b[p + 2], b[p + 3]]) } as usize;
        if id == 0x09 && flags & 2 == 0 && p + 8 <= b.len() {
            let raw = [b[p + 4], b[p + 5], b[p + 6], b[p + 7]];
            let s = if le { u32::from_le_bytes(raw) } else { u32::from_be_bytes(raw) };
            let s2 = (s as i64 + skew_s).clamp(0, u32::MAX as i64) as u32;
            b[p + 4..p + 8].copy_from_slice(&if le { s2.to_le_bytes() } else { s2.to_be_bytes() });
        }
        if len == 0 {
            break;
        }
        p += 4 + len;
    }
    b
}

pub fn user_locator(idx: usize) -> Locator {
    let mut addr = [0u8; 16];
    addr[12] = 10;
    addr[14] = (idx >> 8) as u8;
    addr[15] = idx as u8 + 1;
    Locator::new(1, PORT_USER, addr)
}
pub fn meta_locator(idx: usize) -> Locator {
    let mut addr = [0u8; 16];
    addr[12] = 10;
    addr[14] = (idx >> 8) as u8;
    addr[15] = idx as u8 + 1;
    Locator::new(1, PORT_META, addr)
}
pub fn mcast_locator(domain_id: i32) -> Locator {
    Locator::new(1, PORT_MCAST_BASE + 250 * domain_id as u32, MCAST_ADDR)
}

pub struct SimTransport;
impl TransportParticipantFactory for SimTransport {
    fn create_participant(
        &self,
        domain_id: i32,
        rx: TransportDataReceiver,
    ) -> RtpsTransportParticipant {
        with_world(|w| {
            let idx = w.net.endpoints.len();
            let user = user_locator(idx);
            let meta = meta_locator(idx);
            let mcast = mcast_locator(domain_id);
            w.net.endpoints.push(Endpoint { domain_id, user, meta, mcast, rx, connected: true });
            RtpsTransportParticipant {
                message_writer: Box::new(SimWriter(idx)),
                default_unicast_locator_list: vec![user],
                metatraffic_unicast_locator_list: vec![meta],
                metatraffic_multicast_locator_list: vec![mcast],
                default_multicast_locator_list: vec![],
                fragment_size: w.net.fragment_size,
            }
        })
    }
}
