//! E-SIM: deterministic whole-system simulation of dust-dds participants on a virtual clock and an
//! in-memory network, one forked process per generated case.

pub mod case;
pub mod exec;
pub mod net;
pub mod props;
pub mod types;
pub mod util;

pub use vcore;
