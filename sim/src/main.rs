use sim::props;
use vcore::Ctx;

#[global_allocator]
static A: vcore::alloc::Counting = vcore::alloc::Counting;

fn main() {
    let ctx = Ctx::from_args();
    match props::dispatch(&ctx) {
        Some(()) => {}
        None => {
            eprintln!("sim: unknown property id {}", ctx.id);
            std::process::exit(2);
        }
    }
}
