//! Deterministic single-threaded executor with a virtual clock. One stable waker per task, timers
//! registered once per sleep, no wall clock, ordered containers only.

use std::{
    cell::RefCell,
    collections::{BTreeMap, BTreeSet, BinaryHeap, VecDeque},
    future::Future,
    panic::AssertUnwindSafe,
    pin::Pin,
    rc::Rc,
    sync::{
        Arc, Mutex,
        atomic::{AtomicBool, Ordering},
    },
    task::{Context, Poll, Wake, Waker},
};

use dust_dds::{
    infrastructure::time::Time,
    runtime::{Clock, DdsRuntime, Spawner, TaskHandle, Timer},
};

use crate::net::Net;

pub const START_NS: u64 = 1_700_000_000_000_000_000 % (1u64 << 60);

struct TaskWaker {
    id: usize,
}
impl Wake for TaskWaker {
    fn wake(self: Arc<Self>) {
        self.wake_by_ref()
    }
    fn wake_by_ref(self: &Arc<Self>) {
        let id = self.id;
        WORLD.with(|w| match w.try_borrow_mut() {
            Ok(mut w) => w.enqueue(id),
            Err(_) => PENDING_WAKES.with(|p| p.borrow_mut().push(id)),
        });
    }
}

thread_local! {
    static PENDING_WAKES: RefCell<Vec<usize>> = const { RefCell::new(Vec::new()) };
}

struct TimerEntry {
    at: u64,
    seq: u64,
    shared: Arc<SleepShared>,
}
impl PartialEq for TimerEntry {
    fn eq(&self, o: &Self) -> bool {
        self.at == o.at && self.seq == o.seq
    }
}
impl Eq for TimerEntry {}
impl PartialOrd for TimerEntry {
    fn partial_cmp(&self, o: &Self) -> Option<std::cmp::Ordering> {
        Some(self.cmp(o))
    }
}
impl Ord for TimerEntry {
    fn cmp(&self, o: &Self) -> std::cmp::Ordering {
        (o.at, o.seq).cmp(&(self.at, self.seq))
    }
}

struct SleepShared {
    fired: AtomicBool,
    cancelled: AtomicBool,
    waker: Mutex<Option<Waker>>,
}

#[derive(Clone, Debug, serde::Serialize, serde::Deserialize)]
pub struct PanicInfo {
    pub task: usize,
    pub dds_task: bool,
    pub location: String,
    pub message: String,
}

#[derive(Clone, Debug)]
pub enum Abort {
    Deadlock,
    StepLimit,
    Panic(PanicInfo),
}

pub struct World {
    pub now_ns: u64,
    run_queue: VecDeque<usize>,
    queued: BTreeSet<usize>,
    tasks: BTreeMap<usize, Pin<Box<dyn Future<Output = ()>>>>,
    dds_tasks: BTreeSet<usize>,
    wakers: BTreeMap<usize, Waker>,
    timers: BinaryHeap<TimerEntry>,
    timer_seq: u64,
    next_task: usize,
    pub net: Net,
    /// (virtual now, requested delay ns) for every Timer::delay requested by dust-dds
    pub dds_delays: Vec<(u64, u64)>,
    pub polls: u64,
    pub step_limit: u64,
    /// schedule choices: index into run queue (0 = FIFO)
    pub sched_tape: VecDeque<u16>,
    pub current_task: Option<usize>,
}

impl World {
    fn new() -> Self {
        World {
            now_ns: START_NS,
            run_queue: VecDeque::new(),
            queued: BTreeSet::new(),
            tasks: BTreeMap::new(),
            dds_tasks: BTreeSet::new(),
            wakers: BTreeMap::new(),
            timers: BinaryHeap::new(),
            timer_seq: 0,
            next_task: 0,
            net: Net::new(),
            dds_delays: Vec::new(),
            polls: 0,
            step_limit: 20_000_000,
            sched_tape: VecDeque::new(),
            current_task: None,
        }
    }
    fn enqueue(&mut self, id: usize) {
        if self.tasks.contains_key(&id) || self.current_task == Some(id) {
            if self.queued.insert(id) {
                self.run_queue.push_back(id);
            }
        }
    }
}

thread_local! {
    pub static WORLD: RefCell<World> = RefCell::new(World::new());
}

pub fn with_world<R>(f: impl FnOnce(&mut World) -> R) -> R {
    WORLD.with(|w| f(&mut w.borrow_mut()))
}

pub fn now_ns() -> u64 {
    with_world(|w| w.now_ns)
}

fn spawn_inner(f: Pin<Box<dyn Future<Output = ()>>>, dds: bool) -> usize {
    with_world(|w| {
        let id = w.next_task;
        w.next_task += 1;
        w.tasks.insert(id, f);
        if dds {
            w.dds_tasks.insert(id);
        }
        w.queued.insert(id);
        w.run_queue.push_back(id);
        id
    })
}

pub struct JoinState<T> {
    pub value: Option<T>,
    pub done_at: Option<u64>,
    waiters: Vec<Waker>,
}

pub struct JoinHandle<T>(Rc<RefCell<JoinState<T>>>);

impl<T> Clone for JoinHandle<T> {
    fn clone(&self) -> Self {
        JoinHandle(self.0.clone())
    }
}

impl<T> JoinHandle<T> {
    pub fn is_done(&self) -> bool {
        self.0.borrow().done_at.is_some()
    }
    pub fn done_at(&self) -> Option<u64> {
        self.0.borrow().done_at
    }
    pub fn take(&self) -> Option<T> {
        self.0.borrow_mut().value.take()
    }
}

impl<T> Future for JoinHandle<T> {
    type Output = T;
    fn poll(self: Pin<&mut Self>, cx: &mut Context<'_>) -> Poll<T> {
        let mut s = self.0.borrow_mut();
        if s.done_at.is_some() {
            if let Some(v) = s.value.take() {
                return Poll::Ready(v);
            }
        }
        s.waiters.push(cx.waker().clone());
        Poll::Pending
    }
}

/// Spawn a harness task; its completion instant (virtual) is recorded.
pub fn spawn<T: 'static>(f: impl Future<Output = T> + 'static) -> JoinHandle<T> {
    let st = Rc::new(RefCell::new(JoinState { value: None, done_at: None, waiters: vec![] }));
    let st2 = st.clone();
    spawn_inner(
        Box::pin(async move {
            let v = f.await;
            let now = now_ns();
            let waiters = {
                let mut s = st2.borrow_mut();
                s.value = Some(v);
                s.done_at = Some(now);
                std::mem::take(&mut s.waiters)
            };
            for w in waiters {
                w.wake();
            }
        }),
        false,
    );
    JoinHandle(st)
}

// ---------------- sleeping ----------------

pub struct Sleep {
    dur_ns: u64,
    record: bool,
    registered: bool,
    shared: Arc<SleepShared>,
}

impl Future for Sleep {
    type Output = ();
    fn poll(mut self: Pin<&mut Self>, cx: &mut Context<'_>) -> Poll<()> {
        if self.shared.fired.load(Ordering::Relaxed) {
            return Poll::Ready(());
        }
        *self.shared.waker.lock().unwrap() = Some(cx.waker().clone());
        if !self.registered {
            self.registered = true;
            let dur = self.dur_ns;
            let record = self.record;
            let shared = self.shared.clone();
            with_world(|w| {
                if record {
                    w.dds_delays.push((w.now_ns, dur));
                }
                let seq = w.timer_seq;
                w.timer_seq += 1;
                // A zero delay requested by dust-dds still lets real time pass; give it a 1 ns quantum
                // so that a "wake exactly at the deadline, compare with >" loop makes progress.
                let eff = if record { dur.max(1) } else { dur };
                w.timers.push(TimerEntry { at: w.now_ns.saturating_add(eff), seq, shared });
            });
        }
        Poll::Pending
    }
}

impl Drop for Sleep {
    fn drop(&mut self) {
        self.shared.cancelled.store(true, Ordering::Relaxed);
    }
}

fn make_sleep(dur_ns: u64, record: bool) -> Sleep {
    Sleep {
        dur_ns,
        record,
        registered: false,
        shared: Arc::new(SleepShared {
            fired: AtomicBool::new(false),
            cancelled: AtomicBool::new(false),
            waker: Mutex::new(None),
        }),
    }
}

/// Harness sleep (not recorded as a dust-dds timer request).
pub fn sleep_ns(ns: u64) -> Sleep {
    make_sleep(ns, false)
}
pub fn sleep_ms(ms: u64) -> Sleep {
    make_sleep(ms * 1_000_000, false)
}

/// Yield once to the executor.
pub async fn yield_now() {
    struct Y(bool);
    impl Future for Y {
        type Output = ();
        fn poll(mut self: Pin<&mut Self>, cx: &mut Context<'_>) -> Poll<()> {
            if self.0 {
                Poll::Ready(())
            } else {
                self.0 = true;
                cx.waker().wake_by_ref();
                Poll::Pending
            }
        }
    }
    Y(false).await
}

// ---------------- dust-dds runtime ----------------

#[derive(Clone)]
pub struct SimClock;
impl Clock for SimClock {
    fn now(&self) -> Time {
        let ns = now_ns();
        Time::new((ns / 1_000_000_000) as i32, (ns % 1_000_000_000) as u32)
    }
}

#[derive(Clone)]
pub struct SimTimer;
impl Timer for SimTimer {
    fn delay(&mut self, duration: core::time::Duration) -> impl Future<Output = ()> + Send {
        let ns = duration.as_nanos().min((u64::MAX / 4) as u128) as u64;
        make_sleep(ns, true)
    }
}

#[derive(Clone)]
pub struct SimSpawner;
pub struct SimTaskHandle;
impl TaskHandle for SimTaskHandle {
    fn join(&self) {}
}
impl Spawner for SimSpawner {
    type TaskHandle = SimTaskHandle;
    fn spawn(&self, f: impl Future<Output = ()> + Send + 'static) -> SimTaskHandle {
        spawn_inner(Box::pin(f), true);
        SimTaskHandle
    }
}

pub struct SimRuntime;
impl DdsRuntime for SimRuntime {
    type ClockHandle = SimClock;
    type TimerHandle = SimTimer;
    type SpawnerHandle = SimSpawner;
    fn timer(&self) -> SimTimer {
        SimTimer
    }
    fn clock(&self) -> SimClock {
        SimClock
    }
    fn spawner(&self) -> SimSpawner {
        SimSpawner
    }
}

// ---------------- panic capture ----------------

thread_local! {
    static LAST_PANIC: RefCell<Option<(String, String)>> = const { RefCell::new(None) };
}

pub fn install_panic_hook(report_fd: i32) {
    std::panic::set_hook(Box::new(move |info| {
        let loc = info
            .location()
            .map(|l| l.file().to_string())
            .unwrap_or_else(|| "?".into());
        let msg = if let Some(s) = info.payload().downcast_ref::<&str>() {
            s.to_string()
        } else if let Some(s) = info.payload().downcast_ref::<String>() {
            s.clone()
        } else {
            "?".to_string()
        };
        if report_fd >= 0 {
            let line = format!("\nPANIC {}|{}\n", loc, msg.replace('\n', " "));
            unsafe {
                libc::write(report_fd, line.as_ptr() as *const libc::c_void, line.len());
            }
        }
        LAST_PANIC.with(|p| *p.borrow_mut() = Some((loc, msg)));
    }));
}

fn flush_pending_wakes() {
    let ids: Vec<usize> = PENDING_WAKES.with(|p| std::mem::take(&mut *p.borrow_mut()));
    if !ids.is_empty() {
        with_world(|w| {
            for id in ids {
                w.enqueue(id);
            }
        });
    }
}

/// Runs the executor until `main` completes. Everything (tasks, timers, datagrams) is driven from
/// here; virtual time advances only when nothing is runnable.
pub fn run<T: 'static>(main: impl Future<Output = T> + 'static) -> Result<T, Abort> {
    let handle = spawn(main);
    loop {
        if handle.is_done() {
            return Ok(handle.take().expect("value"));
        }
        flush_pending_wakes();
        // 1. run a runnable task (choice from the schedule tape, default FIFO)
        let next = with_world(|w| {
            if w.run_queue.is_empty() {
                return None;
            }
            let choice = w.sched_tape.pop_front().unwrap_or(0);
            let i = vcore::pt::idx(choice, w.run_queue.len());
            let id = w.run_queue.remove(i).unwrap();
            w.queued.remove(&id);
            Some(id)
        });
        if let Some(id) = next {
            let (fut, waker, over) = with_world(|w| {
                let waker = w
                    .wakers
                    .entry(id)
                    .or_insert_with(|| Waker::from(Arc::new(TaskWaker { id })))
                    .clone();
                w.polls += 1;
                w.current_task = Some(id);
                (w.tasks.remove(&id), waker, w.polls > w.step_limit)
            });
            if over {
                return Err(Abort::StepLimit);
            }
            if let Some(mut fut) = fut {
                let mut cx = Context::from_waker(&waker);
                let r = std::panic::catch_unwind(AssertUnwindSafe(|| fut.as_mut().poll(&mut cx)));
                match r {
                    Ok(Poll::Ready(())) => {
                        with_world(|w| {
                            w.current_task = None;
                            w.wakers.remove(&id);
                            w.dds_tasks.remove(&id);
                        });
                    }
                    Ok(Poll::Pending) => {
                        with_world(|w| {
                            w.current_task = None;
                            w.tasks.insert(id, fut);
                        });
                    }
                    Err(_) => {
                        let (loc, msg) = LAST_PANIC
                            .with(|p| p.borrow_mut().take())
                            .unwrap_or(("?".into(), "?".into()));
                        let dds = with_world(|w| {
                            w.current_task = None;
                            w.dds_tasks.contains(&id)
                        });
                        std::mem::forget(fut);
                        return Err(Abort::Panic(PanicInfo {
                            task: id,
                            dds_task: dds,
                            location: loc,
                            message: msg,
                        }));
                    }
                }
            } else {
                with_world(|w| w.current_task = None);
            }
            continue;
        }
        // 2. deliver one due datagram
        if crate::net::deliver_due() {
            continue;
        }
        // 3. advance virtual time to the next timer or delivery
        enum Next {
            Timer(Option<Waker>),
            Skip,
            Net,
            Nothing,
        }
        let nx = with_world(|w| {
            let next_net = w.net.next_delivery_time();
            let next_timer = w.timers.peek().map(|e| e.at);
            match (next_timer, next_net) {
                (None, None) => Next::Nothing,
                (Some(t), n) if n.map(|n| t <= n).unwrap_or(true) => {
                    let e = w.timers.pop().unwrap();
                    if e.shared.cancelled.load(Ordering::Relaxed) {
                        return Next::Skip;
                    }
                    if e.at > w.now_ns {
                        w.now_ns = e.at;
                    }
                    e.shared.fired.store(true, Ordering::Relaxed);
                    Next::Timer(e.shared.waker.lock().unwrap().take())
                }
                (_, Some(n)) => {
                    if n > w.now_ns {
                        w.now_ns = n;
                    }
                    Next::Net
                }
                _ => Next::Nothing,
            }
        });
        match nx {
            Next::Timer(Some(wk)) => wk.wake(),
            Next::Timer(None) | Next::Skip | Next::Net => {}
            Next::Nothing => return Err(Abort::Deadlock),
        }
    }
}
