//! Scenario helpers on top of the async dust-dds API.

use std::future::Future;

use dust_dds::{
    dds_async::domain_participant_factory::DomainParticipantFactoryAsync,
    infrastructure::time::{Duration, DurationKind},
};

use crate::{
    exec::{self, SimRuntime},
    net::SimTransport,
};

pub type Factory = DomainParticipantFactoryAsync<SimTransport>;

/// The one factory (and DDS worker) of this process; only ever called in a forked child.
pub fn factory() -> &'static Factory {
    use std::sync::OnceLock;
    struct P(&'static Factory);
    unsafe impl Sync for P {}
    unsafe impl Send for P {}
    static F: OnceLock<P> = OnceLock::new();
    F.get_or_init(|| {
        P(Box::leak(Box::new(DomainParticipantFactoryAsync::new(
            SimRuntime,
            [1, 2, 3, 4],
            [5, 6, 7, 8],
            SimTransport,
            Default::default(),
        ))))
    })
    .0
}

pub enum Timed<T> {
    Done(T),
    TimedOut,
}

impl<T> Timed<T> {
    pub fn done(self) -> Option<T> {
        match self {
            Timed::Done(v) => Some(v),
            Timed::TimedOut => None,
        }
    }
}

/// Await `f` for at most `ms` virtual milliseconds.
pub async fn timeout<T>(ms: u64, f: impl Future<Output = T>) -> Timed<T> {
    use std::pin::pin;
    use std::task::Poll;
    let mut f = pin!(f);
    let mut s = pin!(exec::sleep_ms(ms));
    std::future::poll_fn(|cx| {
        if let Poll::Ready(v) = f.as_mut().poll(cx) {
            return Poll::Ready(Timed::Done(v));
        }
        if let Poll::Ready(()) = s.as_mut().poll(cx) {
            return Poll::Ready(Timed::TimedOut);
        }
        Poll::Pending
    })
    .await
}

/// Poll `cond` every `step_ms` until true or `max_ms` elapsed. Returns whether it became true.
pub async fn wait_until<F, Fut>(max_ms: u64, step_ms: u64, mut cond: F) -> bool
where
    F: FnMut() -> Fut,
    Fut: Future<Output = bool>,
{
    let mut waited = 0;
    loop {
        if cond().await {
            return true;
        }
        if waited >= max_ms {
            return false;
        }
        exec::sleep_ms(step_ms).await;
        waited += step_ms;
    }
}

pub fn dur_ms(ms: u64) -> Duration {
    Duration::new((ms / 1000) as i32, ((ms % 1000) * 1_000_000) as u32)
}
pub fn dk_ms(ms: u64) -> DurationKind {
    DurationKind::Finite(dur_ms(ms))
}
