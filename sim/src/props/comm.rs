//! C01 reliable delivery, C02 best-effort delivery, C05 fragment reassembly: one writer, 1–2 readers in
//! other participants, a fault tape over the user-traffic datagrams, then a healed network.

use std::collections::{BTreeMap, BTreeSet};

use dust_dds::infrastructure::{
    listener::NO_LISTENER,
    qos::{DataReaderQos, DataWriterQos, QosKind},
    qos_policy::{
        HistoryQosPolicy, HistoryQosPolicyKind, ReliabilityQosPolicy, ReliabilityQosPolicyKind,
    },
    sample_info::{ANY_INSTANCE_STATE, ANY_SAMPLE_STATE, ANY_VIEW_STATE},
    status::NO_STATUS,
};
use proptest::prelude::*;
use serde::{Deserialize, Serialize};
use serde_json::json;
use vcore::{Ctx, Meta, fork::Limits, pt::idx, wire};

use crate::{
    case::{CaseResult, apply_abort, sim_stats},
    exec::{self, with_world},
    props::{Campaign, campaign},
    types::{KeyedData, blob_for},
    util::{dk_ms, factory, wait_until},
};

#[derive(Clone, Debug, Serialize, Deserialize)]
pub struct W {
    pub inst: u8,
    pub len: u32,
    pub pause: u16,
}

#[derive(Clone, Debug, Serialize, Deserialize)]
pub struct CommCase {
    pub prop: String,
    pub frag: u32,
    pub reader_reliable: bool,
    pub writer_reliable: bool,
    pub keep_last: Option<u8>,
    pub readers: u8,
    pub writes: Vec<W>,
    pub tape: Vec<u16>,
}

const PAUSES_MS: [u64; 10] = [0, 0, 0, 1, 20, 49, 51, 199, 201, 1000];

fn len_strategy(frag: u32, max_len: u32) -> impl Strategy<Value = u32> {
    prop_oneof![
        3 => 0u32..40,
        4 => (1u32..7, 0u32..28).prop_map(move |(k, d)| (k * frag + 6).saturating_sub(d)),
        1 => 0u32..(3 * frag + 50),
    ]
    .prop_map(move |l| l.min(max_len))
}

fn tape_strategy(max: usize) -> impl Strategy<Value = Vec<u16>> {
    prop::collection::vec(prop_oneof![2 => Just(0u16), 3 => any::<u16>()], 0..max)
}

pub fn strategy(prop: &'static str, thorough: bool) -> BoxedStrategy<CommCase> {
    let frag = match prop {
        "C05" => prop_oneof![
            3 => 8u32..=64,
            3 => (3.0f64..16.0).prop_map(|e| (2f64.powf(e) as u32).clamp(8, 65000)),
            1 => prop_oneof![Just(8u32), Just(1344), Just(65000), Just(64999)],
        ]
        .boxed(),
        _ => prop_oneof![Just(8u32), Just(16), Just(32), Just(100), Just(1344), 8u32..200].boxed(),
    };
    let max_writes = match (prop, thorough) {
        ("C05", _) => 4,
        (_, false) => 40,
        (_, true) => 120,
    };
    let max_tape = if thorough { 400 } else { 150 };
    frag.prop_flat_map(move |frag| {
        let max_len = if prop == "C05" { (frag * 12).min(70_000).max(200) } else { 6 * frag + 40 };
        let writes = prop::collection::vec(
            (0u8..4, len_strategy(frag, max_len), any::<u16>())
                .prop_map(|(inst, len, pause)| W { inst, len, pause: if pause % 3 == 0 { pause } else { 0 } }),
            1..=max_writes,
        );
        let (rr, wr) = match prop {
            "C02" => (Just(false).boxed(), any::<bool>().boxed()),
            "C05" => (any::<bool>().boxed(), Just(true).boxed()),
            _ => (Just(true).boxed(), Just(true).boxed()),
        };
        (
            Just(frag),
            rr,
            wr,
            prop_oneof![2 => Just(None), 1 => (1u8..5).prop_map(Some)],
            1u8..=2,
            writes,
            tape_strategy(max_tape),
        )
    })
    .prop_map(move |(frag, reader_reliable, writer_reliable, keep_last, readers, writes, tape)| CommCase {
        prop: prop.to_string(),
        frag,
        reader_reliable,
        writer_reliable: writer_reliable || reader_reliable,
        keep_last,
        readers,
        writes,
        tape,
    })
    .boxed()
}

#[derive(Clone, Debug, Default, Serialize, Deserialize)]
pub struct Obs {
    pub setup_error: Option<String>,
    /// (inst, seq, len, write returned Ok)
    pub written: Vec<(u8, u32, u32, bool)>,
    /// per reader: (inst, seq, len, intact) in presentation order
    pub received: Vec<Vec<(u8, u32, u32, bool)>>,
    pub virt_ms_after_heal: u64,
    /// (reader, error) for every take() that failed with something else than NoData
    #[serde(default)]
    pub take_errors: Vec<(usize, String)>,
}

async fn scenario(c: CommCase) -> Obs {
    let mut obs = Obs::default();
    with_world(|w| {
        w.net.fragment_size = c.frag as usize;
    });
    let f = factory();
    let pw = f.create_participant(0, QosKind::Default, NO_LISTENER, NO_STATUS).await.unwrap();
    let tw = pw
        .create_topic::<KeyedData>("T", "KeyedData", QosKind::Default, NO_LISTENER, NO_STATUS)
        .await
        .unwrap();
    let publ = pw.create_publisher(QosKind::Default, NO_LISTENER, NO_STATUS).await.unwrap();
    let wq = DataWriterQos {
        reliability: ReliabilityQosPolicy {
            kind: if c.writer_reliable {
                ReliabilityQosPolicyKind::Reliable
            } else {
                ReliabilityQosPolicyKind::BestEffort
            },
            max_blocking_time: dk_ms(100),
        },
        history: HistoryQosPolicy {
            kind: match c.keep_last {
                None => HistoryQosPolicyKind::KeepAll,
                Some(d) => HistoryQosPolicyKind::KeepLast(d as u32),
            },
        },
        ..Default::default()
    };
    let writer = publ
        .create_datawriter::<KeyedData>(&tw, QosKind::Specific(wq), NO_LISTENER, NO_STATUS)
        .await
        .unwrap();
    let mut readers = vec![];
    let mut keep = vec![];
    for _ in 0..c.readers {
        let pr = f.create_participant(0, QosKind::Default, NO_LISTENER, NO_STATUS).await.unwrap();
        let tr = pr
            .create_topic::<KeyedData>("T", "KeyedData", QosKind::Default, NO_LISTENER, NO_STATUS)
            .await
            .unwrap();
        let sub = pr.create_subscriber(QosKind::Default, NO_LISTENER, NO_STATUS).await.unwrap();
        let rq = DataReaderQos {
            reliability: ReliabilityQosPolicy {
                kind: if c.reader_reliable {
                    ReliabilityQosPolicyKind::Reliable
                } else {
                    ReliabilityQosPolicyKind::BestEffort
                },
                max_blocking_time: dk_ms(100),
            },
            history: HistoryQosPolicy { kind: HistoryQosPolicyKind::KeepAll },
            ..Default::default()
        };
        let r = sub
            .create_datareader::<KeyedData>(&tr, QosKind::Specific(rq), NO_LISTENER, NO_STATUS)
            .await
            .unwrap();
        readers.push(r);
        keep.push((pr, tr, sub));
    }
    let n = c.readers as i32;
    let matched = wait_until(20_000, 10, || async {
        let mut ok = writer.get_publication_matched_status().await.map(|s| s.current_count == n).unwrap_or(false);
        for r in &readers {
            ok &= r.get_subscription_matched_status().await.map(|s| s.current_count == 1).unwrap_or(false);
        }
        ok
    })
    .await;
    if !matched {
        obs.setup_error = Some("writer and readers did not match on a loss-free network within 20 s".into());
        return obs;
    }
    exec::sleep_ms(100).await;
    // ---- attack phase
    with_world(|w| {
        w.net.tape = c.tape.iter().copied().collect();
        w.net.attack_user = true;
    });
    obs.received = vec![vec![]; readers.len()];
    let mut seq = 0u32;
    for wr in &c.writes {
        seq += 1;
        let sample = KeyedData { id: wr.inst, seq, blob: blob_for(seq, wr.len as usize) };
        let r = writer.write(sample, None).await;
        obs.written.push((wr.inst, seq, wr.len, r.is_ok()));
        let p = PAUSES_MS[idx(wr.pause, PAUSES_MS.len())];
        if p > 0 {
            exec::sleep_ms(p).await;
            collect(&readers, &mut obs).await;
        }
    }
    // ---- heal: no more faults for new datagrams; already delayed ones still arrive
    with_world(|w| {
        w.net.attack_user = false;
        w.net.tape.clear();
    });
    let heal_at = exec::now_ns();
    let expected = expected_set(&c, &obs);
    let deadline_ms = if c.reader_reliable { 30_000 } else { 3_000 };
    let mut waited = 0;
    loop {
        collect(&readers, &mut obs).await;
        let complete = c.reader_reliable
            && obs.received.iter().all(|r| {
                let got: BTreeSet<u32> = r.iter().map(|x| x.1).collect();
                expected.iter().all(|s| got.contains(s))
            });
        if (complete && waited >= 1500) || waited >= deadline_ms {
            break;
        }
        exec::sleep_ms(100).await;
        waited += 100;
    }
    obs.virt_ms_after_heal = (exec::now_ns() - heal_at) / 1_000_000;
    drop(keep);
    obs
}

async fn collect(
    readers: &[dust_dds::dds_async::data_reader::DataReaderAsync<KeyedData>],
    obs: &mut Obs,
) {
    for (i, r) in readers.iter().enumerate() {
        match r.take(10_000, ANY_SAMPLE_STATE, ANY_VIEW_STATE, ANY_INSTANCE_STATE).await {
            Ok(samples) => {
                for s in samples {
                    if let Some(d) = s.data {
                        let intact = d.blob == blob_for(d.seq, d.blob.len());
                        obs.received[i].push((d.id, d.seq, d.blob.len() as u32, intact));
                    }
                }
            }
            Err(dust_dds::infrastructure::error::DdsError::NoData) => {}
            // the reader holds something it cannot present as a sample of the type (undecodable payload)
            Err(e) => obs.take_errors.push((i, format!("{e:?}"))),
        }
    }
}

/// samples the writer still holds at the end: all Ok writes (KEEP_ALL) or the last d per instance
fn expected_set(c: &CommCase, obs: &Obs) -> BTreeSet<u32> {
    let ok: Vec<&(u8, u32, u32, bool)> = obs.written.iter().filter(|w| w.3).collect();
    match c.keep_last {
        None => ok.iter().map(|w| w.1).collect(),
        Some(d) => {
            let mut per: BTreeMap<u8, Vec<u32>> = BTreeMap::new();
            for w in ok {
                per.entry(w.0).or_default().push(w.1);
            }
            per.values().flat_map(|v| v.iter().rev().take(d as usize).copied()).collect()
        }
    }
}

pub fn eval(case: &CommCase) -> CaseResult {
    let mut res = CaseResult::default();
    let prop = case.prop.clone();
    let c = case.clone();
    match exec::run(scenario(c)) {
        Ok(obs) => oracle(case, &obs, &mut res),
        Err(a) => apply_abort(&prop, &mut res, a),
    }
    res.sim = sim_stats();
    res
}

fn oracle(c: &CommCase, obs: &Obs, res: &mut CaseResult) {
    let prop = &c.prop;
    if let Some(e) = &obs.setup_error {
        res.harness_error = Some(e.clone());
        return;
    }
    // ---- classification from the wire log
    let mut data_fault = false;
    let mut frag_fault = false;
    let mut repair_seen = false;
    let mut fragmented_on_wire = false;
    with_world(|w| {
        for rec in &w.net.log {
            if rec.class != crate::net::Class::User {
                continue;
            }
            let Some(m) = wire::parse(&rec.data) else { continue };
            let faulty = rec.attacked && (rec.dropped || rec.delay_ns > 0 || rec.duplicated);
            for s in &m.subs {
                match &s.sub {
                    wire::Sub::Data { .. } => {
                        if faulty {
                            data_fault = true;
                        }
                    }
                    wire::Sub::DataFrag { .. } => {
                        fragmented_on_wire = true;
                        if faulty {
                            data_fault = true;
                            frag_fault = true;
                        }
                    }
                    wire::Sub::AckNack { set, .. } if !set.is_empty() => repair_seen = true,
                    wire::Sub::NackFrag { .. } | wire::Sub::Gap { .. } => repair_seen = true,
                    _ => {}
                }
            }
            if rec.dropped {
                res.class("drop");
            }
            if rec.delay_ns > 0 {
                res.class("delay");
            }
            if rec.duplicated {
                res.class("dup");
            }
        }
    });
    if fragmented_on_wire {
        res.class("fragmented");
    }
    if repair_seen {
        res.class("repair_seen");
    }
    if c.keep_last.is_some() {
        res.class("writer_keep_last");
    }
    if !data_fault {
        res.class("no_data_fault");
    }
    res.nontrivial = match prop.as_str() {
        "C01" => data_fault && repair_seen,
        "C02" => data_fault,
        _ => fragmented_on_wire && frag_fault,
    };
    let by_seq: BTreeMap<u32, &(u8, u32, u32, bool)> = obs.written.iter().map(|w| (w.1, w)).collect();
    let expected = expected_set(c, obs);
    // serialized size > fragment size ⇒ fragmented (header 4 + id 1(+3) + seq 4 + len 4 + blob)
    let is_frag = |len: u32| len + 16 > c.frag;
    for (ri, got) in obs.received.iter().enumerate() {
        let mut seen: BTreeSet<u32> = BTreeSet::new();
        let mut last_per_inst: BTreeMap<u8, u32> = BTreeMap::new();
        for (inst, seq, len, intact) in got {
            let shape = if is_frag(*len) { "frag" } else { "nofrag" };
            match by_seq.get(seq) {
                None => {
                    res.fail(
                        format!("{prop}:invented:{shape}"),
                        format!("reader {ri} presented seq {seq} which was never written"),
                    );
                    continue;
                }
                Some(w) => {
                    if !*intact || w.2 != *len || w.0 != *inst {
                        res.fail(
                            format!("{prop}:corrupt:{shape}"),
                            format!("reader {ri}: sample seq {seq} differs from what was written (len {} vs {})", len, w.2),
                        );
                    }
                }
            }
            if !seen.insert(*seq) {
                res.fail(format!("{prop}:duplicate:{shape}"), format!("reader {ri} presented seq {seq} twice"));
            }
            if let Some(prev) = last_per_inst.get(inst) {
                if *prev > *seq {
                    res.fail(
                        format!("{prop}:order:{shape}"),
                        format!("reader {ri}: instance {inst} presented seq {seq} after seq {prev}"),
                    );
                }
            }
            last_per_inst.insert(*inst, *seq);
        }
        if c.reader_reliable {
            let missing: Vec<u32> = expected.iter().filter(|s| !seen.contains(s)).copied().collect();
            if let Some(first) = missing.first() {
                let any_frag = missing.iter().any(|s| is_frag(by_seq[s].2));
                let shape = if any_frag { "frag" } else { "nofrag" };
                res.fail(
                    format!("{prop}:missing:{shape}"),
                    format!(
                        "reader {ri} (reliable) never presented {} of {} samples the writer still holds, first seq {} (len {}), {} ms after the network healed",
                        missing.len(),
                        expected.len(),
                        first,
                        by_seq[first].2,
                        obs.virt_ms_after_heal
                    ),
                );
            }
        }
    }
    if let Some((ri, e)) = obs.take_errors.first() {
        res.fail(
            format!("{prop}:corrupt:take-error"),
            format!("reader {ri}: take() failed with {e} ({} times): a received payload could not be presented as a sample of the written type", obs.take_errors.len()),
        );
    }
    res.info = json!({
        "written": obs.written.len(),
        "received": obs.received.iter().map(|r| r.len()).collect::<Vec<_>>(),
        "expected": expected.len(),
        "virt_ms_after_heal": obs.virt_ms_after_heal,
    });
}

pub fn main(ctx: &Ctx) {
    let prop: &'static str = match ctx.id.as_str() {
        "C01" => "C01",
        "C02" => "C02",
        _ => "C05",
    };
    let thorough = ctx.tier == vcore::Tier::Thorough;
    let (total, rule, floor) = match prop {
        "C01" => (
            ctx.pick(800, 40_000),
            "generated scenario: 1 RELIABLE writer (KEEP_ALL or KEEP_LAST d), 1-2 RELIABLE KEEP_ALL readers, fragment size f, 1-40(120) writes with boundary sizes around k*f, fault tape (drop/delay/duplicate/coalesce) on user-traffic datagrams, then healed network for up to 30 s virtual; non-trivial = a DATA/DATA_FRAG datagram was dropped, delayed or duplicated AND a repair (ACKNACK with non-empty set, NACK_FRAG or GAP) was seen on the wire; distinct = hash of the case encoding",
            200,
        ),
        "C02" => (
            ctx.pick(800, 40_000),
            "as C01 with BEST_EFFORT readers (writer BEST_EFFORT or RELIABLE); non-trivial = a DATA/DATA_FRAG datagram was dropped, delayed or duplicated; distinct = hash of the case encoding",
            200,
        ),
        _ => (
            ctx.pick(1_000, 30_000),
            "1-4 samples with sizes around k*f for fragment sizes over 8..=65000 (every f in 8..=64, log-uniform above), fragment-level faults from the tape; non-trivial = sample fragmented on the wire AND a DATA_FRAG datagram was dropped, delayed or duplicated; distinct = hash of the case encoding",
            150,
        ),
    };
    campaign(
        ctx,
        Campaign {
            total_cases: total,
            max_shrink_iters: 300,
            limits: Limits { cpu_s: 20, wall_s: 120, as_bytes: 4 << 30 },
            meta: Meta {
                rule,
                assumptions: &[
                    "deterministic simulation: custom DdsRuntime (virtual clock/timer/spawner) and in-memory transport replace std runtime and UDP",
                    "async API (dds_async); the sync API is a block_on wrapper over it",
                    "faults are applied to datagrams addressed to user-traffic unicast locators only; discovery traffic is loss-free",
                ],
                nontrivial_floor: floor,
            },
        },
        strategy(prop, thorough),
        eval,
    );
}
