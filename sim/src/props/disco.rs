//! C15 matching ⇔ compatibility (R-RXO, DESIGN.md Appendix B), C16 matched-status counts, C17 participant
//! discovery / domain isolation / lease expiry.

use std::sync::{Arc, Mutex};

use dust_dds::{
    dds_async::{
        data_reader::DataReaderAsync, data_reader_listener::DataReaderListener,
        data_writer::DataWriterAsync, data_writer_listener::DataWriterListener,
    },
    infrastructure::{
        listener::NO_LISTENER,
        qos::{DataReaderQos, DataWriterQos, PublisherQos, QosKind, SubscriberQos},
        qos_policy::{
            DATA_REPRESENTATION_QOS_POLICY_ID, DEADLINE_QOS_POLICY_ID, DESTINATIONORDER_QOS_POLICY_ID,
            DURABILITY_QOS_POLICY_ID, DataRepresentationQosPolicy, DeadlineQosPolicy,
            DestinationOrderQosPolicy, DestinationOrderQosPolicyKind, DurabilityQosPolicy,
            DurabilityQosPolicyKind, LATENCYBUDGET_QOS_POLICY_ID, LIVELINESS_QOS_POLICY_ID,
            LatencyBudgetQosPolicy, LivelinessQosPolicy, LivelinessQosPolicyKind,
            OWNERSHIP_QOS_POLICY_ID, OwnershipQosPolicy, OwnershipQosPolicyKind,
            PRESENTATION_QOS_POLICY_ID, PartitionQosPolicy, PresentationQosPolicy,
            PresentationQosPolicyAccessScopeKind, RELIABILITY_QOS_POLICY_ID, ReliabilityQosPolicy,
            ReliabilityQosPolicyKind, XCDR2_DATA_REPRESENTATION, XCDR_DATA_REPRESENTATION,
        },
        status::{NO_STATUS, OfferedIncompatibleQosStatus, RequestedIncompatibleQosStatus, StatusKind},
        time::{Duration, DurationKind},
    },
};
use proptest::prelude::*;
use serde::{Deserialize, Serialize};
use serde_json::json;
use vcore::{Ctx, Meta, fork::Limits};

use crate::{
    case::{CaseResult, apply_abort, sim_stats},
    exec,
    props::{Campaign, campaign},
    types::{KeyedData, Unkeyed},
    util::{dk_ms, factory},
};

// ------------------------------------------------------------------------------------------
// generated QoS (plain data so that cases serialise and shrink)

#[derive(Clone, Debug, Serialize, Deserialize, PartialEq)]
pub struct Rxo {
    /// 0 volatile, 1 transient local, 2 transient, 3 persistent
    pub durability: u8,
    /// duration classes: see `dur_of`
    pub deadline: u8,
    pub latency: u8,
    /// 0 automatic, 1 manual by participant, 2 manual by topic
    pub liveliness_kind: u8,
    pub liveliness_lease: u8,
    pub reliable: bool,
    pub by_source: bool,
    pub exclusive: bool,
    /// 0 instance, 1 topic
    pub scope: u8,
    pub coherent: bool,
    pub ordered: bool,
    /// data representation ids in order (0 = XCDR1, 2 = XCDR2)
    pub repr: Vec<u8>,
    pub partition: Vec<String>,
}

/// duration classes 0..5 → (sec, nanosec) or infinite; ordered increasingly
fn dur_of(c: u8) -> DurationKind {
    match c {
        0 => DurationKind::Finite(Duration::new(10, 0)),
        1 => DurationKind::Finite(Duration::new(10, 1)),
        2 => DurationKind::Finite(Duration::new(20, 0)),
        3 => DurationKind::Finite(Duration::new(20, 999_999_999)),
        4 => DurationKind::Finite(Duration::new(21, 5)),
        _ => DurationKind::Infinite,
    }
}

fn rxo_strategy(writer_side: bool, patterns: bool) -> impl Strategy<Value = Rxo> {
    let names: Vec<&'static str> = if patterns { vec!["", "a", "b", "ab", "a*", "?", "[ab]", "*"] } else { vec!["", "a", "b", "ab"] };
    let partition = prop::collection::vec(prop::sample::select(names).prop_map(|s| s.to_string()), 0..3);
    let repr = if writer_side {
        prop_oneof![Just(vec![]), Just(vec![0u8]), Just(vec![2u8])].boxed()
    } else {
        prop_oneof![Just(vec![]), Just(vec![0u8]), Just(vec![2u8]), Just(vec![0u8, 2]), Just(vec![2u8, 0])].boxed()
    };
    (
        (0u8..4, 0u8..6, 0u8..6, 0u8..3, 0u8..6),
        (any::<bool>(), any::<bool>(), any::<bool>(), 0u8..2, any::<bool>(), any::<bool>()),
        repr,
        partition,
    )
        .prop_map(|((durability, deadline, latency, liveliness_kind, liveliness_lease), (reliable, by_source, exclusive, scope, coherent, ordered), repr, partition)| Rxo {
            durability,
            deadline,
            latency,
            liveliness_kind,
            liveliness_lease,
            reliable,
            by_source,
            exclusive,
            scope,
            coherent,
            ordered,
            repr,
            partition,
        })
}

fn default_rxo(writer_side: bool) -> Rxo {
    Rxo {
        durability: 0,
        deadline: 5,
        latency: 0,
        liveliness_kind: 0,
        liveliness_lease: 5,
        reliable: writer_side,
        by_source: false,
        exclusive: false,
        scope: 0,
        coherent: false,
        ordered: false,
        repr: vec![],
        partition: vec![],
    }
}

fn durability_of(k: u8) -> DurabilityQosPolicy {
    DurabilityQosPolicy {
        kind: match k {
            0 => DurabilityQosPolicyKind::Volatile,
            1 => DurabilityQosPolicyKind::TransientLocal,
            2 => DurabilityQosPolicyKind::Transient,
            _ => DurabilityQosPolicyKind::Persistent,
        },
    }
}
fn liveliness_of(k: u8, lease: u8) -> LivelinessQosPolicy {
    LivelinessQosPolicy {
        kind: match k {
            0 => LivelinessQosPolicyKind::Automatic,
            1 => LivelinessQosPolicyKind::ManualByParticipant,
            _ => LivelinessQosPolicyKind::ManualByTopic,
        },
        lease_duration: dur_of(lease),
    }
}
fn presentation_of(r: &Rxo) -> PresentationQosPolicy {
    PresentationQosPolicy {
        access_scope: if r.scope == 0 { PresentationQosPolicyAccessScopeKind::Instance } else { PresentationQosPolicyAccessScopeKind::Topic },
        coherent_access: r.coherent,
        ordered_access: r.ordered,
    }
}
fn repr_of(r: &Rxo) -> DataRepresentationQosPolicy {
    DataRepresentationQosPolicy {
        value: r.repr.iter().map(|x| if *x == 0 { XCDR_DATA_REPRESENTATION } else { XCDR2_DATA_REPRESENTATION }).collect(),
    }
}

pub fn writer_qos(r: &Rxo) -> (PublisherQos, DataWriterQos) {
    (
        PublisherQos {
            presentation: presentation_of(r),
            partition: PartitionQosPolicy { name: r.partition.clone() },
            ..Default::default()
        },
        DataWriterQos {
            durability: durability_of(r.durability),
            deadline: DeadlineQosPolicy { period: dur_of(r.deadline) },
            latency_budget: LatencyBudgetQosPolicy { duration: dur_of(r.latency) },
            liveliness: liveliness_of(r.liveliness_kind, r.liveliness_lease),
            reliability: ReliabilityQosPolicy {
                kind: if r.reliable { ReliabilityQosPolicyKind::Reliable } else { ReliabilityQosPolicyKind::BestEffort },
                max_blocking_time: dk_ms(100),
            },
            destination_order: DestinationOrderQosPolicy {
                kind: if r.by_source { DestinationOrderQosPolicyKind::BySourceTimestamp } else { DestinationOrderQosPolicyKind::ByReceptionTimestamp },
            },
            ownership: OwnershipQosPolicy { kind: if r.exclusive { OwnershipQosPolicyKind::Exclusive } else { OwnershipQosPolicyKind::Shared } },
            representation: repr_of(r),
            ..Default::default()
        },
    )
}

pub fn reader_qos(r: &Rxo) -> (SubscriberQos, DataReaderQos) {
    (
        SubscriberQos {
            presentation: presentation_of(r),
            partition: PartitionQosPolicy { name: r.partition.clone() },
            ..Default::default()
        },
        DataReaderQos {
            durability: durability_of(r.durability),
            deadline: DeadlineQosPolicy { period: dur_of(r.deadline) },
            latency_budget: LatencyBudgetQosPolicy { duration: dur_of(r.latency) },
            liveliness: liveliness_of(r.liveliness_kind, r.liveliness_lease),
            reliability: ReliabilityQosPolicy {
                kind: if r.reliable { ReliabilityQosPolicyKind::Reliable } else { ReliabilityQosPolicyKind::BestEffort },
                max_blocking_time: dk_ms(100),
            },
            destination_order: DestinationOrderQosPolicy {
                kind: if r.by_source { DestinationOrderQosPolicyKind::BySourceTimestamp } else { DestinationOrderQosPolicyKind::ByReceptionTimestamp },
            },
            ownership: OwnershipQosPolicy { kind: if r.exclusive { OwnershipQosPolicyKind::Exclusive } else { OwnershipQosPolicyKind::Shared } },
            representation: repr_of(r),
            ..Default::default()
        },
    )
}

// ------------------------------------------------------------------------------------------
// R-RXO: DDS 1.4 §2.2.3 request/offered table (+ XTypes 1.3 §7.6.3.1 data representation)

/// policy ids for which offered (w) is incompatible with requested (r)
pub fn rxo_incompatible(w: &Rxo, r: &Rxo) -> Vec<i32> {
    let mut v = vec![];
    if w.durability < r.durability {
        v.push(DURABILITY_QOS_POLICY_ID);
    }
    // offered scope >= requested; requested coherent/ordered implies offered
    if w.scope < r.scope || (r.coherent && !w.coherent) || (r.ordered && !w.ordered) {
        v.push(PRESENTATION_QOS_POLICY_ID);
    }
    // duration classes are ordered increasingly, 5 = infinite
    if w.deadline > r.deadline {
        v.push(DEADLINE_QOS_POLICY_ID);
    }
    if w.latency > r.latency {
        v.push(LATENCYBUDGET_QOS_POLICY_ID);
    }
    if w.liveliness_kind < r.liveliness_kind || w.liveliness_lease > r.liveliness_lease {
        v.push(LIVELINESS_QOS_POLICY_ID);
    }
    if !w.reliable && r.reliable {
        v.push(RELIABILITY_QOS_POLICY_ID);
    }
    if !w.by_source && r.by_source {
        v.push(DESTINATIONORDER_QOS_POLICY_ID);
    }
    if w.exclusive != r.exclusive {
        v.push(OWNERSHIP_QOS_POLICY_ID);
    }
    let offered = w.repr.first().copied().unwrap_or(0);
    let requested: Vec<u8> = if r.repr.is_empty() { vec![0] } else { r.repr.clone() };
    if !requested.contains(&offered) {
        v.push(DATA_REPRESENTATION_QOS_POLICY_ID);
    }
    v
}

fn is_pattern(s: &str) -> bool {
    s.contains('*') || s.contains('?') || s.contains('[')
}

/// POSIX fnmatch for the pattern alphabet generated here: `*`, `?`, `[...]`, literals
pub fn fnmatch(p: &[u8], s: &[u8]) -> bool {
    if p.is_empty() {
        return s.is_empty();
    }
    match p[0] {
        b'*' => (0..=s.len()).any(|k| fnmatch(&p[1..], &s[k..])),
        b'?' => !s.is_empty() && fnmatch(&p[1..], &s[1..]),
        b'[' => {
            let Some(end) = p.iter().position(|c| *c == b']') else {
                return !s.is_empty() && s[0] == b'[' && fnmatch(&p[1..], &s[1..]);
            };
            !s.is_empty() && p[1..end].contains(&s[0]) && fnmatch(&p[end + 1..], &s[1..])
        }
        c => !s.is_empty() && s[0] == c && fnmatch(&p[1..], &s[1..]),
    }
}

/// DDS partition matching: empty list ≡ [""]; Some(true/false) or None when a pattern meets a pattern
pub fn partitions_match(a: &[String], b: &[String]) -> Option<bool> {
    let aa: Vec<String> = if a.is_empty() { vec![String::new()] } else { a.to_vec() };
    let bb: Vec<String> = if b.is_empty() { vec![String::new()] } else { b.to_vec() };
    let mut undecided = false;
    for x in &aa {
        for y in &bb {
            match (is_pattern(x), is_pattern(y)) {
                (false, false) => {
                    if x == y {
                        return Some(true);
                    }
                }
                (true, false) => {
                    if fnmatch(x.as_bytes(), y.as_bytes()) {
                        return Some(true);
                    }
                }
                (false, true) => {
                    if fnmatch(y.as_bytes(), x.as_bytes()) {
                        return Some(true);
                    }
                }
                (true, true) => undecided = true,
            }
        }
    }
    if undecided { None } else { Some(false) }
}

// ------------------------------------------------------------------------------------------
// recording listeners

#[derive(Clone, Default)]
pub struct WRec {
    pub incompatible: Arc<Mutex<Vec<OfferedIncompatibleQosStatus>>>,
}
impl<T: 'static> DataWriterListener<T> for WRec {
    fn on_offered_incompatible_qos(
        &mut self,
        _w: DataWriterAsync<T>,
        status: OfferedIncompatibleQosStatus,
    ) -> impl std::future::Future<Output = ()> + Send {
        self.incompatible.lock().unwrap().push(status);
        core::future::ready(())
    }
}

#[derive(Clone, Default)]
pub struct RRec {
    pub incompatible: Arc<Mutex<Vec<RequestedIncompatibleQosStatus>>>,
}
impl<T: 'static> DataReaderListener<T> for RRec {
    fn on_requested_incompatible_qos(
        &mut self,
        _r: DataReaderAsync<T>,
        status: RequestedIncompatibleQosStatus,
    ) -> impl std::future::Future<Output = ()> + Send {
        self.incompatible.lock().unwrap().push(status);
        core::future::ready(())
    }
}

// ------------------------------------------------------------------------------------------
// C15

#[derive(Clone, Debug, Serialize, Deserialize)]
pub struct C15Case {
    pub w: Rxo,
    pub r: Rxo,
    pub same_topic: bool,
    pub same_type: bool,
    /// which side is created first
    pub reader_first: bool,
}

pub fn c15_strategy() -> BoxedStrategy<C15Case> {
    // one policy at a time (others default) half of the time, everything random otherwise
    let full = (rxo_strategy(true, false), rxo_strategy(false, true)).boxed();
    let full2 = (rxo_strategy(true, true), rxo_strategy(false, false)).boxed();
    let single = (rxo_strategy(true, true), rxo_strategy(false, false), 0u8..10).prop_map(|(w, r, which)| {
        let mut dw = default_rxo(true);
        let mut dr = default_rxo(false);
        match which {
            0 => {
                dw.durability = w.durability;
                dr.durability = r.durability;
            }
            1 => {
                dw.deadline = w.deadline;
                dr.deadline = r.deadline;
            }
            2 => {
                dw.latency = w.latency;
                dr.latency = r.latency;
            }
            3 => {
                dw.liveliness_kind = w.liveliness_kind;
                dw.liveliness_lease = w.liveliness_lease;
                dr.liveliness_kind = r.liveliness_kind;
                dr.liveliness_lease = r.liveliness_lease;
            }
            4 => {
                dw.reliable = w.reliable;
                dr.reliable = r.reliable;
            }
            5 => {
                dw.by_source = w.by_source;
                dr.by_source = r.by_source;
            }
            6 => {
                dw.exclusive = w.exclusive;
                dr.exclusive = r.exclusive;
            }
            7 => {
                dw.scope = w.scope;
                dw.coherent = w.coherent;
                dw.ordered = w.ordered;
                dr.scope = r.scope;
                dr.coherent = r.coherent;
                dr.ordered = r.ordered;
            }
            8 => {
                dw.repr = w.repr;
                dr.repr = r.repr;
            }
            _ => {
                dw.partition = w.partition;
                dr.partition = r.partition;
            }
        }
        (dw, dr)
    });
    (prop_oneof![2 => single.boxed(), 1 => full, 1 => full2], prop::bool::weighted(0.9), prop::bool::weighted(0.9), any::<bool>())
        .prop_map(|((w, r), same_topic, same_type, reader_first)| C15Case { w, r, same_topic, same_type, reader_first })
        .boxed()
}

#[derive(Default, Clone, Debug, Serialize, Deserialize)]
struct C15Obs {
    setup_error: Option<String>,
    w_matched: i32,
    r_matched: i32,
    w_total: i32,
    r_total: i32,
    w_incompat: Vec<(i32, i32, Vec<(i32, i32)>)>,
    r_incompat: Vec<(i32, i32, Vec<(i32, i32)>)>,
}

async fn c15_scenario(c: C15Case) -> C15Obs {
    let mut o = C15Obs::default();
    let f = factory();
    let pw = f.create_participant(0, QosKind::Default, NO_LISTENER, NO_STATUS).await.unwrap();
    let pr = f.create_participant(0, QosKind::Default, NO_LISTENER, NO_STATUS).await.unwrap();
    let (pq, wq) = writer_qos(&c.w);
    let (sq, rq) = reader_qos(&c.r);
    let wrec = WRec::default();
    let rrec = RRec::default();
    let rtopic = if c.same_topic { "T" } else { "U" };
    let mut writer = None;
    let mut reader_k = None;
    let mut reader_u = None;
    let mut keep: Vec<Box<dyn std::any::Any>> = vec![];
    for step in 0..2 {
        let do_reader = (step == 0) == c.reader_first;
        if do_reader {
            let sub = match pr.create_subscriber(QosKind::Specific(sq.clone()), NO_LISTENER, NO_STATUS).await {
                Ok(s) => s,
                Err(e) => {
                    o.setup_error = Some(format!("create_subscriber: {e:?}"));
                    return o;
                }
            };
            if c.same_type {
                let t = pr.create_topic::<KeyedData>(rtopic, "KeyedData", QosKind::Default, NO_LISTENER, NO_STATUS).await.unwrap();
                match sub
                    .create_datareader::<KeyedData>(&t, QosKind::Specific(rq.clone()), Some(rrec.clone()), &[StatusKind::RequestedIncompatibleQos])
                    .await
                {
                    Ok(r) => reader_k = Some(r),
                    Err(e) => {
                        o.setup_error = Some(format!("create_datareader: {e:?}"));
                        return o;
                    }
                }
                keep.push(Box::new(t));
            } else {
                let t = pr.create_topic::<Unkeyed>(rtopic, "Unkeyed", QosKind::Default, NO_LISTENER, NO_STATUS).await.unwrap();
                match sub
                    .create_datareader::<Unkeyed>(&t, QosKind::Specific(rq.clone()), Some(rrec.clone()), &[StatusKind::RequestedIncompatibleQos])
                    .await
                {
                    Ok(r) => reader_u = Some(r),
                    Err(e) => {
                        o.setup_error = Some(format!("create_datareader: {e:?}"));
                        return o;
                    }
                }
                keep.push(Box::new(t));
            }
            keep.push(Box::new(sub));
        } else {
            let publ = match pw.create_publisher(QosKind::Specific(pq.clone()), NO_LISTENER, NO_STATUS).await {
                Ok(p) => p,
                Err(e) => {
                    o.setup_error = Some(format!("create_publisher: {e:?}"));
                    return o;
                }
            };
            let t = pw.create_topic::<KeyedData>("T", "KeyedData", QosKind::Default, NO_LISTENER, NO_STATUS).await.unwrap();
            match publ
                .create_datawriter::<KeyedData>(&t, QosKind::Specific(wq.clone()), Some(wrec.clone()), &[StatusKind::OfferedIncompatibleQos])
                .await
            {
                Ok(w) => writer = Some(w),
                Err(e) => {
                    o.setup_error = Some(format!("create_datawriter: {e:?}"));
                    return o;
                }
            }
            keep.push(Box::new(t));
            keep.push(Box::new(publ));
        }
        exec::sleep_ms(if step == 0 { 300 } else { 1500 }).await;
    }
    let writer = writer.unwrap();
    if let Ok(s) = writer.get_publication_matched_status().await {
        o.w_matched = s.current_count;
        o.w_total = s.total_count;
    }
    let rs = match (&reader_k, &reader_u) {
        (Some(r), _) => r.get_subscription_matched_status().await,
        (_, Some(r)) => r.get_subscription_matched_status().await,
        _ => unreachable!(),
    };
    if let Ok(s) = rs {
        o.r_matched = s.current_count;
        o.r_total = s.total_count;
    }
    o.w_incompat = wrec
        .incompatible
        .lock()
        .unwrap()
        .iter()
        .map(|s| (s.total_count, s.last_policy_id, s.policies.iter().map(|p| (p.policy_id, p.count)).collect()))
        .collect();
    o.r_incompat = rrec
        .incompatible
        .lock()
        .unwrap()
        .iter()
        .map(|s| (s.total_count, s.last_policy_id, s.policies.iter().map(|p| (p.policy_id, p.count)).collect()))
        .collect();
    drop(keep);
    o
}

fn policy_name(id: i32) -> &'static str {
    match id {
        x if x == DURABILITY_QOS_POLICY_ID => "durability",
        x if x == PRESENTATION_QOS_POLICY_ID => "presentation",
        x if x == DEADLINE_QOS_POLICY_ID => "deadline",
        x if x == LATENCYBUDGET_QOS_POLICY_ID => "latency_budget",
        x if x == LIVELINESS_QOS_POLICY_ID => "liveliness",
        x if x == RELIABILITY_QOS_POLICY_ID => "reliability",
        x if x == DESTINATIONORDER_QOS_POLICY_ID => "destination_order",
        x if x == OWNERSHIP_QOS_POLICY_ID => "ownership",
        x if x == DATA_REPRESENTATION_QOS_POLICY_ID => "data_representation",
        _ => "other",
    }
}

/// finer shape of an RxO disagreement, so that distinct root causes get distinct signatures
fn rxo_shape(w: &Rxo, r: &Rxo, id: i32) -> String {
    let n = policy_name(id);
    if id == LIVELINESS_QOS_POLICY_ID {
        let kind_bad = w.liveliness_kind < r.liveliness_kind;
        let lease_bad = w.liveliness_lease > r.liveliness_lease;
        return format!("{n}:kind-{}-lease-{}", if kind_bad { "incompatible" } else { "ok" }, if lease_bad { "incompatible" } else { "ok" });
    }
    if id == PRESENTATION_QOS_POLICY_ID {
        return format!(
            "{n}:scope-{}-coherent-{}{}-ordered-{}{}",
            if w.scope < r.scope { "incompatible" } else { "ok" },
            w.coherent as u8,
            r.coherent as u8,
            w.ordered as u8,
            r.ordered as u8
        );
    }
    n.to_string()
}

pub fn c15_eval(case: &C15Case) -> CaseResult {
    let mut res = CaseResult::default();
    match exec::run(c15_scenario(case.clone())) {
        Ok(o) => {
            if let Some(e) = &o.setup_error {
                res.harness_error = Some(e.clone());
            } else {
                c15_oracle(case, &o, &mut res);
            }
        }
        Err(a) => apply_abort("C15", &mut res, a),
    }
    res.sim = sim_stats();
    res
}

fn c15_oracle(c: &C15Case, o: &C15Obs, res: &mut CaseResult) {
    let flagged = rxo_incompatible(&c.w, &c.r);
    let part = partitions_match(&c.w.partition, &c.r.partition);
    res.nontrivial = c.w != default_rxo(true) || c.r != default_rxo(false);
    res.info = json!({"flagged": flagged.iter().map(|i| policy_name(*i)).collect::<Vec<_>>(), "partition_match": part, "observed": o});
    for f in &flagged {
        res.class(format!("incompatible:{}", policy_name(*f)));
    }
    if flagged.is_empty() {
        res.class("rxo_compatible");
    }
    match part {
        Some(true) => res.class("partition_match"),
        Some(false) => res.class("partition_mismatch"),
        None => res.class("partition_pattern_vs_pattern"),
    }
    // both sides must reach the same verdict
    if (o.w_matched > 0) != (o.r_matched > 0) {
        res.fail(
            "C15:verdicts-differ",
            format!("writer side matched={} but reader side matched={}", o.w_matched, o.r_matched),
        );
        return;
    }
    let matched = o.w_matched > 0;
    if !c.same_topic || !c.same_type {
        res.class(if !c.same_topic { "different_topic" } else { "different_type" });
        if matched {
            res.fail(
                format!("C15:matched-despite-{}", if !c.same_topic { "different-topic" } else { "different-type" }),
                "endpoints matched although topic name or type differ",
            );
        }
        return;
    }
    let Some(part_ok) = part else {
        return; // pattern vs pattern: not judged
    };
    if !part_ok {
        if matched {
            res.fail(
                "C15:matched-despite-partition-mismatch",
                format!("matched although partitions {:?} and {:?} do not match", c.w.partition, c.r.partition),
            );
        }
        return;
    }
    if flagged.is_empty() {
        if !matched {
            let empty_vs_default = (c.w.partition.is_empty() && c.r.partition == vec![String::new()])
                || (c.r.partition.is_empty() && c.w.partition == vec![String::new()]);
            let shape = if empty_vs_default {
                "partition-empty-list-vs-empty-name".to_string()
            } else if !c.w.partition.is_empty() || !c.r.partition.is_empty() {
                "partition".to_string()
            } else if let Some((_, _, pol)) = o.w_incompat.last().or(o.r_incompat.last()) {
                format!("reported-{}", pol.iter().filter(|p| p.1 > 0).map(|p| rxo_shape(&c.w, &c.r, p.0)).collect::<Vec<_>>().join("+"))
            } else {
                "no-report".to_string()
            };
            res.fail(
                format!("C15:compatible-not-matched:{shape}"),
                format!("all request/offered policies are compatible and partitions {:?}/{:?} match per DDS rules, but the endpoints did not match (writer incompatible reports: {:?}, reader: {:?})", c.w.partition, c.r.partition, o.w_incompat, o.r_incompat),
            );
            return;
        }
        if o.w_matched != 1 || o.r_matched != 1 {
            res.fail("C15:match-count", format!("current_count should be 1 on both sides, got {} / {}", o.w_matched, o.r_matched));
        }
        if !o.w_incompat.is_empty() || !o.r_incompat.is_empty() {
            res.fail("C15:incompatible-reported-for-compatible-pair", "incompatible QoS callback for a compatible pair");
        }
        return;
    }
    // incompatible per the table
    if matched {
        let shape = flagged.iter().map(|f| rxo_shape(&c.w, &c.r, *f)).collect::<Vec<_>>().join("+");
        res.fail(
            format!("C15:incompatible-matched:{shape}"),
            format!("request/offered incompatible on {:?} per the DDS table, yet the endpoints matched", flagged.iter().map(|i| policy_name(*i)).collect::<Vec<_>>()),
        );
        return;
    }
    for (side, rep) in [("writer", &o.w_incompat), ("reader", &o.r_incompat)] {
        let Some((total, last, pol)) = rep.last() else {
            res.fail(format!("C15:incompatible-not-reported:{side}"), format!("{side} did not report offered/requested incompatible QoS for an incompatible pair"));
            return;
        };
        // how often the callback fires for one unchanged status is C33's business; the count must be 1
        if *total != 1 {
            res.fail(format!("C15:incompatible-count:{side}"), format!("{side}: one incompatible endpoint was discovered but total_count is {} ({} callbacks)", total, rep.len()));
            return;
        }
        if rep.len() > 1 {
            res.class("incompatible_callback_repeated");
        }
        let named: Vec<i32> = pol.iter().filter(|p| p.1 > 0).map(|p| p.0).collect();
        if named.is_empty() || named.iter().any(|p| !flagged.contains(p)) || !flagged.contains(last) {
            let wrong: Vec<&str> = named.iter().filter(|p| !flagged.contains(p)).map(|p| policy_name(*p)).collect();
            res.fail(
                format!("C15:wrong-policies-named:{side}:{}", wrong.join("+")),
                format!("{side} names policies {:?} (last {}), offending per the table: {:?}", named.iter().map(|p| policy_name(*p)).collect::<Vec<_>>(), policy_name(*last), flagged.iter().map(|p| policy_name(*p)).collect::<Vec<_>>()),
            );
            return;
        }
    }
}

pub fn main(ctx: &Ctx) {
    match ctx.id.as_str() {
        "C15" => campaign(
            ctx,
            Campaign {
                total_cases: ctx.pick(1_500, 60_000),
                max_shrink_iters: 300,
                limits: Limits { cpu_s: 20, wall_s: 120, as_bytes: 4 << 30 },
                meta: Meta {
                    rule: "one writer side (publisher+writer QoS) and one reader side (subscriber+reader QoS) in different participants with independently generated request/offered policies (durability, deadline, latency budget, liveliness kind x lease, reliability, destination order, ownership, presentation scope x coherent x ordered, data representation lists, partitions incl. fnmatch patterns on one side), one policy at a time (others default) in half of the cases, equal/different topic and type, either creation order; oracle = DDS 1.4 request/offered table + partition rules (R-RXO): matched on both sides iff compatible, otherwise both report incompatible QoS naming only offending policies; non-trivial = at least one policy differs from the default; distinct = hash of the case",
                    assumptions: &[
                        "deterministic simulation, loss-free network, 1.5 s virtual quiescence after the second endpoint is created",
                        "incompatible-QoS statuses are observed through entity listeners (the status getters are not implemented in the async API)",
                        "partition pattern-vs-pattern pairs are generated but not judged; the reported policy set must be a non-empty subset of the offending policies",
                    ],
                    nontrivial_floor: 200,
                },
            },
            c15_strategy(),
            c15_eval,
        ),
        "C16" => campaign(
            ctx,
            Campaign {
                total_cases: ctx.pick(1_200, 15_000),
                max_shrink_iters: 200,
                limits: Limits { cpu_s: 30, wall_s: 180, as_bytes: 4 << 30 },
                meta: Meta {
                    rule: "histories of 2-12(24) ops over one local writer (or reader) and up to 3 remote readers (writers), each in its own participant: create, delete, set_qos to an incompatible/compatible deadline, move the remote group to another partition and back, silent crash of the remote participant (100 s lease expiry in virtual time), deletion and re-creation of the local endpoint (the new one must match exactly the remote endpoints alive and compatible then), status reads, writes; model R-COUNT: current_count == |matched set|, total_count == number of became-matched transitions, change fields == difference since last read; wire monitor: no DATA/HEARTBEAT toward the participant of a reader that left the matched set; non-trivial = an endpoint left or re-entered the matched set; distinct = hash of the case",
                    assumptions: &[
                        "deterministic simulation, loss-free network, 1.5 s virtual quiescence after each discovery-relevant op, 102 s after a crash",
                        "one remote endpoint per remote participant so that wire traffic toward a participant identifies the endpoint",
                    ],
                    nontrivial_floor: 100,
                },
            },
            c16_strategy(ctx.tier == vcore::Tier::Thorough),
            c16_eval,
        ),
        "C17" => campaign(
            ctx,
            Campaign {
                total_cases: ctx.pick(500, 15_000),
                max_shrink_iters: 150,
                limits: Limits { cpu_s: 30, wall_s: 180, as_bytes: 4 << 30 },
                meta: Meta {
                    rule: "2-4 participants with domain ids in {0,1} and domain tags in {\"\", \"a\"} (the factory configuration is changed between creations), each with a wall clock offset of 0, +-7 s, +-200 s or +-1 h against the others (visible in its INFO_TS), announcement interval 0.5 s or 5 s, announcements lost/delayed/duplicated by a fault tape and optionally cross-delivered between domains, then a healed network; oracle: same (domain, tag) => mutual discovery within 3 announcement periods, different => never listed; a silently partitioned participant is still listed 500 ms before last-datagram + 100 s lease and gone 70 ms after it; an ignored participant is not listed 3 periods later, nor after it was deleted and a delayed copy of one of its announcements arrived; non-trivial = an isolation pair, a lease boundary, an ignore or an announcement fault was exercised; distinct = hash of the case",
                    assumptions: &[
                        "dust-dds participants always announce a 100 s lease; other lease values are not exercised",
                        "lease reference instant = arrival of the last datagram (of any kind) from the silent participant, taken from the simulated network",
                    ],
                    nontrivial_floor: 100,
                },
            },
            c17_strategy(),
            c17_eval,
        ),
        _ => unreachable!(),
    }
}

// ------------------------------------------------------------------------------------------
// C16: matched-status counts track the matched set (R-COUNT)

#[derive(Clone, Debug, Serialize, Deserialize)]
pub enum C16Op {
    /// create remote endpoint k (in its own participant) if it does not exist
    Create { k: u8 },
    Delete { k: u8 },
    /// make remote endpoint k incompatible (deadline) / compatible again
    SetIncompatible { k: u8, incompatible: bool },
    /// move remote endpoint k's group to another partition / back
    SetPartition { k: u8, other: bool },
    /// silently partition the participant of remote endpoint k (lease expiry follows)
    Crash { k: u8 },
    ReadStatus,
    /// write a sample on the writer side (local or remote)
    Write,
    /// delete the local endpoint (remote endpoints stay discovered but have nothing to match)
    LocalDelete,
    /// create the local endpoint again: it must match exactly the remote endpoints that are alive and compatible now
    LocalCreate,
}

#[derive(Clone, Debug, Serialize, Deserialize)]
pub struct C16Case {
    /// true: local writer + remote readers; false: local reader + remote writers
    pub local_is_writer: bool,
    pub ops: Vec<C16Op>,
}

pub fn c16_strategy(thorough: bool) -> BoxedStrategy<C16Case> {
    let n = if thorough { 24 } else { 12 };
    let op = prop_oneof![
        4 => (0u8..3).prop_map(|k| C16Op::Create { k }),
        2 => (0u8..3).prop_map(|k| C16Op::Delete { k }),
        5 => (prop_oneof![3 => Just(0u8), 1 => 1u8..3], any::<bool>()).prop_map(|(k, incompatible)| C16Op::SetIncompatible { k, incompatible }),
        3 => (prop_oneof![3 => Just(0u8), 1 => 1u8..3], any::<bool>()).prop_map(|(k, other)| C16Op::SetPartition { k, other }),
        2 => (0u8..3).prop_map(|k| C16Op::Crash { k }),
        3 => Just(C16Op::ReadStatus),
        2 => Just(C16Op::Write),
        1 => Just(C16Op::LocalDelete),
        2 => Just(C16Op::LocalCreate),
    ];
    (any::<bool>(), prop::collection::vec(op, 2..n))
        .prop_map(|(local_is_writer, ops)| C16Case { local_is_writer, ops })
        .boxed()
}

struct Remote {
    participant: dust_dds::dds_async::domain_participant::DomainParticipantAsync,
    net_idx: usize,
    group_partition_other: bool,
    incompatible: bool,
    crashed: bool,
    writer: Option<(dust_dds::dds_async::publisher::PublisherAsync, DataWriterAsync<KeyedData>)>,
    reader: Option<(dust_dds::dds_async::subscriber::SubscriberAsync, DataReaderAsync<KeyedData>)>,
    _topic: dust_dds::dds_async::topic::TopicAsync,
    /// matched with the local endpoint per the model
    matched: bool,
    /// virtual time at which it left the matched set (for the wire-silence check)
    left_at: Option<u64>,
}

#[derive(Default, Clone, Debug, Serialize, Deserialize)]
struct C16Obs {
    setup_error: Option<String>,
    verdict: Option<(String, String)>,
    classes: Vec<String>,
    ops_done: usize,
}

const OFFERED_DEADLINE_S: i32 = 40;

fn c16_wqos(incompatible: bool) -> DataWriterQos {
    // remote writer: incompatible = offers a longer deadline than the local reader requests
    DataWriterQos {
        reliability: ReliabilityQosPolicy { kind: ReliabilityQosPolicyKind::Reliable, max_blocking_time: dk_ms(100) },
        deadline: DeadlineQosPolicy {
            period: DurationKind::Finite(Duration::new(if incompatible { OFFERED_DEADLINE_S + 20 } else { OFFERED_DEADLINE_S }, 0)),
        },
        ..Default::default()
    }
}
fn c16_rqos(incompatible: bool) -> DataReaderQos {
    // remote reader: incompatible = requests a shorter deadline than the local writer offers
    DataReaderQos {
        reliability: ReliabilityQosPolicy { kind: ReliabilityQosPolicyKind::Reliable, max_blocking_time: dk_ms(100) },
        deadline: DeadlineQosPolicy {
            period: DurationKind::Finite(Duration::new(if incompatible { OFFERED_DEADLINE_S - 20 } else { OFFERED_DEADLINE_S }, 0)),
        },
        ..Default::default()
    }
}

async fn c16_scenario(c: C16Case) -> C16Obs {
    use crate::exec::with_world;
    let mut o = C16Obs::default();
    let f = factory();
    let local = f.create_participant(0, QosKind::Default, NO_LISTENER, NO_STATUS).await.unwrap();
    let ltopic = local.create_topic::<KeyedData>("T", "KeyedData", QosKind::Default, NO_LISTENER, NO_STATUS).await.unwrap();
    let lpub = local.create_publisher(QosKind::Default, NO_LISTENER, NO_STATUS).await.unwrap();
    let lsub = local.create_subscriber(QosKind::Default, NO_LISTENER, NO_STATUS).await.unwrap();
    let mut lwriter = if c.local_is_writer {
        Some(lpub.create_datawriter::<KeyedData>(&ltopic, QosKind::Specific(c16_wqos(false)), NO_LISTENER, NO_STATUS).await.unwrap())
    } else {
        None
    };
    let mut lreader = if !c.local_is_writer {
        Some(lsub.create_datareader::<KeyedData>(&ltopic, QosKind::Specific(c16_rqos(false)), NO_LISTENER, NO_STATUS).await.unwrap())
    } else {
        None
    };
    let mut remotes: Vec<Option<Remote>> = vec![None, None, None];
    let mut next_net_idx = 1usize;
    // model
    let mut total = 0i32;
    let mut last_read_total = 0i32;
    let mut last_read_current = 0i32;
    let mut classes = std::collections::BTreeSet::new();
    let mut seq = 0u32;

    macro_rules! settle {
        ($ms:expr) => {
            exec::sleep_ms($ms).await
        };
    }
    // every history starts with one remote endpoint so that the generated ops have something to act on
    let all_ops: Vec<C16Op> = [C16Op::Create { k: 0 }].into_iter().chain(c.ops.iter().cloned()).chain([C16Op::LocalCreate, C16Op::Write, C16Op::ReadStatus]).collect();
    'ops: for (opi, op) in all_ops.iter().enumerate() {
        o.ops_done = opi;
        match op {
            C16Op::Create { k } => {
                let k = *k as usize;
                if remotes[k].is_some() {
                    continue;
                }
                let p = f.create_participant(0, QosKind::Default, NO_LISTENER, NO_STATUS).await.unwrap();
                let t = p.create_topic::<KeyedData>("T", "KeyedData", QosKind::Default, NO_LISTENER, NO_STATUS).await.unwrap();
                let mut r = Remote {
                    participant: p.clone(),
                    net_idx: next_net_idx,
                    group_partition_other: false,
                    incompatible: false,
                    crashed: false,
                    writer: None,
                    reader: None,
                    _topic: t.clone(),
                    matched: true,
                    left_at: None,
                };
                next_net_idx += 1;
                if c.local_is_writer {
                    let s = p.create_subscriber(QosKind::Default, NO_LISTENER, NO_STATUS).await.unwrap();
                    let rd = s.create_datareader::<KeyedData>(&t, QosKind::Specific(c16_rqos(false)), NO_LISTENER, NO_STATUS).await.unwrap();
                    r.reader = Some((s, rd));
                } else {
                    let pb = p.create_publisher(QosKind::Default, NO_LISTENER, NO_STATUS).await.unwrap();
                    let w = pb.create_datawriter::<KeyedData>(&t, QosKind::Specific(c16_wqos(false)), NO_LISTENER, NO_STATUS).await.unwrap();
                    r.writer = Some((pb, w));
                }
                remotes[k] = Some(r);
                total += 1;
                classes.insert("create".to_string());
                settle!(1500);
            }
            C16Op::Delete { k } => {
                let k = *k as usize;
                let Some(r) = remotes[k].as_mut() else { continue };
                if r.crashed {
                    continue;
                }
                let r = remotes[k].take().unwrap();
                if let Some((s, rd)) = &r.reader {
                    if s.delete_datareader(rd).await.is_err() {
                        o.setup_error = Some("delete_datareader failed".into());
                        break 'ops;
                    }
                }
                if let Some((pb, w)) = &r.writer {
                    if pb.delete_datawriter(w).await.is_err() {
                        o.setup_error = Some("delete_datawriter failed".into());
                        break 'ops;
                    }
                }
                if r.matched {
                    classes.insert("delete_matched".to_string());
                }
                settle!(1500);
                // keep the participant alive (only the endpoint is deleted), remember for wire silence
                let left = Remote { matched: false, left_at: Some(exec::now_ns()), writer: None, reader: None, ..r };
                remotes[k] = None;
                // wire-silence check for a deleted reader
                if c.local_is_writer {
                    if let Some(v) = c16_silence_check(&lwriter, &left, &mut seq).await {
                        o.verdict = Some(v);
                        break 'ops;
                    }
                }
                let _ = left.participant;
            }
            C16Op::SetIncompatible { k, incompatible } => {
                let k = *k as usize;
                let Some(r) = remotes[k].as_mut() else { continue };
                if r.crashed {
                    continue;
                }
                // the op toggles: repeated ops on one endpoint walk it through
                // compatible -> incompatible -> compatible -> incompatible ... (the flag only seeds the first step)
                let incompatible = &(if r.incompatible == *incompatible { !*incompatible } else { *incompatible });
                let res = if let Some((_, rd)) = &r.reader {
                    rd.set_qos(QosKind::Specific(c16_rqos(*incompatible))).await
                } else if let Some((_, w)) = &r.writer {
                    w.set_qos(QosKind::Specific(c16_wqos(*incompatible))).await
                } else {
                    Ok(())
                };
                if let Err(e) = res {
                    o.setup_error = Some(format!("set_qos(deadline) failed: {e:?}"));
                    break 'ops;
                }
                r.incompatible = *incompatible;
                let now_matched = !r.incompatible && !r.group_partition_other;
                if now_matched && !r.matched {
                    total += 1;
                    classes.insert("rematch_after_qos_change".to_string());
                }
                if !now_matched && r.matched {
                    r.left_at = Some(exec::now_ns());
                    if classes.contains("rematch_after_qos_change") {
                        classes.insert("unmatch_by_qos_change_again_after_rematch".to_string());
                    }
                    classes.insert("unmatch_by_qos_change".to_string());
                }
                r.matched = now_matched;
                settle!(1500);
            }
            C16Op::SetPartition { k, other } => {
                let k = *k as usize;
                let Some(r) = remotes[k].as_mut() else { continue };
                if r.crashed {
                    continue;
                }
                let other = &(if r.group_partition_other == *other { !*other } else { *other });
                let part = PartitionQosPolicy { name: if *other { vec!["elsewhere".to_string()] } else { vec![] } };
                let res = if let Some((s, _)) = &r.reader {
                    s.set_qos(QosKind::Specific(SubscriberQos { partition: part, ..Default::default() })).await
                } else if let Some((pb, _)) = &r.writer {
                    pb.set_qos(QosKind::Specific(PublisherQos { partition: part, ..Default::default() })).await
                } else {
                    Ok(())
                };
                if let Err(e) = res {
                    o.setup_error = Some(format!("set_qos(partition) failed: {e:?}"));
                    break 'ops;
                }
                r.group_partition_other = *other;
                let now_matched = !r.incompatible && !r.group_partition_other;
                if now_matched && !r.matched {
                    total += 1;
                    classes.insert("rematch_after_partition_change".to_string());
                }
                if !now_matched && r.matched {
                    r.left_at = Some(exec::now_ns());
                    classes.insert("unmatch_by_partition_change".to_string());
                }
                r.matched = now_matched;
                settle!(1500);
            }
            C16Op::Crash { k } => {
                let k = *k as usize;
                let Some(r) = remotes[k].as_mut() else { continue };
                if r.crashed {
                    continue;
                }
                r.crashed = true;
                let idx = r.net_idx;
                with_world(|w| w.net.endpoints[idx].connected = false);
                if r.matched {
                    classes.insert("lease_expiry_with_matched_endpoint".to_string());
                }
                r.matched = false;
                // lease is 100 s; one worker period + margin
                settle!(102_000);
                r.left_at = Some(exec::now_ns());
            }
            C16Op::Write => {
                seq += 1;
                let sample = KeyedData { id: 1, seq, blob: vec![1, 2, 3] };
                if let Some(w) = &lwriter {
                    let _ = crate::util::timeout(2_000, w.write(sample, None)).await;
                } else if c.local_is_writer {
                    continue;
                } else {
                    for r in remotes.iter().flatten() {
                        if let (Some((_, w)), false) = (&r.writer, r.crashed) {
                            let _ = crate::util::timeout(2_000, w.write(KeyedData { id: 1, seq, blob: vec![1] }, None)).await;
                        }
                    }
                }
                settle!(300);
            }
            C16Op::LocalDelete => {
                if let Some(w) = lwriter.take() {
                    if lpub.delete_datawriter(&w).await.is_err() {
                        o.setup_error = Some("delete of the local writer failed".into());
                        break 'ops;
                    }
                    classes.insert("local_endpoint_deleted".to_string());
                } else if let Some(r) = lreader.take() {
                    if lsub.delete_datareader(&r).await.is_err() {
                        o.setup_error = Some("delete of the local reader failed".into());
                        break 'ops;
                    }
                    classes.insert("local_endpoint_deleted".to_string());
                }
                settle!(1500);
            }
            C16Op::LocalCreate => {
                if lwriter.is_some() || lreader.is_some() {
                    continue;
                }
                if c.local_is_writer {
                    lwriter = Some(lpub.create_datawriter::<KeyedData>(&ltopic, QosKind::Specific(c16_wqos(false)), NO_LISTENER, NO_STATUS).await.unwrap());
                } else {
                    lreader = Some(lsub.create_datareader::<KeyedData>(&ltopic, QosKind::Specific(c16_rqos(false)), NO_LISTENER, NO_STATUS).await.unwrap());
                }
                // a new entity: its counts start from the remote endpoints that are eligible now
                total = remotes.iter().flatten().filter(|r| r.matched).count() as i32;
                last_read_total = 0;
                last_read_current = 0;
                if remotes.iter().flatten().any(|r| r.crashed) {
                    classes.insert("local_endpoint_created_after_a_remote_participant_was_lost".to_string());
                }
                classes.insert("local_endpoint_recreated".to_string());
                settle!(1500);
            }
            C16Op::ReadStatus => {
                if lwriter.is_none() && lreader.is_none() {
                    continue;
                }
                let expected_current = remotes.iter().flatten().filter(|r| r.matched).count() as i32;
                let (cur, tot, cur_change, tot_change) = if let Some(w) = &lwriter {
                    match w.get_publication_matched_status().await {
                        Ok(s) => (s.current_count, s.total_count, s.current_count_change, s.total_count_change),
                        Err(e) => {
                            o.setup_error = Some(format!("get_publication_matched_status: {e:?}"));
                            break 'ops;
                        }
                    }
                } else {
                    match lreader.as_ref().unwrap().get_subscription_matched_status().await {
                        Ok(s) => (s.current_count, s.total_count, s.current_count_change, s.total_count_change),
                        Err(e) => {
                            o.setup_error = Some(format!("get_subscription_matched_status: {e:?}"));
                            break 'ops;
                        }
                    }
                };
                let side = if c.local_is_writer { "publication" } else { "subscription" };
                let history: Vec<String> = classes.iter().cloned().collect();
                let cause = history
                    .iter()
                    .rev()
                    .find(|c| c.starts_with("lease") || c.starts_with("unmatch") || c.starts_with("rematch") || c.starts_with("delete"))
                    .cloned()
                    .unwrap_or_else(|| "create".into());
                if cur != expected_current {
                    o.verdict = Some((
                        format!("C16:current_count:{side}:{}:after-{cause}", if cur > expected_current { "too-high" } else { "too-low" }),
                        format!("op #{opi}: {side}_matched.current_count is {cur} but {expected_current} remote endpoints are currently matched (history classes {history:?})"),
                    ));
                    break 'ops;
                }
                if tot != total {
                    o.verdict = Some((
                        format!("C16:total_count:{side}:{}:after-{cause}", if tot > total { "too-high" } else { "too-low" }),
                        format!("op #{opi}: {side}_matched.total_count is {tot} but {total} distinct became-matched transitions happened (history classes {history:?})"),
                    ));
                    break 'ops;
                }
                if cur_change != cur - last_read_current || tot_change != tot - last_read_total {
                    o.verdict = Some((
                        format!("C16:change-fields:{side}"),
                        format!("op #{opi}: change fields ({cur_change}, {tot_change}) differ from the difference since the last read ({}, {})", cur - last_read_current, tot - last_read_total),
                    ));
                    break 'ops;
                }
                last_read_current = cur;
                last_read_total = tot;
            }
        }
        // wire silence toward endpoints that left the matched set (local writer only)
        if c.local_is_writer && matches!(op, C16Op::Write) {
            for r in remotes.iter().flatten() {
                if let (Some(t), false) = (r.left_at, r.matched) {
                    let idx = r.net_idx;
                    let offending = with_world(|w| {
                        w.net.log.iter().any(|rec| {
                            rec.from == 0
                                && rec.to == idx
                                && rec.class == crate::net::Class::User
                                && rec.t_ns > t + 200_000_000
                                && vcore::wire::parse(&rec.data)
                                    .map(|m| m.subs.iter().any(|s| matches!(s.sub, vcore::wire::Sub::Data { .. } | vcore::wire::Sub::DataFrag { .. } | vcore::wire::Sub::Heartbeat { .. })))
                                    .unwrap_or(false)
                        })
                    });
                    if offending {
                        let why = if r.crashed { "lease-expiry" } else if r.incompatible { "qos-incompatible" } else { "partition-change" };
                        o.verdict = Some((
                            format!("C16:still-addressed:{why}"),
                            format!("op #{opi}: DATA/HEARTBEAT still sent to the participant of a reader that left the matched set ({why}) more than 200 ms earlier"),
                        ));
                        break 'ops;
                    }
                }
            }
        }
    }
    o.classes = classes.into_iter().collect();
    o
}

/// after a remote reader was deleted: a fresh write must not be addressed to its participant
async fn c16_silence_check(
    lwriter: &Option<DataWriterAsync<KeyedData>>,
    left: &Remote,
    seq: &mut u32,
) -> Option<(String, String)> {
    use crate::exec::with_world;
    let w = lwriter.as_ref()?;
    let t0 = exec::now_ns();
    *seq += 1;
    let _ = crate::util::timeout(2_000, w.write(KeyedData { id: 1, seq: *seq, blob: vec![9] }, None)).await;
    exec::sleep_ms(600).await;
    let idx = left.net_idx;
    let offending = with_world(|w| {
        w.net.log.iter().any(|rec| {
            rec.from == 0
                && rec.to == idx
                && rec.class == crate::net::Class::User
                && rec.t_ns >= t0
                && vcore::wire::parse(&rec.data)
                    .map(|m| m.subs.iter().any(|s| matches!(s.sub, vcore::wire::Sub::Data { .. } | vcore::wire::Sub::DataFrag { .. } | vcore::wire::Sub::Heartbeat { .. })))
                    .unwrap_or(false)
        })
    });
    if offending {
        Some((
            "C16:still-addressed:deleted-reader".into(),
            "DATA/HEARTBEAT sent to the participant of a reader 1.5 s after that reader was deleted".into(),
        ))
    } else {
        None
    }
}

pub fn c16_eval(case: &C16Case) -> CaseResult {
    let mut res = CaseResult::default();
    match exec::run(c16_scenario(case.clone())) {
        Ok(o) => {
            if let Some(e) = &o.setup_error {
                res.harness_error = Some(e.clone());
            } else {
                res.verdict = o.verdict.clone();
                res.classes = o.classes.clone();
                res.nontrivial = o.classes.iter().any(|c| c.starts_with("unmatch") || c.starts_with("rematch") || c.starts_with("lease") || c.starts_with("delete_matched"));
                res.info = json!({"ops_done": o.ops_done});
            }
        }
        Err(a) => apply_abort("C16", &mut res, a),
    }
    res.sim = sim_stats();
    res
}

// ------------------------------------------------------------------------------------------
// C17: participant discovery, domain isolation, lease expiry, ignore

#[derive(Clone, Debug, Serialize, Deserialize)]
pub struct C17P {
    pub domain: u8,
    pub tag: u8,
    /// clock of this participant against the others, seconds (shows in its INFO_TS)
    #[serde(default)]
    pub skew_s: i64,
}

#[derive(Clone, Debug, Serialize, Deserialize)]
pub struct C17Case {
    pub participants: Vec<C17P>,
    /// announcement interval class: 0 = 500 ms, 1 = 5 s
    pub interval: u8,
    /// deliver multicast announcements across domains (port collision / unicast peer list)
    pub cross_domain: bool,
    /// fault tape over metatraffic datagrams during the first phase
    pub tape: Vec<u16>,
    /// participant that crashes (index) and after how many ms
    pub crash: Option<(u8, u16)>,
    /// (who, whom): participant `who` ignores participant `whom`
    pub ignore: Option<(u8, u8)>,
}

pub fn c17_strategy() -> BoxedStrategy<C17Case> {
    (
        prop::collection::vec((0u8..2, 0u8..2, prop_oneof![4 => Just(0i64), 1 => Just(3_600i64), 1 => Just(-3_600i64), 1 => Just(7i64), 1 => Just(-7i64), 1 => Just(-200i64), 1 => Just(200i64)]).prop_map(|(domain, tag, skew_s)| C17P { domain, tag, skew_s }), 2..5),
        0u8..2,
        any::<bool>(),
        prop::collection::vec(prop_oneof![1 => Just(0u16), 2 => any::<u16>()], 0..60),
        prop::option::weighted(0.5, (0u8..4, 0u16..12_000)),
        prop::option::weighted(0.5, (0u8..4, 0u8..4)),
    )
        .prop_map(|(participants, interval, cross_domain, tape, crash, ignore)| C17Case { participants, interval, cross_domain, tape, crash, ignore })
        .boxed()
}

#[derive(Default, Clone, Debug, Serialize, Deserialize)]
struct C17Obs {
    setup_error: Option<String>,
    verdict: Option<(String, String)>,
    classes: Vec<String>,
}

const LEASE_MS: u64 = 100_000;

async fn c17_scenario(c: C17Case) -> C17Obs {
    use crate::exec::with_world;
    use dust_dds::dds_async::configuration::DustDdsConfigurationBuilder;
    let mut o = C17Obs::default();
    let f = factory();
    let interval_ms: u64 = if c.interval == 0 { 500 } else { 5_000 };
    with_world(|w| {
        w.net.cross_domain = c.cross_domain;
        w.net.clock_skew_s = c.participants.iter().map(|p| p.skew_s).collect();
        w.net.tape = c.tape.iter().copied().collect();
        w.net.attack_meta = true;
        // announcements may be lost or delayed, never coalesced
        w.net.menu = vec![
            crate::net::Fate::Deliver(0),
            crate::net::Fate::Deliver(0),
            crate::net::Fate::Deliver(30 * crate::net::MS),
            crate::net::Fate::Deliver(700 * crate::net::MS),
            crate::net::Fate::Dup(10 * crate::net::MS),
            crate::net::Fate::Drop,
            crate::net::Fate::Drop,
        ];
    });
    let mut ps = vec![];
    for p in &c.participants {
        {
            let mut cfg = f.get_mut_configuration().await;
            *cfg = DustDdsConfigurationBuilder::new()
                .domain_tag(if p.tag == 0 { String::new() } else { "a".to_string() })
                .participant_announcement_interval(core::time::Duration::from_millis(interval_ms))
                .build()
                .unwrap();
        }
        let dp = match f.create_participant(p.domain as i32, QosKind::Default, NO_LISTENER, NO_STATUS).await {
            Ok(d) => d,
            Err(e) => {
                o.setup_error = Some(format!("create_participant: {e:?}"));
                return o;
            }
        };
        ps.push(dp);
    }
    let n = ps.len();
    let handles: Vec<_> = ps.iter().map(|p| p.get_instance_handle()).collect();
    let mut classes = std::collections::BTreeSet::new();
    if !c.tape.is_empty() {
        classes.insert("announcement_faults".to_string());
    }
    if c.participants.iter().any(|p| p.skew_s != 0) {
        classes.insert("clock_skew".to_string());
    }
    // let the tape run out, then heal: 3 announcement periods must suffice
    let mut waited = 0u64;
    while with_world(|w| !w.net.tape.is_empty()) && waited < 20 * interval_ms {
        exec::sleep_ms(interval_ms / 2).await;
        waited += interval_ms / 2;
    }
    with_world(|w| {
        w.net.attack_meta = false;
        w.net.tape.clear();
    });
    exec::sleep_ms(3 * interval_ms + 1_500).await;
    let same = |a: usize, b: usize| c.participants[a].domain == c.participants[b].domain && c.participants[a].tag == c.participants[b].tag;
    let discovered = |v: &Vec<dust_dds::infrastructure::instance::InstanceHandle>, h| v.contains(h);
    for a in 0..n {
        let list = match ps[a].get_discovered_participants().await {
            Ok(l) => l,
            Err(e) => {
                o.setup_error = Some(format!("get_discovered_participants: {e:?}"));
                return o;
            }
        };
        for b in 0..n {
            if a == b {
                continue;
            }
            let d = discovered(&list, &handles[b]);
            if same(a, b) && !d {
                o.verdict = Some((
                    "C17:not-discovered:same-domain-and-tag".into(),
                    format!("participant {a} did not discover participant {b} (same domain id and tag) within 3 announcement periods ({} ms) after the network healed", 3 * interval_ms),
                ));
                return o;
            }
            if !same(a, b) && d {
                let why = if c.participants[a].domain != c.participants[b].domain { "different-domain-id" } else { "different-domain-tag" };
                classes.insert(format!("isolation_probe:{why}"));
                o.verdict = Some((
                    format!("C17:discovered-despite:{why}"),
                    format!("participant {a} (domain {}, tag {}) lists participant {b} (domain {}, tag {}) as discovered", c.participants[a].domain, c.participants[a].tag, c.participants[b].domain, c.participants[b].tag),
                ));
                return o;
            }
            if !same(a, b) {
                let why = if c.participants[a].domain != c.participants[b].domain { "different-domain-id" } else { "different-domain-tag" };
                classes.insert(format!("isolation_probe:{why}{}", if c.cross_domain { ":cross-delivered" } else { "" }));
            }
        }
    }
    // ignore
    if let Some((who, whom)) = c.ignore {
        let (who, whom) = (who as usize % n, whom as usize % n);
        if who != whom && same(who, whom) {
            classes.insert("ignore".to_string());
            if let Err(e) = ps[who].ignore_participant(handles[whom]).await {
                o.setup_error = Some(format!("ignore_participant: {e:?}"));
                return o;
            }
            exec::sleep_ms(3 * interval_ms + 500).await;
            let list = ps[who].get_discovered_participants().await.unwrap_or_default();
            if list.contains(&handles[whom]) {
                o.verdict = Some(("C17:ignored-participant-listed".into(), format!("participant {who} ignored participant {whom} but still (or again) lists it 3 announcement periods later")));
                return o;
            }
        }
    }
    // lease expiry
    if let Some((x, after_ms)) = c.crash {
        let x = x as usize % n;
        let observers: Vec<usize> = (0..n).filter(|y| *y != x && same(x, *y) && c.ignore.map(|(w, m)| !(w as usize % n == *y && m as usize % n == x)).unwrap_or(true)).collect();
        if !observers.is_empty() {
            classes.insert("lease_probe".to_string());
            exec::sleep_ms(after_ms as u64).await;
            with_world(|w| w.net.endpoints[x].connected = false);
            let crash_at = exec::now_ns();
            // last datagram from x that reached each observer
            let mut checks: Vec<(usize, u64)> = observers
                .iter()
                .map(|y| {
                    let t0 = with_world(|w| {
                        w.net
                            .log
                            .iter()
                            .filter(|r| r.from == x && r.to == *y && !r.dropped && r.t_ns + r.delay_ns <= crash_at)
                            .map(|r| r.t_ns + r.delay_ns)
                            .max()
                            .unwrap_or(crash_at)
                    });
                    (*y, t0)
                })
                .collect();
            checks.sort_by_key(|c| c.1);
            for (y, t0) in checks {
                // still listed shortly before the lease runs out
                let early = t0 + (LEASE_MS - 500) * 1_000_000;
                let now = exec::now_ns();
                if early > now {
                    exec::sleep_ns(early - now).await;
                    let list = ps[y].get_discovered_participants().await.unwrap_or_default();
                    if !list.contains(&handles[x]) {
                        o.verdict = Some((
                            "C17:removed-before-lease".into(),
                            format!("participant {y} removed silent participant {x} more than 500 ms before its 100 s lease ran out (last datagram received {} ms before the probe)", (exec::now_ns() - t0) / 1_000_000),
                        ));
                        return o;
                    }
                }
                // gone one worker period after the lease ran out
                let late = t0 + (LEASE_MS + 50 + 20) * 1_000_000;
                let now = exec::now_ns();
                if late > now {
                    exec::sleep_ns(late - now).await;
                }
                let list = ps[y].get_discovered_participants().await.unwrap_or_default();
                if list.contains(&handles[x]) {
                    o.verdict = Some((
                        "C17:still-listed-after-lease".into(),
                        format!("participant {y} still lists silent participant {x} {} ms after the last datagram from it (lease 100 s + one 50 ms worker period)", (exec::now_ns() - t0) / 1_000_000),
                    ));
                    return o;
                }
            }
        }
    }
    // an ignored participant deletes itself; a delayed copy of one of its old announcements arrives afterwards
    // (datagrams may be delayed and duplicated): it is still ignored
    if let Some((who, whom)) = c.ignore {
        let (who, whom) = (who as usize % n, whom as usize % n);
        let crashed = c.crash.map(|(x, _)| x as usize % n);
        if who != whom && same(who, whom) && crashed != Some(whom) && crashed != Some(who) {
            let old_announcement = with_world(|w| {
                w.net
                    .log
                    .iter()
                    .rev()
                    .find(|r| {
                        r.from == whom
                            && r.class == crate::net::Class::MetaMulticast
                            && vcore::wire::parse(&r.data)
                                .map(|m| m.subs.iter().any(|s| matches!(&s.sub, vcore::wire::Sub::Data { writer, .. } if *writer == [0, 1, 0, 0xc2])))
                                .unwrap_or(false)
                    })
                    .map(|r| r.data.to_vec())
            });
            if let Some(bytes) = old_announcement {
                if f.delete_participant(&ps[whom]).await.is_ok() {
                    classes.insert("ignored_participant_deleted_then_old_announcement_replayed".to_string());
                    exec::sleep_ms(interval_ms + 500).await;
                    crate::net::inject(who, bytes);
                    exec::sleep_ms(500).await;
                    let list = ps[who].get_discovered_participants().await.unwrap_or_default();
                    if list.contains(&handles[whom]) {
                        o.verdict = Some((
                            "C17:ignored-participant-listed:after-its-deletion-and-a-delayed-announcement".into(),
                            format!("participant {who} ignored participant {whom}; {whom} was deleted and a delayed copy of one of its announcements arrived: {who} lists it again"),
                        ));
                        return o;
                    }
                }
            }
        }
    }
    o.classes = classes.into_iter().collect();
    o
}

pub fn c17_eval(case: &C17Case) -> CaseResult {
    let mut res = CaseResult::default();
    match exec::run(c17_scenario(case.clone())) {
        Ok(o) => {
            if let Some(e) = &o.setup_error {
                res.harness_error = Some(e.clone());
            } else {
                res.verdict = o.verdict.clone();
                res.classes = o.classes.clone();
                res.nontrivial = o.classes.iter().any(|c| c.starts_with("lease") || c.starts_with("announcement") || c.starts_with("isolation") || c == "ignore");
            }
        }
        Err(a) => apply_abort("C17", &mut res, a),
    }
    res.sim = sim_stats();
    res
}
