//! C15 matching ⇔ compatibility (R-RXO, DESIGN.md Appendix B), C16 matched-status counts, C17 participant
//! discovery / domain isolation / lease expiry.

use std::sync::{Arc, Mutex};

use dust_dds::{
    dds_async::{
        data_reader::DataReaderAsync, data_reader_listener::DataReaderListener,
        data_writer::DataWriterAsync, data_writer_listener::DataWriterListener,
    },
    infrastructure::{
        listener::NO_LISTENER,
        qos::{DataReaderQos, DataWriterQos, PublisherQos, QosKind, SubscriberQos},
        qos_policy::{
            DATA_REPRESENTATION_QOS_POLICY_ID, DEADLINE_QOS_POLICY_ID, DESTINATIONORDER_QOS_POLICY_ID,
            DURABILITY_QOS_POLICY_ID, DataRepresentationQosPolicy, DeadlineQosPolicy,
            DestinationOrderQosPolicy, DestinationOrderQosPolicyKind, DurabilityQosPolicy,
            DurabilityQosPolicyKind, LATENCYBUDGET_QOS_POLICY_ID, LIVELINESS_QOS_POLICY_ID,
            LatencyBudgetQosPolicy, LivelinessQosPolicy, LivelinessQosPolicyKind,
            OWNERSHIP_QOS_POLICY_ID, OwnershipQosPolicy, OwnershipQosPolicyKind,
            PRESENTATION_QOS_POLICY_ID, PartitionQosPolicy, PresentationQosPolicy,
            PresentationQosPolicyAccessScopeKind, RELIABILITY_QOS_POLICY_ID, ReliabilityQosPolicy,
            ReliabilityQosPolicyKind, XCDR2_DATA_REPRESENTATION, XCDR_DATA_REPRESENTATION,
        },
        status::{NO_STATUS, OfferedIncompatibleQosStatus, RequestedIncompatibleQosStatus, StatusKind},
        time::{Duration, DurationKind},
    },
};
use proptest::prelude::*;
use serde::{Deserialize, Serialize};
use serde_json::json;
use vcore::{Ctx, Meta, fork::Limits};

use crate::{
    case::{CaseResult, apply_abort, sim_stats},
    exec,
    props::{Campaign, campaign},
    types::{KeyedData, Unkeyed},
    util::{dk_ms, factory},
};

// ------------------------------------------------------------------------------------------
// generated QoS (plain data so that cases serialise and shrink)

#[derive(Clone, Debug, Serialize, Deserialize, PartialEq)]
pub struct Rxo {
    /// 0 volatile, 1 transient local, 2 transient, 3 persistent
    pub durability: u8,
    /// duration classes: see `dur_of`
    pub deadline: u8,
    pub latency: u8,
    /// 0 automatic, 1 manual by participant, 2 manual by topic
    pub liveliness_kind: u8,
    pub liveliness_lease: u8,
    pub reliable: bool,
    pub by_source: bool,
    pub exclusive: bool,
    /// 0 instance, 1 topic
    pub scope: u8,
    pub coherent: bool,
    pub ordered: bool,
    /// data representation ids in order (0 = XCDR1, 2 = XCDR2)
    pub repr: Vec<u8>,
    pub partition: Vec<String>,
}

/// duration classes 0..5 → (sec, nanosec) or infinite; ordered increasingly
fn dur_of(c: u8) -> DurationKind {
    match c {
        0 => DurationKind::Finite(Duration::new(10, 0)),
        1 => DurationKind::Finite(Duration::new(10, 1)),
        2 => DurationKind::Finite(Duration::new(20, 0)),
        3 => DurationKind::Finite(Duration::new(20, 999_999_999)),
        4 => DurationKind::Finite(Duration::new(21, 5)),
        _ => DurationKind::Infinite,
    }
}

fn rxo_strategy(writer_side: bool, patterns: bool) -> impl Strategy<Value = Rxo> {
    let names: Vec<&'static str> = if patterns { vec!["", "a", "b", "ab", "a*", "?", "[ab]", "*"] } else { vec!["", "a", "b", "ab"] };
    let partition = prop::collection::vec(prop::sample::select(names).prop_map(|s| s.to_string()), 0..3);
    let repr = if writer_side {
        prop_oneof![Just(vec![]), Just(vec![0u8]), Just(vec![2u8])].boxed()
    } else {
        prop_oneof![Just(vec![]), Just(vec![0u8]), Just(vec![2u8]), Just(vec![0u8, 2]), Just(vec![2u8, 0])].boxed()
    };
    (
        (0u8..4, 0u8..6, 0u8..6, 0u8..3, 0u8..6),
        (any::<bool>(), any::<bool>(), any::<bool>(), 0u8..2, any::<bool>(), any::<bool>()),
        repr,
        partition,
    )
        .prop_map(|((durability, deadline, latency, liveliness_kind, liveliness_lease), (reliable, by_source, exclusive, scope, coherent, ordered), repr, partition)| Rxo {
            durability,
            deadline,
            latency,
            liveliness_kind,
            liveliness_lease,
            reliable,
            by_source,
            exclusive,
            scope,
            coherent,
            ordered,
            repr,
            partition,
        })
}

fn default_rxo(writer_side: bool) -> Rxo {
    Rxo {
        durability: 0,
        deadline: 5,
        latency: 0,
        liveliness_kind: 0,
        liveliness_lease: 5,
        reliable: writer_side,
        by_source: false,
        exclusive: false,
        scope: 0,
        coherent: false,
        ordered: false,
        repr: vec![],
        partition: vec![],
    }
}

fn durability_of(k: u8) -> DurabilityQosPolicy {
    DurabilityQosPolicy {
        kind: match k {
            0 => DurabilityQosPolicyKind::Volatile,
            1 => DurabilityQosPolicyKind::TransientLocal,
            2 => DurabilityQosPolicyKind::Transient,
            _ => DurabilityQosPolicyKind::Persistent,
        },
    }
}
fn liveliness_of(k: u8, lease: u8) -> LivelinessQosPolicy {
    LivelinessQosPolicy {
        kind: match k {
            0 => LivelinessQosPolicyKind::Automatic,
            1 => LivelinessQosPolicyKind::ManualByParticipant,
            _ => LivelinessQosPolicyKind::ManualByTopic,
        },
        lease_duration: dur_of(lease),
    }
}
fn presentation_of(r: &Rxo) -> PresentationQosPolicy {
    PresentationQosPolicy {
        access_scope: if r.scope == 0 { PresentationQosPolicyAccessScopeKind::Instance } else { PresentationQosPolicyAccessScopeKind::Topic },
        coherent_access: r.coherent,
        ordered_access: r.ordered,
    }
}
fn repr_of(r: &Rxo) -> DataRepresentationQosPolicy {
    DataRepresentationQosPolicy {
        value: r.repr.iter().map(|x| if *x == 0 { XCDR_DATA_REPRESENTATION } else { XCDR2_DATA_REPRESENTATION }).collect(),
    }
}

pub fn writer_qos(r: &Rxo) -> (PublisherQos, DataWriterQos) {
    (
        PublisherQos {
            presentation: presentation_of(r),
            partition: PartitionQosPolicy { name: r.partition.clone() },
            ..Default::default()
        },
        DataWriterQos {
            durability: durability_of(r.durability),
            deadline: DeadlineQosPolicy { period: dur_of(r.deadline) },
            latency_budget: LatencyBudgetQosPolicy { duration: dur_of(r.latency) },
            liveliness: liveliness_of(r.liveliness_kind, r.liveliness_lease),
            reliability: ReliabilityQosPolicy {
                kind: if r.reliable { ReliabilityQosPolicyKind::Reliable } else { ReliabilityQosPolicyKind::BestEffort },
                max_blocking_time: dk_ms(100),
            },
            destination_order: DestinationOrderQosPolicy {
                kind: if r.by_source { DestinationOrderQosPolicyKind::BySourceTimestamp } else { DestinationOrderQosPolicyKind::ByReceptionTimestamp },
            },
            ownership: OwnershipQosPolicy { kind: if r.exclusive { OwnershipQosPolicyKind::Exclusive } else { OwnershipQosPolicyKind::Shared } },
            representation: repr_of(r),
            ..Default::default()
        },
    )
}

pub fn reader_qos(r: &Rxo) -> (SubscriberQos, DataReaderQos) {
    (
        SubscriberQos {
            presentation: presentation_of(r),
            partition: PartitionQosPolicy { name: r.partition.clone() },
            ..Default::default()
        },
        DataReaderQos {
            durability: durability_of(r.durability),
            deadline: DeadlineQosPolicy { period: dur_of(r.deadline) },
            latency_budget: LatencyBudgetQosPolicy { duration: dur_of(r.latency) },
            liveliness: liveliness_of(r.liveliness_kind, r.liveliness_lease),
            reliability: ReliabilityQosPolicy {
                kind: if r.reliable { ReliabilityQosPolicyKind::Reliable } else { ReliabilityQosPolicyKind::BestEffort },
                max_blocking_time: dk_ms(100),
            },
            destination_order: DestinationOrderQosPolicy {
                kind: if r.by_source { DestinationOrderQosPolicyKind::BySourceTimestamp } else { DestinationOrderQosPolicyKind::ByReceptionTimestamp },
            },
            ownership: OwnershipQosPolicy { kind: if r.exclusive { OwnershipQosPolicyKind::Exclusive } else { OwnershipQosPolicyKind::Shared } },
            representation: repr_of(r),
            ..Default::default()
        },
    )
}

// ------------------------------------------------------------------------------------------
// R-RXO: DDS 1.4 §2.2.3 request/offered table (+ XTypes 1.3 §7.6.3.1 data representation)

/// policy ids for which offered (w) is incompatible with requested (r)
pub fn rxo_incompatible(w: &Rxo, r: &Rxo) -> Vec<i32> {
    let mut v = vec![];
    if w.durability < r.durability {
        v.push(DURABILITY_QOS_POLICY_ID);
    }
    // offered scope >= requested; requested coherent/ordered implies offered
    if w.scope < r.scope || (r.coherent && !w.coherent) || (r.ordered && !w.ordered) {
        v.push(PRESENTATION_QOS_POLICY_ID);
    }
    // duration classes are ordered increasingly, 5 = infinite
    if w.deadline > r.deadline {
        v.push(DEADLINE_QOS_POLICY_ID);
    }
    if w.latency > r.latency {
        v.push(LATENCYBUDGET_QOS_POLICY_ID);
    }
    if w.liveliness_kind < r.liveliness_kind || w.liveliness_lease > r.liveliness_lease {
        v.push(LIVELINESS_QOS_POLICY_ID);
    }
    if !w.reliable && r.reliable {
        v.push(RELIABILITY_QOS_POLICY_ID);
    }
    if !w.by_source && r.by_source {
        v.push(DESTINATIONORDER_QOS_POLICY_ID);
    }
    if w.exclusive != r.exclusive {
        v.push(OWNERSHIP_QOS_POLICY_ID);
    }
    let offered = w.repr.first().copied().unwrap_or(0);
    let requested: Vec<u8> = if r.repr.is_empty() { vec![0] } else { r.repr.clone() };
    if !requested.contains(&offered) {
        v.push(DATA_REPRESENTATION_QOS_POLICY_ID);
    }
    v
}

fn is_pattern(s: &str) -> bool {
    s.contains('*') || s.contains('?') || s.contains('[')
}

/// POSIX fnmatch for the pattern alphabet generated here: `*`, `?`, `[...]`, literals
pub fn fnmatch(p: &[u8], s: &[u8]) -> bool {
    if p.is_empty() {
        return s.is_empty();
    }
    match p[0] {
        b'*' => (0..=s.len()).any(|k| fnmatch(&p[1..], &s[k..])),
        b'?' => !s.is_empty() && fnmatch(&p[1..], &s[1..]),
        b'[' => {
            let Some(end) = p.iter().position(|c| *c == b']') else {
                return !s.is_empty() && s[0] == b'[' && fnmatch(&p[1..], &s[1..]);
            };
            !s.is_empty() && p[1..end].contains(&s[0]) && fnmatch(&p[end + 1..], &s[1..])
        }
        c => !s.is_empty() && s[0] == c && fnmatch(&p[1..], &s[1..]),
    }
}

/// DDS partition matching: empty list ≡ [""]; Some(true/false) or None when a pattern meets a pattern
pub fn partitions_match(a: &[String], b: &[String]) -> Option<bool> {
    let aa: Vec<String> = if a.is_empty() { vec![String::new()] } else { a.to_vec() };
    let bb: Vec<String> = if b.is_empty() { vec![String::new()] } else { b.to_vec() };
    let mut undecided = false;
    for x in &aa {
        for y in &bb {
            match (is_pattern(x), is_pattern(y)) {
                (false, false) => {
                    if x == y {
                        return Some(true);
                    }
                }
                (true, false) => {
                    if fnmatch(x.as_bytes(), y.as_bytes()) {
                        return Some(true);
                    }
                }
                (false, true) => {
                    if fnmatch(y.as_bytes(), x.as_bytes()) {
                        return Some(true);
                    }
                }
                (true, true) => undecided = true,
            }
        }
    }
    if undecided { None } else { Some(false) }
}

// ------------------------------------------------------------------------------------------
// recording listeners

#[derive(Clone, Default)]
pub struct WRec {
    pub incompatible: Arc<Mutex<Vec<OfferedIncompatibleQosStatus>>>,
}
impl<T: 'static> DataWriterListener<T> for WRec {
    fn on_offered_incompatible_qos(
        &mut self,
        _w: DataWriterAsync<T>,
        status: OfferedIncompatibleQosStatus,
    ) -> impl std::future::Future<Output = ()> + Send {
        self.incompatible.lock().unwrap().push(status);
        core::future::ready(())
    }
}

#[derive(Clone, Default)]
pub struct RRec {
    pub incompatible: Arc<Mutex<Vec<RequestedIncompatibleQosStatus>>>,
}
impl<T: 'static> DataReaderListener<T> for RRec {
    fn on_requested_incompatible_qos(
        &mut self,
        _r: DataReaderAsync<T>,
        status: RequestedIncompatibleQosStatus,
    ) -> impl std::future::Future<Output = ()> + Send {
        self.incompatible.lock().unwrap().push(status);
        core::future::ready(())
    }
}

// ------------------------------------------------------------------------------------------
// C15

#[derive(Clone, Debug, Serialize, Deserialize)]
pub struct C15Case {
    pub w: Rxo,
    pub r: Rxo,
    pub same_topic: bool,
    pub same_type: bool,
    /// which side is created first
    pub reader_first: bool,
}

pub fn c15_strategy() -> BoxedStrategy<C15Case> {
    // one policy at a time (others default) half of the time, everything random otherwise
    let full = (rxo_strategy(true, false), rxo_strategy(false, true)).boxed();
    let full2 = (rxo_strategy(true, true), rxo_strategy(false, false)).boxed();
    let single = (rxo_strategy(true, true), rxo_strategy(false, false), 0u8..10).prop_map(|(w, r, which)| {
        let mut dw = default_rxo(true);
        let mut dr = default_rxo(false);
        match which {
            0 => {
                dw.durability = w.durability;
                dr.durability = r.durability;
            }
            1 => {
                dw.deadline = w.deadline;
                dr.deadline = r.deadline;
            }
            2 => {
                dw.latency = w.latency;
                dr.latency = r.latency;
            }
            3 => {
                dw.liveliness_kind = w.liveliness_kind;
                dw.liveliness_lease = w.liveliness_lease;
                dr.liveliness_kind = r.liveliness_kind;
                dr.liveliness_lease = r.liveliness_lease;
            }
            4 => {
                dw.reliable = w.reliable;
                dr.reliable = r.reliable;
            }
            5 => {
                dw.by_source = w.by_source;
                dr.by_source = r.by_source;
            }
            6 => {
                dw.exclusive = w.exclusive;
                dr.exclusive = r.exclusive;
            }
            7 => {
                dw.scope = w.scope;
                dw.coherent = w.coherent;
                dw.ordered = w.ordered;
                dr.scope = r.scope;
                dr.coherent = r.coherent;
                dr.ordered = r.ordered;
            }
            8 => {
                dw.repr = w.repr;
                dr.repr = r.repr;
            }
            _ => {
                dw.partition = w.partition;
                dr.partition = r.partition;
            }
        }
        (dw, dr)
    });
    (prop_oneof![2 => single.boxed(), 1 => full, 1 => full2], prop::bool::weighted(0.9), prop::bool::weighted(0.9), any::<bool>())
        .prop_map(|((w, r), same_topic, same_type, reader_first)| C15Case { w, r, same_topic, same_type, reader_first })
        .boxed()
}

#[derive(Default, Clone, Debug, Serialize, Deserialize)]
struct C15Obs {
    setup_error: Option<String>,
    w_matched: i32,
    r_matched: i32,
    w_total: i32,
    r_total: i32,
    w_incompat: Vec<(i32, i32, Vec<(i32, i32)>)>,
    r_incompat: Vec<(i32, i32, Vec<(i32, i32)>)>,
}

async fn c15_scenario(c: C15Case) -> C15Obs {
    let mut o = C15Obs::default();
    let f = factory();
    let pw = f.create_participant(0, QosKind::Default, NO_LISTENER, NO_STATUS).await.unwrap();
    let pr = f.create_participant(0, QosKind::Default, NO_LISTENER, NO_STATUS).await.unwrap();
    let (pq, wq) = writer_qos(&c.w);
    let (sq, rq) = reader_qos(&c.r);
    let wrec = WRec::default();
    let rrec = RRec::default();
    let rtopic = if c.same_topic { "T" } else { "U" };
    let mut writer = None;
    let mut reader_k = None;
    let mut reader_u = None;
    let mut keep: Vec<Box<dyn std::any::Any>> = vec![];
    for step in 0..2 {
        let do_reader = (step == 0) == c.reader_first;
        if do_reader {
            let sub = match pr.create_subscriber(QosKind::Specific(sq.clone()), NO_LISTENER, NO_STATUS).await {
                Ok(s) => s,
                Err(e) => {
                    o.setup_error = Some(format!("create_subscriber: {e:?}"));
                    return o;
                }
            };
            if c.same_type {
                let t = pr.create_topic::<KeyedData>(rtopic, "KeyedData", QosKind::Default, NO_LISTENER, NO_STATUS).await.unwrap();
                match sub
                    .create_datareader::<KeyedData>(&t, QosKind::Specific(rq.clone()), Some(rrec.clone()), &[StatusKind::RequestedIncompatibleQos])
                    .await
                {
                    Ok(r) => reader_k = Some(r),
                    Err(e) => {
                        o.setup_error = Some(format!("create_datareader: {e:?}"));
                        return o;
                    }
                }
                keep.push(Box::new(t));
            } else {
                let t = pr.create_topic::<Unkeyed>(rtopic, "Unkeyed", QosKind::Default, NO_LISTENER, NO_STATUS).await.unwrap();
                match sub
                    .create_datareader::<Unkeyed>(&t, QosKind::Specific(rq.clone()), Some(rrec.clone()), &[StatusKind::RequestedIncompatibleQos])
                    .await
                {
                    Ok(r) => reader_u = Some(r),
                    Err(e) => {
                        o.setup_error = Some(format!("create_datareader: {e:?}"));
                        return o;
                    }
                }
                keep.push(Box::new(t));
            }
            keep.push(Box::new(sub));
        } else {
            let publ = match pw.create_publisher(QosKind::Specific(pq.clone()), NO_LISTENER, NO_STATUS).await {
                Ok(p) => p,
                Err(e) => {
                    o.setup_error = Some(format!("create_publisher: {e:?}"));
                    return o;
                }
            };
            let t = pw.create_topic::<KeyedData>("T", "KeyedData", QosKind::Default, NO_LISTENER, NO_STATUS).await.unwrap();
            match publ
                .create_datawriter::<KeyedData>(&t, QosKind::Specific(wq.clone()), Some(wrec.clone()), &[StatusKind::OfferedIncompatibleQos])
                .await
            {
                Ok(w) => writer = Some(w),
                Err(e) => {
                    o.setup_error = Some(format!("create_datawriter: {e:?}"));
                    return o;
                }
            }
            keep.push(Box::new(t));
            keep.push(Box::new(publ));
        }
        exec::sleep_ms(if step == 0 { 300 } else { 1500 }).await;
    }
    let writer = writer.unwrap();
    if let Ok(s) = writer.get_publication_matched_status().await {
        o.w_matched = s.current_count;
        o.w_total = s.total_count;
    }
    let rs = match (&reader_k, &reader_u) {
        (Some(r), _) => r.get_subscription_matched_status().await,
        (_, Some(r)) => r.get_subscription_matched_status().await,
        _ => unreachable!(),
    };
    if let Ok(s) = rs {
        o.r_matched = s.current_count;
        o.r_total = s.total_count;
    }
    o.w_incompat = wrec
        .incompatible
        .lock()
        .unwrap()
        .iter()
        .map(|s| (s.total_count, s.last_policy_id, s.policies.iter().map(|p| (p.policy_id, p.count)).collect()))
        .collect();
    o.r_incompat = rrec
        .incompatible
        .lock()
        .unwrap()
        .iter()
        .map(|s| (s.total_count, s.last_policy_id, s.policies.iter().map(|p| (p.policy_id, p.count)).collect()))
        .collect();
    drop(keep);
    o
}

fn policy_name(id: i32) -> &'static str {
    match id {
        x if x == DURABILITY_QOS_POLICY_ID => "durability",
        x if x == PRESENTATION_QOS_POLICY_ID => "presentation",
        x if x == DEADLINE_QOS_POLICY_ID => "deadline",
        x if x == LATENCYBUDGET_QOS_POLICY_ID => "latency_budget",
        x if x == LIVELINESS_QOS_POLICY_ID => "liveliness",
        x if x == RELIABILITY_QOS_POLICY_ID => "reliability",
        x if x == DESTINATIONORDER_QOS_POLICY_ID => "destination_order",
        x if x == OWNERSHIP_QOS_POLICY_ID => "ownership",
        x if x == DATA_REPRESENTATION_QOS_POLICY_ID => "data_representation",
        _ => "other",
    }
}

/// finer shape of an RxO disagreement, so that distinct root causes get distinct signatures
fn rxo_shape(w: &Rxo, r: &Rxo, id: i32) -> String {
    let n = policy_name(id);
    if id == LIVELINESS_QOS_POLICY_ID {
        let kind_bad = w.liveliness_kind < r.liveliness_kind;
        let lease_bad = w.liveliness_lease > r.liveliness_lease;
        return format!("{n}:kind-{}-lease-{}", if kind_bad { "incompatible" } else { "ok" }, if lease_bad { "incompatible" } else { "ok" });
    }
    if id == PRESENTATION_QOS_POLICY_ID {
        return format!(
            "{n}:scope-{}-coherent-{}{}-ordered-{}{}",
            if w.scope < r.scope { "incompatible" } else { "ok" },
            w.coherent as u8,
            r.coherent as u8,
            w.ordered as u8,
            r.ordered as u8
        );
    }
    n.to_string()
}

pub fn c15_eval(case: &C15Case) -> CaseResult {
    let mut res = CaseResult::default();
    match exec::run(c15_scenario(case.clone())) {
        Ok(o) => {
            if let Some(e) = &o.setup_error {
                res.harness_error = Some(e.clone());
            } else {
                c15_oracle(case, &o, &mut res);
            }
        }
        Err(a) => apply_abort("C15", &mut res, a),
    }
    res.sim = sim_stats();
    res
}

fn c15_oracle(c: &C15Case, o: &C15Obs, res: &mut CaseResult) {
    let flagged = rxo_incompatible(&c.w, &c.r);
    let part = partitions_match(&c.w.partition, &c.r.partition);
    res.nontrivial = c.w != default_rxo(true) || c.r != default_rxo(false);
    res.info = json!({"flagged": flagged.iter().map(|i| policy_name(*i)).collect::<Vec<_>>(), "partition_match": part, "observed": o});
    for f in &flagged {
        res.class(format!("incompatible:{}", policy_name(*f)));
    }
    if flagged.is_empty() {
        res.class("rxo_compatible");
    }
    match part {
        Some(true) => res.class("partition_match"),
        Some(false) => res.class("partition_mismatch"),
        None => res.class("partition_pattern_vs_pattern"),
    }
    // both sides must reach the same verdict
    if (o.w_matched > 0) != (o.r_matched > 0) {
        res.fail(
            "C15:verdicts-differ",
            format!("writer side matched={} but reader side matched={}", o.w_matched, o.r_matched),
        );
        return;
    }
    let matched = o.w_matched > 0;
    if !c.same_topic || !c.same_type {
        res.class(if !c.same_topic { "different_topic" } else { "different_type" });
        if matched {
            res.fail(
                format!("C15:matched-despite-{}", if !c.same_topic { "different-topic" } else { "different-type" }),
                "endpoints matched although topic name or type differ",
            );
        }
        return;
    }
    let Some(part_ok) = part else {
        return; // pattern vs pattern: not judged
    };
    if !part_ok {
        if matched {
            res.fail(
                "C15:matched-despite-partition-mismatch",
                format!("matched although partitions {:?} and {:?} do not match", c.w.partition, c.r.partition),
            );
        }
        return;
    }
    if flagged.is_empty() {
        if !matched {
            let empty_vs_default = (c.w.partition.is_empty() && c.r.partition == vec![String::new()])
                || (c.r.partition.is_empty() && c.w.partition == vec![String::new()]);
            let shape = if empty_vs_default {
                "partition-empty-list-vs-empty-name".to_string()
            } else if !c.w.partition.is_empty() || !c.r.partition.is_empty() {
                "partition".to_string()
            } else if let Some((_, _, pol)) = o.w_incompat.last().or(o.r_incompat.last()) {
                format!("reported-{}", pol.iter().filter(|p| p.1 > 0).map(|p| rxo_shape(&c.w, &c.r, p.0)).collect::<Vec<_>>().join("+"))
            } else {
                "no-report".to_string()
            };
            res.fail(
                format!("C15:compatible-not-matched:{shape}"),
                format!("all request/offered policies are compatible and partitions {:?}/{:?} match per DDS rules, but the endpoints did not match (writer incompatible reports: {:?}, reader: {:?})", c.w.partition, c.r.partition, o.w_incompat, o.r_incompat),
            );
            return;
        }
        if o.w_matched != 1 || o.r_matched != 1 {
            res.fail("C15:match-count", format!("current_count should be 1 on both sides, got {} / {}", o.w_matched, o.r_matched));
        }
        if !o.w_incompat.is_empty() || !o.r_incompat.is_empty() {
            res.fail("C15:incompatible-reported-for-compatible-pair", "incompatible QoS callback for a compatible pair");
        }
        return;
    }
    // incompatible per the table
    if matched {
        let shape = flagged.iter().map(|f| rxo_shape(&c.w, &c.r, *f)).collect::<Vec<_>>().join("+");
        res.fail(
            format!("C15:incompatible-matched:{shape}"),
            format!("request/offered incompatible on {:?} per the DDS table, yet the endpoints matched", flagged.iter().map(|i| policy_name(*i)).collect::<Vec<_>>()),
        );
        return;
    }
    for (side, rep) in [("writer", &o.w_incompat), ("reader", &o.r_incompat)] {
        let Some((total, last, pol)) = rep.last() else {
            res.fail(format!("C15:incompatible-not-reported:{side}"), format!("{side} did not report offered/requested incompatible QoS for an incompatible pair"));
            return;
        };
        // how often the callback fires for one unchanged status is C33's business; the count must be 1
        if *total != 1 {
            res.fail(format!("C15:incompatible-count:{side}"), format!("{side}: one incompatible endpoint was discovered but total_count is {} ({} callbacks)", total, rep.len()));
            return;
        }
        if rep.len() > 1 {
            res.class("incompatible_callback_repeated");
        }
        let named: Vec<i32> = pol.iter().filter(|p| p.1 > 0).map(|p| p.0).collect();
        if named.is_empty() || named.iter().any(|p| !flagged.contains(p)) || !flagged.contains(last) {
            let wrong: Vec<&str> = named.iter().filter(|p| !flagged.contains(p)).map(|p| policy_name(*p)).collect();
            res.fail(
                format!("C15:wrong-policies-named:{side}:{}", wrong.join("+")),
                format!("{side} names policies {:?} (last {}), offending per the table: {:?}", named.iter().map(|p| policy_name(*p)).collect::<Vec<_>>(), policy_name(*last), flagged.iter().map(|p| policy_name(*p)).collect::<Vec<_>>()),
            );
            return;
        }
    }
}

pub fn main(ctx: &Ctx) {
    match ctx.id.as_str() {
        "C15" => campaign(
            ctx,
            Campaign {
                total_cases: ctx.pick(1_500, 60_000),
                max_shrink_iters: 300,
                limits: Limits { cpu_s: 20, wall_s: 120, as_bytes: 4 << 30 },
                meta: Meta {
                    rule: "one writer side (publisher+writer QoS) and one reader side (subscriber+reader QoS) in different participants with independently generated request/offered policies (durability, deadline, latency budget, liveliness kind x lease, reliability, destination order, ownership, presentation scope x coherent x ordered, data representation lists, partitions incl. fnmatch patterns on one side), one policy at a time (others default) in half of the cases, equal/different topic and type, either creation order; oracle = DDS 1.4 request/offered table + partition rules (R-RXO): matched on both sides iff compatible, otherwise both report incompatible QoS naming only offending policies; non-trivial = at least one policy differs from the default; distinct = hash of the case",
                    assumptions: &[
                        "deterministic simulation, loss-free network, 1.5 s virtual quiescence after the second endpoint is created",
                        "incompatible-QoS statuses are observed through entity listeners (the status getters are not implemented in the async API)",
                        "partition pattern-vs-pattern pairs are generated but not judged; the reported policy set must be a non-empty subset of the offending policies",
                    ],
                    nontrivial_floor: 200,
                },
            },
            c15_strategy(),
            c15_eval,
        ),
        _ => unreachable!(),
    }
}
