//! C06: no datagram can crash, hang or exhaust a running participant.
//! A victim participant with a reliable writer and reader matched to a well-behaved peer receives
//! 1–20 hostile datagrams (random bytes, mutated captured traffic, structured RTPS messages with
//! adversarial field values, optionally spoofing the peer's GUID prefix and the matched endpoints'
//! entity ids). Afterwards the victim must still answer API calls and communicate with a third,
//! never-spoofed participant.

use std::collections::BTreeSet;

use dust_dds::infrastructure::{
    listener::NO_LISTENER,
    qos::{DataReaderQos, DataWriterQos, QosKind},
    qos_policy::{
        DurabilityQosPolicy, DurabilityQosPolicyKind, HistoryQosPolicy, HistoryQosPolicyKind,
        ReliabilityQosPolicy, ReliabilityQosPolicyKind,
    },
    sample_info::{ANY_INSTANCE_STATE, ANY_SAMPLE_STATE, ANY_VIEW_STATE},
    status::NO_STATUS,
};
use proptest::prelude::*;
use serde::{Deserialize, Serialize};
use serde_json::json;
use vcore::{Ctx, Meta, fork::Limits, pt::idx, wire};

use crate::{
    case::{CaseResult, apply_abort, sim_stats},
    exec::{self, with_world},
    net,
    props::{Campaign, campaign_fixed},
    types::{KeyedData, blob_for},
    util::{Timed, dk_ms, factory, timeout, wait_until},
};

/// adversarial integer classes; resolved against context values (expected sequence numbers etc.)
#[derive(Clone, Copy, Debug, Serialize, Deserialize)]
pub struct V(pub u16);

fn v() -> impl Strategy<Value = V> {
    any::<u16>().prop_map(V)
}

const I64S: [i64; 16] = [0, 1, 2, 3, 4, 5, 8, -1, i64::MAX, i64::MIN, 1 << 32, (1 << 32) - 1, 1 << 31, 1 << 60, 100, 257];
const U32S: [u32; 14] = [0, 1, 2, 3, 7, 31, 32, 33, 255, 256, 257, 65_535, 0x7fff_ffff, u32::MAX];
const U16S: [u16; 10] = [0, 1, 2, 4, 8, 16, 20, 255, 0x7fff, 0xffff];

impl V {
    fn i64(self) -> i64 {
        I64S[idx(self.0, I64S.len())]
    }
    fn u32(self) -> u32 {
        U32S[idx(self.0, U32S.len())]
    }
    fn u16(self) -> u16 {
        U16S[idx(self.0, U16S.len())]
    }
}

/// the V that resolves to entry `i` of a class table of length `len`
fn vi(i: usize, len: usize) -> V {
    V((((i << 16) + len - 1) / len) as u16)
}

#[derive(Clone, Debug, Serialize, Deserialize)]
pub enum HSub {
    Data { reader: u8, writer: u8, sn: V, flags: u8, otq: V, qos: Vec<(u16, Vec<u8>)>, payload: HPayload },
    DataFrag {
        reader: u8,
        writer: u8,
        sn: V,
        flags: u8,
        frag_start: V,
        frags: V,
        frag_size: V,
        data_size: V,
        payload_len: u8,
        /// exact (fragmentStartingNum, fragmentsInSubmessage, fragmentSize, sampleSize) overriding the classes:
        /// constructed cases whose claimed fragment counts add up to ceil(sampleSize / fragmentSize)
        #[serde(default)]
        exact: Option<(u32, u16, u16, u32)>,
    },
    Heartbeat { reader: u8, writer: u8, first: V, last: V, count: V, flags: u8 },
    HeartbeatFrag { reader: u8, writer: u8, sn: V, last_frag: V, count: V },
    AckNack { reader: u8, writer: u8, base: V, num_bits: V, words: u8, count: V, flags: u8 },
    Gap { reader: u8, writer: u8, start: V, base: V, num_bits: V, words: u8 },
    NackFrag { reader: u8, writer: u8, sn: V, base: V, num_bits: V, words: u8, count: V },
    InfoTs { flags: u8, s: V, f: V },
    InfoDst { which: u8 },
    InfoSrc { which: u8 },
    InfoReply { flags: u8, n: V, n2: V },
    Pad { len: u8 },
    Unknown { id: u8, flags: u8, body: Vec<u8> },
    /// declared length differs from the body
    BadLength { id: u8, flags: u8, declared: V, body: Vec<u8> },
}

#[derive(Clone, Debug, Serialize, Deserialize)]
pub enum HPayload {
    None,
    Bytes(Vec<u8>),
    /// a captured valid payload of that traffic kind with mutations (offset, new byte)
    MutatedCapture { which: u8, edits: Vec<(u16, u8)>, truncate: Option<u16> },
    /// a valid KeyedData sample
    ValidSample { seq: u8, len: u8 },
}

#[derive(Clone, Debug, Serialize, Deserialize)]
pub enum Hostile {
    Random(Vec<u8>),
    /// a captured datagram (index into the capture list, monotone) with byte edits / truncation
    Mutated { which: u16, edits: Vec<(u16, u8)>, truncate: Option<u16> },
    Structured { prefix: u8, big_endian: bool, version: (u8, u8), subs: Vec<HSub> },
}

#[derive(Clone, Debug, Serialize, Deserialize)]
pub struct C06Case {
    pub frag: u32,
    pub datagrams: Vec<(Hostile, u16)>,
}

fn payload_strategy() -> BoxedStrategy<HPayload> {
    prop_oneof![
        1 => Just(HPayload::None),
        2 => prop::collection::vec(any::<u8>(), 0..64).prop_map(HPayload::Bytes),
        4 => (0u8..6, prop::collection::vec((any::<u16>(), any::<u8>()), 0..4), prop::option::weighted(0.3, any::<u16>()))
            .prop_map(|(which, edits, truncate)| HPayload::MutatedCapture { which, edits, truncate }),
        2 => (any::<u8>(), any::<u8>()).prop_map(|(seq, len)| HPayload::ValidSample { seq, len }),
    ]
    .boxed()
}

fn sub_strategy() -> BoxedStrategy<HSub> {
    let e = || 0u8..10;
    prop_oneof![
        4 => (e(), e(), v(), any::<u8>(), prop_oneof![4 => Just(vi(5, U16S.len())), 1 => v()], prop::collection::vec((any::<u16>(), prop::collection::vec(any::<u8>(), 0..20)), 0..3), payload_strategy())
            .prop_map(|(reader, writer, sn, flags, otq, qos, payload)| HSub::Data { reader, writer, sn, flags, otq, qos, payload }),
        4 => (e(), e(), v(), any::<u8>(), v(), v(), v(), v(), any::<u8>())
            .prop_map(|(reader, writer, sn, flags, frag_start, frags, frag_size, data_size, payload_len)| HSub::DataFrag { reader, writer, sn, flags, frag_start, frags, frag_size, data_size, payload_len, exact: None }),
        3 => (e(), e(), v(), v(), v(), any::<u8>()).prop_map(|(reader, writer, first, last, count, flags)| HSub::Heartbeat { reader, writer, first, last, count, flags }),
        1 => (e(), e(), v(), v(), v()).prop_map(|(reader, writer, sn, last_frag, count)| HSub::HeartbeatFrag { reader, writer, sn, last_frag, count }),
        3 => (e(), e(), v(), v(), 0u8..10, v(), any::<u8>()).prop_map(|(reader, writer, base, num_bits, words, count, flags)| HSub::AckNack { reader, writer, base, num_bits, words, count, flags }),
        3 => (e(), e(), v(), v(), v(), 0u8..10).prop_map(|(reader, writer, start, base, num_bits, words)| HSub::Gap { reader, writer, start, base, num_bits, words }),
        3 => (e(), e(), v(), v(), v(), 0u8..10, v()).prop_map(|(reader, writer, sn, base, num_bits, words, count)| HSub::NackFrag { reader, writer, sn, base, num_bits, words, count }),
        1 => (any::<u8>(), v(), v()).prop_map(|(flags, s, f)| HSub::InfoTs { flags, s, f }),
        1 => (0u8..4).prop_map(|which| HSub::InfoDst { which }),
        1 => (0u8..4).prop_map(|which| HSub::InfoSrc { which }),
        1 => (any::<u8>(), v(), v()).prop_map(|(flags, n, n2)| HSub::InfoReply { flags, n, n2 }),
        1 => (0u8..16).prop_map(|len| HSub::Pad { len }),
        1 => (any::<u8>(), any::<u8>(), prop::collection::vec(any::<u8>(), 0..40)).prop_map(|(id, flags, body)| HSub::Unknown { id, flags, body }),
        1 => (prop::sample::select(vec![wire::DATA, wire::DATA_FRAG, wire::GAP, wire::ACKNACK, wire::HEARTBEAT, wire::NACK_FRAG, wire::INFO_TS]), any::<u8>(), v(), prop::collection::vec(any::<u8>(), 0..40))
            .prop_map(|(id, flags, declared, body)| HSub::BadLength { id, flags, declared, body }),
    ]
    .boxed()
}

pub fn strategy() -> BoxedStrategy<C06Case> {
    let hostile = prop_oneof![
        1 => prop::collection::vec(any::<u8>(), 0..200).prop_map(Hostile::Random),
        3 => (any::<u16>(), prop::collection::vec((any::<u16>(), any::<u8>()), 0..5), prop::option::weighted(0.3, any::<u16>()))
            .prop_map(|(which, edits, truncate)| Hostile::Mutated { which, edits, truncate }),
        6 => (0u8..4, prop::bool::weighted(0.2), prop_oneof![4 => Just((2u8, 4u8)), 1 => Just((2u8, 1u8)), 1 => any::<(u8, u8)>()], prop::collection::vec(sub_strategy(), 1..5))
            .prop_map(|(prefix, big_endian, version, subs)| Hostile::Structured { prefix, big_endian, version, subs }),
    ];
    (prop_oneof![3 => Just(1344u32), 1 => Just(100u32)], prop::collection::vec((hostile, prop_oneof![3 => Just(0u16), 1 => 0u16..300]), 1..20))
        .prop_map(|(frag, datagrams)| C06Case { frag, datagrams })
        .boxed()
}

/// Systematic part of the campaign: every product of the adversarial classes of the numeric fields
/// of each submessage kind, sent in the peer's name to the matched user endpoints (and, for
/// reader-directed kinds, to ENTITYID_UNKNOWN = all readers). Defects of this property live at
/// single points of that product (one magic sequence number in one field), which random draws of
/// 1-19 datagrams reach only occasionally. Cases pack several products (a panic ends a case, so the
/// minimiser isolates the datagram); submessages with a count use ascending counts within a case.
pub fn systematic(thorough: bool, seed: u64, quota: usize) -> Vec<C06Case> {
    let i64s: Vec<V> = (0..I64S.len()).map(|i| vi(i, I64S.len())).collect();
    let u32s: Vec<V> = (0..U32S.len()).map(|i| vi(i, U32S.len())).collect();
    let u16s: Vec<V> = (0..U16S.len()).map(|i| vi(i, U16S.len())).collect();
    let u32_of = |x: u32| vi(U32S.iter().position(|v| *v == x).unwrap(), U32S.len());
    let u16_of = |x: u16| vi(U16S.iter().position(|v| *v == x).unwrap(), U16S.len());
    let i64_of = |x: i64| vi(I64S.iter().position(|v| *v == x).unwrap(), I64S.len());
    // counts that exceed the genuine peer's counters, ascending
    let counts: Vec<V> = [31u32, 32, 33, 255, 256, 257, 65_535, 0x7fff_ffff].iter().map(|c| u32_of(*c)).collect();
    let few_bits: Vec<V> = [0u32, 1, 32, 256, 257, u32::MAX].iter().map(|c| u32_of(*c)).collect();
    // (reader index, writer index) in the entity id menu
    let to_reader: &[(u8, u8)] = if thorough { &[(1, 0), (8, 0)] } else { &[(1, 0)] };
    let to_writer: &[(u8, u8)] = &[(3, 2)];
    let mut counted: Vec<Vec<HSub>> = vec![]; // kinds with a count: 8 per case
    let mut plain: Vec<Vec<HSub>> = vec![]; // 16 per case
    for &(reader, writer) in to_reader {
        let mut hb = vec![];
        for first in &i64s {
            for last in &i64s {
                for flags in [0u8, 2, 4] {
                    hb.push((*first, *last, flags));
                }
            }
        }
        for (j, (first, last, flags)) in hb.into_iter().enumerate() {
            counted.push(vec![HSub::Heartbeat { reader, writer, first, last, count: counts[j % counts.len()], flags }]);
        }
        let mut j = 0;
        for sn in &i64s {
            for last_frag in &u32s {
                counted.push(vec![HSub::HeartbeatFrag { reader, writer, sn: *sn, last_frag: *last_frag, count: counts[j % counts.len()] }]);
                j += 1;
            }
        }
        for sn in &i64s {
            for flags in [0u8, 0x02, 0x04, 0x06, 0x08, 0x0a] {
                for otq in &u16s {
                    // followed by another submessage: offsets past this DATA stay inside the datagram
                    plain.push(vec![
                        HSub::Data { reader, writer, sn: *sn, flags, otq: *otq, qos: vec![], payload: HPayload::ValidSample { seq: 40, len: 8 } },
                        HSub::InfoTs { flags: 0, s: u32_of(1), f: u32_of(0) },
                    ]);
                }
            }
        }
        for sn in [4i64, 5, i64::MAX, 0] {
            for frag_start in [0u32, 1, 2, 3, 256, u32::MAX] {
                for frags in [0u16, 1, 2, 0xffff] {
                    for frag_size in [0u16, 1, 8, 0xffff] {
                        for data_size in [0u32, 1, 31, 65_535, u32::MAX] {
                            plain.push(vec![HSub::DataFrag {
                                reader,
                                writer,
                                sn: i64_of(sn),
                                flags: 0,
                                frag_start: u32_of(frag_start),
                                frags: u16_of(frags),
                                frag_size: u16_of(frag_size),
                                data_size: u32_of(data_size),
                                payload_len: 8,
                                exact: None,
                            }]);
                        }
                    }
                }
            }
        }
        for start in &i64s {
            for base in &i64s {
                for num_bits in &few_bits {
                    for words in [0u8, 1, 8] {
                        plain.push(vec![HSub::Gap { reader, writer, start: *start, base: *base, num_bits: *num_bits, words }]);
                    }
                }
            }
        }
    }
    for &(reader, writer) in to_writer {
        let mut j = 0;
        for base in &i64s {
            for num_bits in &u32s {
                for words in [0u8, 1, 8] {
                    for flags in [0u8, 2] {
                        counted.push(vec![HSub::AckNack { reader, writer, base: *base, num_bits: *num_bits, words, count: counts[j % counts.len()], flags }]);
                        j += 1;
                    }
                }
            }
        }
        for sn in &i64s {
            for base in &u32s {
                for num_bits in &few_bits {
                    for words in [0u8, 8] {
                        counted.push(vec![HSub::NackFrag { reader, writer, sn: *sn, base: *base, num_bits: *num_bits, words, count: counts[j % counts.len()] }]);
                        j += 1;
                    }
                }
            }
        }
    }
    let dg = |subs: &Vec<HSub>, be: bool| (Hostile::Structured { prefix: 0, big_endian: be, version: (2, 4), subs: subs.clone() }, 0u16);
    let mut cases = vec![];
    // DATA_FRAG groups that claim to complete a sample far larger than what is sent: the claimed
    // fragmentsInSubmessage add up to ceil(sampleSize / fragmentSize), one of them starts at fragment 1,
    // sequence number = the next one the victim's reader expects from the peer (4 after the three warm-up
    // samples; 5..7 too). One group per case, followed by a heartbeat.
    let mut completing = vec![];
    for data_size in [65_536u32, 1 << 20, 1 << 30, u32::MAX] {
        for frag_size in [1u16, 8, 1344, 65_535] {
            let total = (data_size as u64).div_ceil(frag_size as u64);
            if total > 2 * 65_535 {
                continue;
            }
            for sn in [4i64, 5] {
                let mk = |start: u32, frags: u16| HSub::DataFrag {
                    reader: 1,
                    writer: 0,
                    sn: i64_of(sn),
                    flags: 0,
                    frag_start: u32_of(1),
                    frags: u16_of(1),
                    frag_size: u16_of(8),
                    data_size: u32_of(31),
                    payload_len: 16,
                    exact: Some((start, frags, frag_size, data_size)),
                };
                let mut group = vec![];
                if total <= 65_535 {
                    group.push(vec![mk(1, total as u16)]);
                } else {
                    group.push(vec![mk(1, 65_535)]);
                    group.push(vec![mk(65_536, (total - 65_535) as u16)]);
                }
                group.push(vec![HSub::Heartbeat { reader: 1, writer: 0, first: i64_of(1), last: i64_of(8), count: counts[7], flags: 0 }]);
                completing.push(group);
            }
        }
    }
    // always evaluated (not subject to the quick tier's sampling)
    let always: Vec<C06Case> = completing.iter().map(|g| C06Case { frag: 1344, datagrams: g.iter().map(|s| dg(s, false)).collect() }).collect();
    for chunk in counted.chunks(8) {
        // counts ascend with the position in the chunk only if the chunk starts at a multiple of 8
        cases.push(C06Case { frag: 1344, datagrams: chunk.iter().map(|s| dg(s, false)).collect() });
    }
    for chunk in plain.chunks(16) {
        cases.push(C06Case { frag: 1344, datagrams: chunk.iter().map(|s| dg(s, false)).collect() });
    }
    if thorough {
        for chunk in counted.chunks(8) {
            cases.push(C06Case { frag: 1344, datagrams: chunk.iter().map(|s| dg(s, true)).collect() });
        }
    }
    // seeded order; the quick tier takes the first `quota`
    let mut keyed: Vec<(u64, C06Case)> = cases.into_iter().enumerate().map(|(i, c)| (vcore::mix(seed, "systematic", i as u64), c)).collect();
    keyed.sort_by_key(|(k, _)| *k);
    let rest = quota.saturating_sub(always.len());
    always.into_iter().chain(keyed.into_iter().take(rest).map(|(_, c)| c)).collect()
}

/// simpler variants of a failing constructed case: each datagram alone, then each one removed
fn smaller(c: &C06Case) -> Vec<C06Case> {
    let mut out = vec![];
    if c.datagrams.len() > 1 {
        for d in &c.datagrams {
            out.push(C06Case { frag: c.frag, datagrams: vec![d.clone()] });
        }
        for i in 0..c.datagrams.len() {
            let mut d = c.datagrams.clone();
            d.remove(i);
            out.push(C06Case { frag: c.frag, datagrams: d });
        }
    }
    for (i, (h, p)) in c.datagrams.iter().enumerate() {
        if let Hostile::Structured { prefix, big_endian, version, subs } = h {
            if subs.len() > 1 {
                for k in 0..subs.len() {
                    let mut s2 = subs.clone();
                    s2.remove(k);
                    let mut d = c.datagrams.clone();
                    d[i] = (Hostile::Structured { prefix: *prefix, big_endian: *big_endian, version: *version, subs: s2 }, *p);
                    out.push(C06Case { frag: c.frag, datagrams: d });
                }
            }
        }
    }
    out
}

// ------------------------------------------------------------------------------------------
// encoder for structured hostile messages (own code, RTPS 2.5 §9.4.5 layouts)

struct Enc {
    b: Vec<u8>,
    be: bool,
}
impl Enc {
    fn u16(&mut self, v: u16) {
        self.b.extend(if self.be { v.to_be_bytes() } else { v.to_le_bytes() });
    }
    fn u32(&mut self, v: u32) {
        self.b.extend(if self.be { v.to_be_bytes() } else { v.to_le_bytes() });
    }
    fn i64sn(&mut self, v: i64) {
        self.u32((v >> 32) as u32);
        self.u32(v as u32);
    }
    fn bytes(&mut self, v: &[u8]) {
        self.b.extend_from_slice(v);
    }
}

struct Ctx6 {
    prefixes: [[u8; 12]; 4],
    /// entity id menu: matched user endpoints first, then builtin ones, then junk
    eids: [[u8; 4]; 10],
    captures: Vec<Vec<u8>>,
    payload_captures: Vec<Vec<u8>>,
}

fn params(e: &mut Enc, qos: &[(u16, Vec<u8>)], sentinel: bool) {
    for (pid, val) in qos {
        e.u16(*pid);
        let padded = (val.len() + 3) / 4 * 4;
        e.u16(padded as u16);
        e.bytes(val);
        for _ in val.len()..padded {
            e.b.push(0);
        }
    }
    if sentinel {
        e.u16(1);
        e.u16(0);
    }
}

fn payload_bytes(p: &HPayload, cx: &Ctx6) -> Vec<u8> {
    match p {
        HPayload::None => vec![],
        HPayload::Bytes(b) => b.clone(),
        HPayload::MutatedCapture { which, edits, truncate } => {
            if cx.payload_captures.is_empty() {
                return vec![];
            }
            let mut b = cx.payload_captures[*which as usize % cx.payload_captures.len()].clone();
            for (off, val) in edits {
                if !b.is_empty() {
                    let i = idx(*off, b.len());
                    b[i] = *val;
                }
            }
            if let Some(t) = truncate {
                let n = idx(*t, b.len() + 1);
                b.truncate(n);
            }
            b
        }
        HPayload::ValidSample { seq, len } => {
            // CDR_LE KeyedData { id: u8, seq: u32, blob: Vec<u8> }
            let mut b = vec![0, 1, 0, 0, 1, 0, 0, 0];
            b.extend((*seq as u32).to_le_bytes());
            let blob = blob_for(*seq as u32, *len as usize % 40);
            b.extend((blob.len() as u32).to_le_bytes());
            b.extend(blob);
            while b.len() % 4 != 0 {
                b.push(0);
            }
            b
        }
    }
}

fn encode_sub(s: &HSub, be: bool, cx: &Ctx6) -> Vec<u8> {
    let mut e = Enc { b: vec![], be };
    let eid = |i: u8| cx.eids[i as usize % cx.eids.len()];
    let (id, mut flags, declared): (u8, u8, Option<u16>) = match s {
        HSub::Data { reader, writer, sn, flags, otq, qos, payload } => {
            e.u16(0);
            e.u16(otq.u16());
            e.bytes(&eid(*reader));
            e.bytes(&eid(*writer));
            e.i64sn(sn.i64());
            if flags & 2 != 0 {
                params(&mut e, qos, flags & 0x40 == 0);
            }
            e.bytes(&payload_bytes(payload, cx));
            (wire::DATA, flags & 0x0e, None)
        }
        HSub::DataFrag { reader, writer, sn, flags, frag_start, frags, frag_size, data_size, payload_len, exact } => {
            e.u16(0);
            e.u16(28);
            e.bytes(&eid(*reader));
            e.bytes(&eid(*writer));
            e.i64sn(sn.i64());
            let (a, b, c, d) = exact.unwrap_or((frag_start.u32(), frags.u16(), frag_size.u16(), data_size.u32()));
            e.u32(a);
            e.u16(b);
            e.u16(c);
            e.u32(d);
            if flags & 2 != 0 {
                params(&mut e, &[], true);
            }
            e.bytes(&vec![0xab; *payload_len as usize % 80]);
            (wire::DATA_FRAG, flags & 0x06, None)
        }
        HSub::Heartbeat { reader, writer, first, last, count, flags } => {
            e.bytes(&eid(*reader));
            e.bytes(&eid(*writer));
            e.i64sn(first.i64());
            e.i64sn(last.i64());
            e.u32(count.u32());
            (wire::HEARTBEAT, flags & 0x06, None)
        }
        HSub::HeartbeatFrag { reader, writer, sn, last_frag, count } => {
            e.bytes(&eid(*reader));
            e.bytes(&eid(*writer));
            e.i64sn(sn.i64());
            e.u32(last_frag.u32());
            e.u32(count.u32());
            (wire::HEARTBEAT_FRAG, 0, None)
        }
        HSub::AckNack { reader, writer, base, num_bits, words, count, flags } => {
            e.bytes(&eid(*reader));
            e.bytes(&eid(*writer));
            e.i64sn(base.i64());
            e.u32(num_bits.u32());
            for k in 0..*words {
                e.u32(0xffff_0000u32.rotate_left(k as u32 * 3));
            }
            e.u32(count.u32());
            (wire::ACKNACK, flags & 0x02, None)
        }
        HSub::Gap { reader, writer, start, base, num_bits, words } => {
            e.bytes(&eid(*reader));
            e.bytes(&eid(*writer));
            e.i64sn(start.i64());
            e.i64sn(base.i64());
            e.u32(num_bits.u32());
            for k in 0..*words {
                e.u32(0xf0f0_f0f0u32.rotate_left(k as u32));
            }
            (wire::GAP, 0, None)
        }
        HSub::NackFrag { reader, writer, sn, base, num_bits, words, count } => {
            e.bytes(&eid(*reader));
            e.bytes(&eid(*writer));
            e.i64sn(sn.i64());
            e.u32(base.u32());
            e.u32(num_bits.u32());
            for k in 0..*words {
                e.u32(0xffff_ffffu32 >> k);
            }
            e.u32(count.u32());
            (wire::NACK_FRAG, 0, None)
        }
        HSub::InfoTs { flags, s, f } => {
            if flags & 2 == 0 {
                e.u32(s.u32());
                e.u32(f.u32());
            }
            (wire::INFO_TS, flags & 0x02, None)
        }
        HSub::InfoDst { which } => {
            e.bytes(&cx.prefixes[*which as usize % 4]);
            (wire::INFO_DST, 0, None)
        }
        HSub::InfoSrc { which } => {
            e.u32(0);
            e.bytes(&[2, 4, 1, 20]);
            e.bytes(&cx.prefixes[*which as usize % 4]);
            (wire::INFO_SRC, 0, None)
        }
        HSub::InfoReply { flags, n, n2 } => {
            let n1 = n.u32();
            e.u32(n1);
            for k in 0..n1.min(3) {
                e.u32(1);
                e.u32(7400 + k);
                e.bytes(&[0; 16]);
            }
            if flags & 2 != 0 {
                let m = n2.u32();
                e.u32(m);
                for k in 0..m.min(2) {
                    e.u32(2);
                    e.u32(7400 + k);
                    e.bytes(&[0xfe; 16]);
                }
            }
            (wire::INFO_REPLY, flags & 0x02, None)
        }
        HSub::Pad { len } => {
            e.bytes(&vec![0; *len as usize]);
            (wire::PAD, 0, None)
        }
        HSub::Unknown { id, flags, body } => {
            e.bytes(body);
            (*id, *flags & 0xfe, None)
        }
        HSub::BadLength { id, flags, declared, body } => {
            e.bytes(body);
            (*id, *flags & 0xfe, Some(declared.u16()))
        }
    };
    if !be {
        flags |= 1;
    }
    let mut out = vec![id, flags];
    let len = declared.unwrap_or(e.b.len().min(65_535) as u16);
    out.extend(if be { len.to_be_bytes() } else { len.to_le_bytes() });
    out.extend(e.b);
    out
}

fn encode_hostile(h: &Hostile, cx: &Ctx6) -> Vec<u8> {
    match h {
        Hostile::Random(b) => b.clone(),
        Hostile::Mutated { which, edits, truncate } => {
            if cx.captures.is_empty() {
                return vec![];
            }
            let mut b = cx.captures[idx(*which, cx.captures.len())].clone();
            for (off, val) in edits {
                if !b.is_empty() {
                    let i = idx(*off, b.len());
                    b[i] = *val;
                }
            }
            if let Some(t) = truncate {
                let n = idx(*t, b.len() + 1);
                b.truncate(n);
            }
            b
        }
        Hostile::Structured { prefix, big_endian, version, subs } => {
            let mut b = b"RTPS".to_vec();
            b.push(version.0);
            b.push(version.1);
            b.extend([1, 20]);
            b.extend(cx.prefixes[*prefix as usize % 4]);
            for s in subs {
                b.extend(encode_sub(s, *big_endian, cx));
            }
            b
        }
    }
}

// ------------------------------------------------------------------------------------------

#[derive(Default, Clone, Debug, Serialize, Deserialize)]
struct Obs6 {
    setup_error: Option<String>,
    verdict: Option<(String, String)>,
    classes: Vec<String>,
    injected: usize,
    parsed: usize,
    addressed_existing: usize,
    peak_growth: usize,
    total_len: usize,
}

fn rq() -> DataReaderQos {
    DataReaderQos {
        reliability: ReliabilityQosPolicy { kind: ReliabilityQosPolicyKind::Reliable, max_blocking_time: dk_ms(100) },
        history: HistoryQosPolicy { kind: HistoryQosPolicyKind::KeepAll },
        durability: DurabilityQosPolicy { kind: DurabilityQosPolicyKind::TransientLocal },
        ..Default::default()
    }
}
fn wq() -> DataWriterQos {
    DataWriterQos {
        reliability: ReliabilityQosPolicy { kind: ReliabilityQosPolicyKind::Reliable, max_blocking_time: dk_ms(100) },
        history: HistoryQosPolicy { kind: HistoryQosPolicyKind::KeepAll },
        durability: DurabilityQosPolicy { kind: DurabilityQosPolicyKind::TransientLocal },
        ..Default::default()
    }
}

async fn scenario(c: C06Case) -> Obs6 {
    let mut o = Obs6::default();
    with_world(|w| w.net.fragment_size = c.frag as usize);
    let f = factory();
    // victim = participant 0, peer = participant 1
    let pv = f.create_participant(0, QosKind::Default, NO_LISTENER, NO_STATUS).await.unwrap();
    let pp = f.create_participant(0, QosKind::Default, NO_LISTENER, NO_STATUS).await.unwrap();
    let tv = pv.create_topic::<KeyedData>("T", "KeyedData", QosKind::Default, NO_LISTENER, NO_STATUS).await.unwrap();
    let tp = pp.create_topic::<KeyedData>("T", "KeyedData", QosKind::Default, NO_LISTENER, NO_STATUS).await.unwrap();
    let tv2 = pv.create_topic::<KeyedData>("B", "KeyedData", QosKind::Default, NO_LISTENER, NO_STATUS).await.unwrap();
    let tp2 = pp.create_topic::<KeyedData>("B", "KeyedData", QosKind::Default, NO_LISTENER, NO_STATUS).await.unwrap();
    let pubv = pv.create_publisher(QosKind::Default, NO_LISTENER, NO_STATUS).await.unwrap();
    let subv = pv.create_subscriber(QosKind::Default, NO_LISTENER, NO_STATUS).await.unwrap();
    let pubp = pp.create_publisher(QosKind::Default, NO_LISTENER, NO_STATUS).await.unwrap();
    let subp = pp.create_subscriber(QosKind::Default, NO_LISTENER, NO_STATUS).await.unwrap();
    // victim writer (topic T) -> peer reader; peer writer (topic B) -> victim reader
    let wv = pubv.create_datawriter::<KeyedData>(&tv, QosKind::Specific(wq()), NO_LISTENER, NO_STATUS).await.unwrap();
    let rp = subp.create_datareader::<KeyedData>(&tp, QosKind::Specific(rq()), NO_LISTENER, NO_STATUS).await.unwrap();
    let wp = pubp.create_datawriter::<KeyedData>(&tp2, QosKind::Specific(wq()), NO_LISTENER, NO_STATUS).await.unwrap();
    let rv = subv.create_datareader::<KeyedData>(&tv2, QosKind::Specific(rq()), NO_LISTENER, NO_STATUS).await.unwrap();
    let ok = wait_until(20_000, 10, || async {
        wv.get_publication_matched_status().await.map(|s| s.current_count == 1).unwrap_or(false)
            && wp.get_publication_matched_status().await.map(|s| s.current_count == 1).unwrap_or(false)
    })
    .await;
    if !ok {
        o.setup_error = Some("no match".into());
        return o;
    }
    // some normal traffic, also to capture valid datagrams
    for k in 1..=3u32 {
        let _ = wv.write(KeyedData { id: 1, seq: k, blob: blob_for(k, 120) }, None).await;
        let _ = wp.write(KeyedData { id: 2, seq: k, blob: blob_for(k, 20) }, None).await;
    }
    exec::sleep_ms(300).await;
    let h = |x: [u8; 16]| -> [u8; 4] { [x[12], x[13], x[14], x[15]] };
    let pre = |x: [u8; 16]| -> [u8; 12] {
        let mut p = [0u8; 12];
        p.copy_from_slice(&x[..12]);
        p
    };
    let hv: [u8; 16] = pv.get_instance_handle().into();
    let hp: [u8; 16] = pp.get_instance_handle().into();
    let (captures, payload_captures) = with_world(|w| {
        let mut caps: Vec<Vec<u8>> = vec![];
        let mut pays: Vec<Vec<u8>> = vec![];
        let mut kinds = BTreeSet::new();
        for rec in &w.net.log {
            if rec.to != 0 {
                continue;
            }
            let Some(m) = wire::parse(&rec.data) else { continue };
            let sig: Vec<&str> = m.subs.iter().map(|s| s.sub.kind()).collect();
            let key = format!("{:?}{:?}", rec.class, sig);
            if kinds.insert(key) && caps.len() < 24 {
                caps.push(rec.data.to_vec());
            }
            for s in &m.subs {
                if let wire::Sub::Data { payload, writer, .. } = &s.sub {
                    if !payload.is_empty() && pays.iter().filter(|p: &&Vec<u8>| p.len() == payload.len()).count() == 0 && pays.len() < 6 {
                        let _ = writer;
                        pays.push(payload.clone());
                    }
                }
            }
        }
        (caps, pays)
    });
    let cx = Ctx6 {
        prefixes: [pre(hp), pre(hv), [0; 12], [0x77; 12]],
        eids: [
            h(wp.get_instance_handle().into()),
            h(rv.get_instance_handle().into()),
            h(wv.get_instance_handle().into()),
            h(rp.get_instance_handle().into()),
            [0, 1, 0, 0xc2],
            [0, 1, 0, 0xc7],
            [0, 0, 3, 0xc2],
            [0, 0, 4, 0xc7],
            [0, 0, 0, 0],
            [9, 9, 9, 7],
        ],
        captures,
        payload_captures,
    };
    // ---- hostile phase
    let mut classes = BTreeSet::new();
    let base_mem = vcore::alloc::current();
    vcore::alloc::reset_peak();
    vcore::alloc::set_single_request_cap(256 << 20);
    let mut k = 10u32;
    for (hst, pause) in &c.datagrams {
        let bytes = encode_hostile(hst, &cx);
        o.injected += 1;
        o.total_len += bytes.len();
        if let Some(m) = wire::parse(&bytes) {
            o.parsed += 1;
            let spoofed_peer = m.prefix == cx.prefixes[0];
            if spoofed_peer {
                classes.insert("spoofs_discovered_participant".to_string());
            }
            for s in &m.subs {
                classes.insert(format!("sub:{}", s.sub.kind()));
                let (r, w) = match &s.sub {
                    wire::Sub::Data { reader, writer, .. }
                    | wire::Sub::DataFrag { reader, writer, .. }
                    | wire::Sub::Heartbeat { reader, writer, .. }
                    | wire::Sub::AckNack { reader, writer, .. }
                    | wire::Sub::Gap { reader, writer, .. }
                    | wire::Sub::NackFrag { reader, writer, .. } => (*reader, *writer),
                    _ => continue,
                };
                if spoofed_peer && (cx.eids[..8].contains(&r) || cx.eids[..8].contains(&w)) {
                    o.addressed_existing += 1;
                }
            }
        }
        match hst {
            Hostile::Random(_) => classes.insert("random_bytes".to_string()),
            Hostile::Mutated { .. } => classes.insert("mutated_capture".to_string()),
            Hostile::Structured { .. } => classes.insert("structured".to_string()),
        };
        if std::env::var("C06_DEBUG").is_ok() {
            eprintln!("DEBUG inject {}", bytes.iter().map(|b| format!("{b:02x}")).collect::<String>());
        }
        net::inject(0, bytes);
        exec::sleep_ms(1 + *pause as u64).await;
        if *pause > 0 {
            k += 1;
            let _ = timeout(1_000, wp.write(KeyedData { id: 2, seq: k, blob: blob_for(k, 20) }, None)).await;
        }
    }
    exec::sleep_ms(500).await;
    o.peak_growth = vcore::alloc::peak().saturating_sub(base_mem);
    vcore::alloc::set_single_request_cap(usize::MAX);
    if vcore::alloc::refused() > 0 {
        o.verdict = Some(("C06:alloc:single-request-over-cap".into(), format!("a single allocation of {} bytes was requested while handling hostile datagrams", vcore::alloc::refused())));
        o.classes = classes.into_iter().collect();
        return o;
    }
    let bound = 1024 * o.total_len + (8 << 20);
    if o.peak_growth > bound {
        o.verdict = Some(("C06:alloc:peak-over-bound".into(), format!("heap grew by {} bytes while handling {} hostile bytes (bound {})", o.peak_growth, o.total_len, bound)));
        o.classes = classes.into_iter().collect();
        return o;
    }
    // ---- liveness: API answers, and a never-spoofed newcomer communicates with the victim in both directions
    match timeout(2_000, wv.get_qos()).await {
        Timed::Done(Ok(_)) => {}
        _ => {
            o.verdict = Some(("C06:dead:api-call-unanswered".into(), "victim does not answer get_qos within 2 s after the hostile datagrams".into()));
            o.classes = classes.into_iter().collect();
            return o;
        }
    }
    let pn = f.create_participant(0, QosKind::Default, NO_LISTENER, NO_STATUS).await.unwrap();
    let tn = pn.create_topic::<KeyedData>("T", "KeyedData", QosKind::Default, NO_LISTENER, NO_STATUS).await.unwrap();
    let tn2 = pn.create_topic::<KeyedData>("B", "KeyedData", QosKind::Default, NO_LISTENER, NO_STATUS).await.unwrap();
    let subn = pn.create_subscriber(QosKind::Default, NO_LISTENER, NO_STATUS).await.unwrap();
    let pubn = pn.create_publisher(QosKind::Default, NO_LISTENER, NO_STATUS).await.unwrap();
    let rn = subn.create_datareader::<KeyedData>(&tn, QosKind::Specific(rq()), NO_LISTENER, NO_STATUS).await.unwrap();
    let wn = pubn.create_datawriter::<KeyedData>(&tn2, QosKind::Specific(wq()), NO_LISTENER, NO_STATUS).await.unwrap();
    let matched = wait_until(15_000, 20, || async {
        rn.get_subscription_matched_status().await.map(|s| s.current_count >= 1).unwrap_or(false)
            && wn.get_publication_matched_status().await.map(|s| s.current_count >= 1).unwrap_or(false)
    })
    .await;
    if !matched {
        o.verdict = Some(("C06:dead:newcomer-not-matched".into(), "a well-behaved, never-spoofed new participant's endpoints did not match the victim's endpoints within 15 s".into()));
        o.classes = classes.into_iter().collect();
        return o;
    }
    let fresh = 200u32;
    let _ = timeout(2_000, wv.write(KeyedData { id: 7, seq: fresh, blob: blob_for(fresh, 30) }, None)).await;
    let _ = timeout(2_000, wn.write(KeyedData { id: 8, seq: fresh + 1, blob: blob_for(fresh + 1, 30) }, None)).await;
    let mut got_n = false;
    let mut got_v = false;
    for _ in 0..100 {
        if let Ok(s) = rn.read(1000, ANY_SAMPLE_STATE, ANY_VIEW_STATE, ANY_INSTANCE_STATE).await {
            got_n |= s.iter().any(|x| x.data.as_ref().map(|d| d.seq == fresh).unwrap_or(false));
        }
        if let Ok(s) = rv.read(1000, ANY_SAMPLE_STATE, ANY_VIEW_STATE, ANY_INSTANCE_STATE).await {
            got_v |= s.iter().any(|x| x.data.as_ref().map(|d| d.seq == fresh + 1).unwrap_or(false));
        }
        if got_n && got_v {
            break;
        }
        exec::sleep_ms(100).await;
    }
    if std::env::var("C06_DEBUG").is_ok() {
        {
            use dust_dds::builtin_topics::{DCPS_PUBLICATION, PublicationBuiltinTopicData};
            let bs = pv.get_builtin_subscriber();
            let br = bs.lookup_datareader::<PublicationBuiltinTopicData>(DCPS_PUBLICATION).await.unwrap().unwrap();
            match br.read(100, ANY_SAMPLE_STATE, ANY_VIEW_STATE, ANY_INSTANCE_STATE).await {
                Ok(v) => {
                    for s in v {
                        eprintln!("DEBUG victim DCPS_PUBLICATION valid={} ih={:?} state={:?} topic={:?}", s.sample_info.valid_data, s.sample_info.instance_handle, s.sample_info.instance_state, s.data.as_ref().map(|d| d.topic_name().to_string()));
                    }
                }
                Err(e) => eprintln!("DEBUG victim DCPS_PUBLICATION read error {e:?}"),
            }
            eprintln!("DEBUG victim discovered participants {:?}", pv.get_discovered_participants().await);
        }
        eprintln!("DEBUG rv subscription_matched {:?}", rv.get_subscription_matched_status().await);
        eprintln!("DEBUG rv matched pubs {:?}", rv.get_matched_publications().await);
        eprintln!("DEBUG wn handle {:?} matched subs {:?}", wn.get_instance_handle(), wn.get_matched_subscriptions().await);
        eprintln!("DEBUG rv handle {:?} wp handle {:?}", rv.get_instance_handle(), wp.get_instance_handle());
    }
    if !got_n {
        o.verdict = Some(("C06:dead:victim-writer-does-not-deliver".into(), "a fresh sample written by the victim never reached the never-spoofed newcomer's reader within 10 s".into()));
    } else if !got_v {
        o.verdict = Some(("C06:dead:victim-reader-does-not-receive".into(), "a fresh sample written by the never-spoofed newcomer never reached the victim's reader within 10 s".into()));
    }
    o.classes = classes.into_iter().collect();
    o
}

pub fn eval(case: &C06Case) -> CaseResult {
    let mut res = CaseResult::default();
    match exec::run(scenario(case.clone())) {
        Ok(o) => {
            if let Some(e) = &o.setup_error {
                res.harness_error = Some(e.clone());
            } else {
                res.verdict = o.verdict.clone();
                res.classes = o.classes.clone();
                res.nontrivial = o.addressed_existing > 0 || (o.parsed > 0 && o.classes.iter().any(|c| c == "mutated_capture"));
                res.info = json!({"injected": o.injected, "parsed": o.parsed, "addressed_existing": o.addressed_existing, "peak_growth": o.peak_growth, "total_len": o.total_len});
            }
        }
        Err(a) => apply_abort("C06", &mut res, a),
    }
    res.sim = sim_stats();
    res
}

pub fn main(ctx: &Ctx) {
    let thorough = ctx.tier == vcore::Tier::Thorough;
    let fixed = if ctx.replay.is_some() { vec![] } else { systematic(thorough, ctx.seed, ctx.pick(500, usize::MAX as u64) as usize) };
    campaign_fixed(
        ctx,
        Campaign {
            total_cases: ctx.pick(1_000, 80_000),
            max_shrink_iters: 60,
            limits: Limits { cpu_s: 6, wall_s: 90, as_bytes: 4 << 30 },
            meta: Meta {
                rule: "two parts, same scenario and oracle. (a) constructed: every product of the adversarial value classes of the numeric fields of HEARTBEAT, HEARTBEAT_FRAG, DATA (+ trailing INFO_TS), DATA_FRAG (reduced classes), GAP, ACKNACK and NACK_FRAG sent in the peer's name to the matched user endpoints, 8-16 products per case (quick: a seeded 500-case subset, thorough: all, also big-endian and to ENTITYID_UNKNOWN), plus 22 DATA_FRAG groups whose claimed fragment counts add up to a sample of 64 KiB - 4 GiB while a few bytes are sent; (b) generated: a victim participant with a reliable TRANSIENT_LOCAL writer and reader matched to a well-behaved peer receives 1-19 hostile datagrams interleaved with normal traffic: random bytes, captured valid datagrams with byte edits/truncation, or structured RTPS messages (all submessage kinds, both byte orders) with adversarial sequence numbers, set sizes (numBits up to 2^32-1), fragment numbers/sizes (0), counts, declared lengths, inline QoS and payloads (mutated captured discovery/user payloads), addressed to matched user endpoints and builtin endpoints and optionally spoofing the peer's GUID prefix; oracle: no panic in any task, CPU <= 6 s (hang), no single allocation > 256 MiB, heap growth <= 1024*bytes + 8 MiB, afterwards get_qos answers and a never-spoofed newcomer matches and exchanges a fresh sample with the victim in both directions; non-trivial = a structured message claimed the peer's prefix and addressed an existing endpoint, or a mutated captured datagram still parsed; distinct = hash of the case",
                assumptions: &[
                    "deterministic simulation; datagrams are injected straight into the victim's receive path",
                    "harness built with overflow-checks on (as every debug build of dust-dds): an arithmetic overflow is a panic",
                    "a GAP/HEARTBEAT forged in the peer's name may legitimately disturb traffic with that peer; liveness is judged with a participant that was never spoofed",
                ],
                nontrivial_floor: 200,
            },
        },
        fixed,
        smaller,
        strategy(),
        eval,
    );
}
