//! C18–C25: reader-cache semantics against the reference model R-READER (DESIGN.md Appendix A).
//! One reader, 1–3 writers in other participants, a perfect network, every op run to quiescence, so
//! arrival order == op order. The model runs online next to the implementation; the first mismatch
//! decides the case (or stops it when it belongs to another property's sub-oracle).

use std::collections::{BTreeMap, BTreeSet};

use dust_dds::{
    dds_async::{data_reader::DataReaderAsync, data_writer::DataWriterAsync},
    infrastructure::{
        error::DdsError,
        instance::InstanceHandle,
        listener::NO_LISTENER,
        qos::{DataReaderQos, DataWriterQos, QosKind},
        qos_policy::{
            DestinationOrderQosPolicy, DestinationOrderQosPolicyKind, HistoryQosPolicy,
            HistoryQosPolicyKind, Length, OwnershipQosPolicy, OwnershipQosPolicyKind,
            OwnershipStrengthQosPolicy, ReliabilityQosPolicy, ReliabilityQosPolicyKind,
            ResourceLimitsQosPolicy, TimeBasedFilterQosPolicy, WriterDataLifecycleQosPolicy,
        },
        sample_info::{InstanceStateKind, SampleStateKind, ViewStateKind},
        status::{NO_STATUS, SampleRejectedStatusKind},
        time::{DurationKind, Time},
    },
    infrastructure::sample_info::Sample,
    xtypes::type_support::TypeSupport,
};
use proptest::prelude::*;
use serde::{Deserialize, Serialize};
use serde_json::json;
use vcore::{Ctx, Meta, fork::Limits};

use crate::{
    case::{CaseResult, apply_abort, sim_stats},
    exec,
    props::{Campaign, campaign},
    types::KeyedData,
    util::{dk_ms, factory, wait_until},
};

#[derive(Clone, Debug, Serialize, Deserialize)]
pub struct RQ {
    pub keep_last: Option<u8>,
    pub max_samples: Option<u8>,
    pub max_instances: Option<u8>,
    pub mspi: Option<u8>,
    pub by_source: bool,
    pub exclusive: bool,
    pub min_sep_ms: u32,
}

#[derive(Clone, Debug, Serialize, Deserialize)]
pub struct WS {
    pub strength: i32,
    pub autodispose: bool,
}

#[derive(Clone, Debug, Serialize, Deserialize)]
pub enum Op {
    /// ts: offset in ms from the scenario base time; None = current virtual time
    Write { w: u8, inst: u8, ts: Option<u32> },
    Dispose { w: u8, inst: u8 },
    Unregister { w: u8, inst: u8 },
    DeleteWriter { w: u8 },
    Read { take: bool, max: u8, ss: u8, vs: u8, is: u8, inst: Option<u8> },
    Next { take: bool, prev: Option<u8>, max: u8, ss: u8, vs: u8, is: u8 },
    Advance { ms: u16 },
}

#[derive(Clone, Debug, Serialize, Deserialize)]
pub struct CacheCase {
    pub prop: String,
    pub rq: RQ,
    pub writers: Vec<WS>,
    pub ops: Vec<Op>,
    /// C19 writer side: resource limits of a KEEP_ALL writer (only the Write ops of `ops` are used)
    #[serde(default)]
    pub wlim: Option<WLim>,
}

#[derive(Clone, Debug, Serialize, Deserialize)]
pub struct WLim {
    pub max_samples: Option<u8>,
    pub max_instances: Option<u8>,
    pub mspi: Option<u8>,
    /// reader partitioned during the writes (nothing is acknowledged) or reachable
    pub partitioned: bool,
}

// ------------------------------------------------------------------------------------------
// generators

fn any_masks() -> (u8, u8, u8) {
    (3, 3, 7)
}

fn read_any(take: bool) -> Op {
    let (ss, vs, is) = any_masks();
    Op::Read { take, max: 0, ss, vs, is, inst: None }
}

fn write_op(nw: u8, ni: u8, with_ts: bool) -> BoxedStrategy<Op> {
    if with_ts {
        (0..nw, 0..ni, prop_oneof![
            2 => (0u32..1000).prop_map(Some),
            1 => prop_oneof![Just(51u32), Just(102), Just(153), Just(512)].prop_map(Some),
            1 => Just(None),
        ])
            .prop_map(|(w, inst, ts)| Op::Write { w, inst, ts })
            .boxed()
    } else {
        (0..nw, 0..ni).prop_map(|(w, inst)| Op::Write { w, inst, ts: None }).boxed()
    }
}

fn masked_read(ni: u8) -> BoxedStrategy<Op> {
    (any::<bool>(), prop_oneof![3 => Just(0u8), 2 => 1u8..5], 1u8..4, 1u8..4, 1u8..8, prop::option::weighted(0.3, 0..ni))
        .prop_map(|(take, max, ss, vs, is, inst)| Op::Read { take, max, ss, vs, is, inst })
        .boxed()
}

fn next_op(ni: u8) -> BoxedStrategy<Op> {
    (any::<bool>(), prop::option::weighted(0.7, 0..ni), prop_oneof![3 => Just(0u8), 1 => 1u8..4], 1u8..4, 1u8..4, 1u8..8)
        .prop_map(|(take, prev, max, ss, vs, is)| Op::Next { take, prev, max, ss, vs, is })
        .boxed()
}

pub fn strategy(prop: &'static str, thorough: bool) -> BoxedStrategy<CacheCase> {
    let max_ops = if thorough { 120 } else { 40 };
    let default_rq = RQ {
        keep_last: None,
        max_samples: None,
        max_instances: None,
        mspi: None,
        by_source: false,
        exclusive: false,
        min_sep_ms: 0,
    };
    let ws1 = |n: usize| -> Vec<WS> { (0..n).map(|i| WS { strength: i as i32, autodispose: true }).collect() };
    match prop {
        "C18" => {
            let rq = (prop::option::weighted(0.8, 1u8..5), 0u8..3, prop::option::weighted(0.4, 0u8..3)).prop_map(move |(kl, m, ms)| {
                let mut rq = default_rq.clone();
                rq.keep_last = kl;
                rq.mspi = match (kl, m) {
                    (Some(d), 0) => Some(d),
                    (Some(d), 1) => Some(d + 1),
                    _ => None,
                };
                // a finite max_samples that the history fills exactly (d, 2d or 3d): a replacement at a full
                // reader must still be a replacement (needs a limited max_samples_per_instance <= max_samples)
                if let (Some(d), Some(k)) = (kl, ms) {
                    let total = d * (k + 1);
                    rq.max_samples = Some(total);
                    rq.mspi = Some(rq.mspi.unwrap_or(d).min(total));
                }
                rq
            });
            (rq, 1usize..3)
                .prop_flat_map(move |(rq, nw)| {
                    let nwb = nw as u8;
                    // 1 case in 4: dispose/unregister notifications among the writes, KEEP_LAST without other limits.
                    // Whether a notification counts towards the depth is not stated (dust-dds' own unit tests demand
                    // that a dispose at depth evicts a data sample), so these cases are judged by an invariant only:
                    // never more than depth data samples per instance, and only from the last depth written ones.
                    let plain = prop_oneof![
                        6 => write_op(nw as u8, 3, false),
                        1 => any::<bool>().prop_map(read_any),
                    ];
                    let lifecycle = prop_oneof![
                        8 => write_op(nw as u8, 3, false),
                        1 => (0..nwb, 0u8..3).prop_map(|(w, inst)| Op::Dispose { w, inst }),
                        1 => (0..nwb, 0u8..3).prop_map(|(w, inst)| Op::Unregister { w, inst }),
                        2 => any::<bool>().prop_map(read_any),
                    ];
                    let lrq = RQ { keep_last: Some(rq.keep_last.unwrap_or(2)), max_samples: None, mspi: None, ..rq.clone() };
                    prop_oneof![
                        3 => (Just(rq), Just(ws1(nw)), prop::collection::vec(plain, 5..max_ops)),
                        1 => (Just(lrq), Just(ws1(nw)), prop::collection::vec(lifecycle, 5..max_ops)),
                    ]
                })
                .prop_map(move |(rq, writers, ops)| CacheCase { prop: prop.into(), rq, writers, ops, wlim: None })
                .boxed()
        }
        "C19" => {
            let drq = default_rq.clone();
            let rq = (prop::option::weighted(0.4, 1u8..4), prop::option::weighted(0.6, 1u8..5), prop::option::weighted(0.5, 1u8..4), prop::option::weighted(0.5, 1u8..4))
                .prop_map(move |(kl, ms, mi, mspi)| {
                    let mut rq = default_rq.clone();
                    rq.keep_last = kl;
                    rq.max_instances = mi;
                    // consistency: depth <= mspi <= max_samples
                    rq.mspi = match (kl, mspi) {
                        (Some(d), Some(m)) => Some(m.max(d)),
                        (_, m) => m,
                    };
                    // max_samples limited => max_samples_per_instance limited and <= max_samples
                    if let Some(s) = ms {
                        let floor = kl.unwrap_or(1);
                        let s = s.max(floor);
                        rq.mspi = Some(rq.mspi.unwrap_or(s).min(s).max(floor));
                        rq.max_samples = Some(s);
                    }
                    rq
                });
            let reader_side = (rq, 1usize..3)
                .prop_flat_map(move |(rq, nw)| {
                    let nwb = nw as u8;
                    let plain = prop_oneof![
                        6 => write_op(nw as u8, 5, false),
                        1 => any::<bool>().prop_map(read_any),
                    ];
                    // 1 case in 4 mixes dispose/unregister in; whether an instance held only through such a
                    // notification occupies a max_instances slot is not modelled, so these cases are judged by the
                    // invariant of the statement alone: what a read(ANY) returns never exceeds any limit
                    let lifecycle = prop_oneof![
                        8 => write_op(nw as u8, 5, false),
                        1 => (0..nwb, 0u8..5).prop_map(|(w, inst)| Op::Dispose { w, inst }),
                        1 => (0..nwb, 0u8..5).prop_map(|(w, inst)| Op::Unregister { w, inst }),
                        3 => any::<bool>().prop_map(read_any),
                    ];
                    prop_oneof![
                        3 => (Just(rq.clone()), Just(ws1(nw)), prop::collection::vec(plain, 5..max_ops)),
                        1 => (Just(rq), Just(ws1(nw)), prop::collection::vec(lifecycle, 5..max_ops)),
                    ]
                })
                .prop_map(move |(rq, writers, ops)| CacheCase { prop: prop.into(), rq, writers, ops, wlim: None });
            let writer_side = (
                prop::option::weighted(0.6, 1u8..6),
                prop::option::weighted(0.5, 1u8..4),
                prop::option::weighted(0.5, 1u8..4),
                any::<bool>(),
                prop::collection::vec(
                    prop_oneof![
                        8 => write_op(1, 5, false),
                        1 => (0u8..5).prop_map(|inst| Op::Unregister { w: 0, inst }),
                        1 => (0u8..5).prop_map(|inst| Op::Dispose { w: 0, inst }),
                    ],
                    3..20,
                ),
            )
                .prop_map(move |(ms, mi, mspi, partitioned, ops)| {
                    // consistency: max_samples limited => max_samples_per_instance limited and <= max_samples
                    let (ms, mspi) = match (ms, mspi) {
                        (Some(s), m) => (Some(s), Some(m.unwrap_or(s).min(s))),
                        (None, m) => (None, m),
                    };
                    CacheCase {
                        prop: prop.into(),
                        rq: drq.clone(),
                        writers: vec![WS { strength: 0, autodispose: true }],
                        ops,
                        wlim: Some(WLim { max_samples: ms, max_instances: mi, mspi, partitioned }),
                    }
                });
            prop_oneof![3 => reader_side, 1 => writer_side].boxed()
        }
        "C21" => {
            let mut rq = default_rq.clone();
            rq.by_source = true;
            (1usize..3)
                .prop_flat_map(move |nw| {
                    let op = prop_oneof![
                        6 => write_op(nw as u8, 2, true),
                        1 => any::<bool>().prop_map(read_any),
                    ];
                    (Just(rq.clone()), Just(ws1(nw)), prop::collection::vec(op, 4..max_ops))
                })
                .prop_map(move |(rq, writers, ops)| CacheCase { prop: prop.into(), rq, writers, ops, wlim: None })
                .boxed()
        }
        "C25" => {
            let seps = prop_oneof![Just(5u32), Just(51), Just(128), Just(512)];
            (seps, 1usize..3)
                .prop_flat_map(move |(sep, nw)| {
                    let mut rq = default_rq.clone();
                    rq.min_sep_ms = sep;
                    let op = prop_oneof![
                        6 => write_op(nw as u8, 2, true),
                        2 => any::<bool>().prop_map(read_any),
                        1 => (1u16..400).prop_map(|ms| Op::Advance { ms }),
                    ];
                    (Just(rq), Just(ws1(nw)), prop::collection::vec(op, 4..max_ops))
                })
                .prop_map(move |(rq, writers, ops)| CacheCase { prop: prop.into(), rq, writers, ops, wlim: None })
                .boxed()
        }
        "C24" => {
            let mut rq = default_rq.clone();
            rq.exclusive = true;
            (2usize..4, any::<bool>(), prop::bool::weighted(0.3))
                .prop_flat_map(move |(nw, autod, tbf)| {
                    let ws: Vec<WS> = (0..nw).map(|i| WS { strength: (i as i32) * 10, autodispose: autod }).collect();
                    let nwb = nw as u8;
                    // with a time-based filter (invariant oracle, see oracle_c24_filtered): a sample of the stronger
                    // writer that the filter drops still makes that writer the owner
                    let mut rq = rq.clone();
                    if tbf {
                        rq.min_sep_ms = 51;
                    }
                    let op = prop_oneof![
                        8 => write_op(nwb, 2, tbf),
                        1 => (0..nwb, 0u8..2).prop_map(|(w, inst)| Op::Dispose { w, inst }),
                        2 => (0..nwb, 0u8..2).prop_map(|(w, inst)| Op::Unregister { w, inst }),
                        1 => (0..nwb).prop_map(|w| Op::DeleteWriter { w }),
                        2 => any::<bool>().prop_map(read_any),
                    ];
                    (Just(rq.clone()), Just(ws), prop::collection::vec(op, 5..max_ops))
                })
                .prop_map(move |(rq, writers, ops)| CacheCase { prop: prop.into(), rq, writers, ops, wlim: None })
                .boxed()
        }
        // C20, C22, C23: lifecycle ops; C20/C23 with generated masks
        _ => (1usize..3, any::<bool>())
            .prop_flat_map(move |(nw, autod)| {
                let ws: Vec<WS> = (0..nw).map(|i| WS { strength: i as i32, autodispose: autod }).collect();
                let nwb = nw as u8;
                let ni: u8 = if prop == "C23" { 5 } else { 3 };
                let lifecycle_w = if prop == "C22" { 3 } else { 1 };
                let reads: BoxedStrategy<Op> = match prop {
                    "C22" => any::<bool>().prop_map(read_any).boxed(),
                    "C23" => prop_oneof![3 => next_op(ni), 1 => masked_read(ni)].boxed(),
                    _ => prop_oneof![4 => masked_read(ni), 1 => any::<bool>().prop_map(read_any)].boxed(),
                };
                let op = prop_oneof![
                    6 => write_op(nwb, ni, false),
                    lifecycle_w => (0..nwb, 0..ni).prop_map(|(w, inst)| Op::Dispose { w, inst }),
                    lifecycle_w => (0..nwb, 0..ni).prop_map(|(w, inst)| Op::Unregister { w, inst }),
                    4 => reads,
                ];
                (Just(default_rq.clone()), Just(ws), prop::collection::vec(op, 5..max_ops))
            })
            .prop_map(move |(rq, writers, ops)| CacheCase { prop: prop.into(), rq, writers, ops, wlim: None })
            .boxed(),
    }
}

// ------------------------------------------------------------------------------------------
// reference model

#[derive(Clone, Copy, Debug, PartialEq, Eq, Serialize, Deserialize)]
pub enum IS {
    Alive,
    Disposed,
    NoWriters,
}

#[derive(Clone, Debug)]
struct MS {
    inst: u8,
    w: u8,
    seq: u32,
    ts: (i32, u32),
    read: bool,
    dgen: i32,
    ngen: i32,
}

#[derive(Clone, Debug)]
struct MI {
    state: IS,
    view_new: bool,
    dgen: i32,
    ngen: i32,
    live: BTreeSet<u8>,
    /// instance/view state no longer asserted (writer deletion, or hand-over after a non-autodispose
    /// unregister under exclusive ownership: the property texts do not fix the resulting state)
    uncertain: bool,
}

#[derive(Clone, Debug, PartialEq, Eq)]
enum Drop {
    Stored,
    Rejected(Vec<&'static str>),
    OwnershipIgnored,
}

struct Model {
    rq: RQ,
    ws: Vec<WS>,
    samples: Vec<MS>,
    insts: BTreeMap<u8, MI>,
    /// per writer: instances registered at the writer
    registered: Vec<BTreeSet<u8>>,
    deleted: Vec<bool>,
    rejected_total: i32,
    last_rejected: Option<(u8, Vec<&'static str>)>,
    /// instances whose owner unregistered or was deleted at some point (exclusive ownership)
    handover: BTreeSet<u8>,
}

impl Model {
    fn new(c: &CacheCase) -> Self {
        Model {
            rq: c.rq.clone(),
            ws: c.writers.clone(),
            samples: vec![],
            insts: BTreeMap::new(),
            registered: vec![BTreeSet::new(); c.writers.len()],
            deleted: vec![false; c.writers.len()],
            rejected_total: 0,
            last_rejected: None,
            handover: BTreeSet::new(),
        }
    }

    fn owner(&self, inst: u8, candidate: u8) -> u8 {
        // strongest among live writers of the instance and the candidate
        let mut best = candidate;
        if let Some(mi) = self.insts.get(&inst) {
            for w in &mi.live {
                if self.ws[*w as usize].strength > self.ws[best as usize].strength {
                    best = *w;
                }
            }
        }
        best
    }

    fn on_write(&mut self, w: u8, inst: u8, seq: u32, ts: (i32, u32)) -> Drop {
        self.registered[w as usize].insert(inst);
        if self.rq.exclusive && self.owner(inst, w) != w {
            // weaker than the current owner: ignored entirely, but it is a live writer of the instance
            if let Some(mi) = self.insts.get_mut(&inst) {
                mi.live.insert(w);
            }
            return Drop::OwnershipIgnored;
        }
        // limits are decided before the instance state changes (a rejected sample changes nothing)
        let n_inst = self.samples.iter().filter(|s| s.inst == inst).count();
        let n_total = self.samples.len();
        let known_instances: BTreeSet<u8> = self.samples.iter().map(|s| s.inst).collect();
        let mut replace = false;
        if let Some(d) = self.rq.keep_last {
            if n_inst >= d as usize {
                replace = true;
            }
        }
        if !replace {
            let mut reasons = vec![];
            if let Some(m) = self.rq.max_samples {
                if n_total >= m as usize {
                    reasons.push("samples");
                }
            }
            if let Some(m) = self.rq.max_instances {
                if !known_instances.contains(&inst) && known_instances.len() >= m as usize {
                    reasons.push("instances");
                }
            }
            if let Some(m) = self.rq.mspi {
                if n_inst >= m as usize {
                    reasons.push("samples_per_instance");
                }
            }
            if !reasons.is_empty() {
                self.rejected_total += 1;
                self.last_rejected = Some((inst, reasons.clone()));
                return Drop::Rejected(reasons);
            }
        }
        // instance life cycle
        let mi = self.insts.entry(inst).or_insert(MI {
            state: IS::Alive,
            view_new: true,
            dgen: 0,
            ngen: 0,
            live: BTreeSet::new(),
            uncertain: false,
        });
        match mi.state {
            IS::Alive => {}
            IS::Disposed => {
                mi.state = IS::Alive;
                mi.dgen += 1;
                mi.view_new = true;
            }
            IS::NoWriters => {
                mi.state = IS::Alive;
                mi.ngen += 1;
                mi.view_new = true;
            }
        }
        mi.live.insert(w);
        let (dgen, ngen) = (mi.dgen, mi.ngen);
        if replace {
            let pos = self.samples.iter().position(|s| s.inst == inst).unwrap();
            self.samples.remove(pos);
        }
        let ms = MS { inst, w, seq, ts, read: false, dgen, ngen };
        if self.rq.by_source {
            // per instance non-decreasing source timestamp, ties in arrival order; position among other
            // instances is not prescribed: insert after the last sample of this instance with ts <= new ts,
            // or before the first sample of this instance with a larger ts
            let mut pos = None;
            for (i, s) in self.samples.iter().enumerate() {
                if s.inst == inst && s.ts > ts {
                    pos = Some(i);
                    break;
                }
            }
            match pos {
                Some(i) => self.samples.insert(i, ms),
                None => self.samples.push(ms),
            }
        } else {
            self.samples.push(ms);
        }
        Drop::Stored
    }

    /// returns false when the op is outside the modelled domain (must not be executed)
    fn can_dispose(&self, w: u8, inst: u8) -> bool {
        if self.deleted[w as usize] || !self.registered[w as usize].contains(&inst) {
            return false;
        }
        match self.insts.get(&inst) {
            // the reader never accepted a sample of this instance: behaviour not modelled
            None => false,
            Some(mi) => mi.state != IS::NoWriters,
        }
    }

    fn on_dispose(&mut self, w: u8, inst: u8) {
        if self.rq.exclusive && self.owner(inst, w) != w {
            return;
        }
        if let Some(mi) = self.insts.get_mut(&inst) {
            if mi.state == IS::Alive {
                mi.state = IS::Disposed;
            }
        }
    }

    fn can_unregister(&self, w: u8, inst: u8) -> bool {
        !self.deleted[w as usize] && self.registered[w as usize].contains(&inst) && self.insts.contains_key(&inst)
    }

    fn on_unregister(&mut self, w: u8, inst: u8) {
        self.registered[w as usize].remove(&inst);
        let is_owner = !self.rq.exclusive || self.owner(inst, w) == w;
        if self.rq.exclusive && is_owner {
            self.handover.insert(inst);
        }
        let autod = self.ws[w as usize].autodispose;
        if let Some(mi) = self.insts.get_mut(&inst) {
            mi.live.remove(&w);
            if !is_owner {
                return;
            }
            if autod {
                if mi.state == IS::Alive {
                    mi.state = IS::Disposed;
                }
            } else if mi.live.is_empty() && mi.state == IS::Alive {
                mi.state = IS::NoWriters;
            }
        }
    }

    fn matching(&self, ss: u8, vs: u8, is: u8, inst: Option<u8>) -> Vec<usize> {
        self.samples
            .iter()
            .enumerate()
            .filter(|(_, s)| {
                let mi = &self.insts[&s.inst];
                let ss_ok = if s.read { ss & 1 != 0 } else { ss & 2 != 0 };
                let vs_ok = if mi.view_new { vs & 1 != 0 } else { vs & 2 != 0 };
                let is_ok = match mi.state {
                    IS::Alive => is & 1 != 0,
                    IS::Disposed => is & 2 != 0,
                    IS::NoWriters => is & 4 != 0,
                };
                ss_ok && vs_ok && is_ok && inst.map(|i| i == s.inst).unwrap_or(true)
            })
            .map(|(i, _)| i)
            .collect()
    }
}

// ------------------------------------------------------------------------------------------
// observation of the implementation

#[derive(Clone, Debug, Serialize, Deserialize)]
pub struct SObs {
    pub valid: bool,
    pub id: Option<u8>,
    pub seq: Option<u32>,
    pub read: bool,
    pub view_new: bool,
    pub istate: IS,
    pub dgen: i32,
    pub ngen: i32,
    pub srank: i32,
    pub grank: i32,
    pub agrank: i32,
    pub ts: Option<(i32, u32)>,
    pub ih: [u8; 16],
    pub ph: [u8; 16],
}

fn obs_of(s: &Sample<KeyedData>) -> SObs {
    let i = &s.sample_info;
    SObs {
        valid: i.valid_data,
        id: s.data.as_ref().map(|d| d.id),
        seq: s.data.as_ref().map(|d| d.seq),
        read: i.sample_state == SampleStateKind::Read,
        view_new: i.view_state == ViewStateKind::New,
        istate: match i.instance_state {
            InstanceStateKind::Alive => IS::Alive,
            InstanceStateKind::NotAliveDisposed => IS::Disposed,
            InstanceStateKind::NotAliveNoWriters => IS::NoWriters,
        },
        dgen: i.disposed_generation_count,
        ngen: i.no_writers_generation_count,
        srank: i.sample_rank,
        grank: i.generation_rank,
        agrank: i.absolute_generation_rank,
        ts: i.source_timestamp.map(|t| (t.sec(), t.nanosec())),
        ih: i.instance_handle.into(),
        ph: i.publication_handle.into(),
    }
}

fn ss_mask(m: u8) -> Vec<SampleStateKind> {
    let mut v = vec![];
    if m & 1 != 0 {
        v.push(SampleStateKind::Read);
    }
    if m & 2 != 0 {
        v.push(SampleStateKind::NotRead);
    }
    v
}
fn vs_mask(m: u8) -> Vec<ViewStateKind> {
    let mut v = vec![];
    if m & 1 != 0 {
        v.push(ViewStateKind::New);
    }
    if m & 2 != 0 {
        v.push(ViewStateKind::NotNew);
    }
    v
}
fn is_mask(m: u8) -> Vec<InstanceStateKind> {
    let mut v = vec![];
    if m & 1 != 0 {
        v.push(InstanceStateKind::Alive);
    }
    if m & 2 != 0 {
        v.push(InstanceStateKind::NotAliveDisposed);
    }
    if m & 4 != 0 {
        v.push(InstanceStateKind::NotAliveNoWriters);
    }
    v
}

fn handle_of(inst: u8) -> [u8; 16] {
    let d = KeyedData { id: inst, seq: 0, blob: vec![] }.create_dynamic_sample();
    dust_dds::verif_hooks::instance_handle(&d).expect("key handle").into()
}

/// A mismatch between implementation and model: (kind, detail)
type Mismatch = (&'static str, String);

/// Which sub-oracle kinds a property owns (others stop the case without verdict).
fn owns(prop: &str, kind: &str) -> Option<&'static str> {
    let t: &[(&str, &str)] = match prop {
        "C18" => &[("set", "history"), ("rejected", "history"), ("nodata", "history")],
        "C19" => &[("set", "limits"), ("rejected", "limits"), ("nodata", "limits"), ("holdings", "limits")],
        "C20" => &[
            ("set", "select"),
            ("nodata", "select"),
            ("order", "order"),
            ("grouping", "grouping"),
            ("sample_state", "sample-state"),
            ("rank", "rank"),
            ("info", "info"),
            ("mask", "mask"),
        ],
        "C21" => &[("order", "order")],
        "C22" => &[("lifecycle_istate", "lifecycle"), ("lifecycle_view", "lifecycle"), ("lifecycle_gen", "lifecycle")],
        "C23" => &[("next", "next"), ("set", "next-set"), ("nodata", "next-nodata")],
        "C24" => &[("set", "ownership"), ("lifecycle_istate", "ownership-state"), ("nodata", "ownership")],
        _ => &[],
    };
    t.iter().find(|(k, _)| *k == kind).map(|(_, c)| *c)
}

#[derive(Clone, Default)]
struct RejRec(std::sync::Arc<std::sync::Mutex<Vec<(i32, i32, SampleRejectedStatusKind, [u8; 16])>>>);

impl dust_dds::dds_async::data_reader_listener::DataReaderListener<KeyedData> for RejRec {
    fn on_sample_rejected(
        &mut self,
        _r: DataReaderAsync<KeyedData>,
        status: dust_dds::infrastructure::status::SampleRejectedStatus,
    ) -> impl std::future::Future<Output = ()> + Send {
        self.0.lock().unwrap().push((
            status.total_count,
            status.total_count_change,
            status.last_reason,
            status.last_instance_handle.into(),
        ));
        core::future::ready(())
    }
}

struct Env {
    rej: RejRec,
    reader: DataReaderAsync<KeyedData>,
    writers: Vec<Option<DataWriterAsync<KeyedData>>>,
    writer_handles: Vec<[u8; 16]>,
    handles: BTreeMap<u8, [u8; 16]>,
    base: u64,
}

#[derive(Default, Serialize, Deserialize, Clone, Debug)]
pub struct Outcome {
    pub setup_error: Option<String>,
    /// first mismatch owned by the property: (signature, explanation)
    pub verdict: Option<(String, String)>,
    pub stopped_foreign: Option<String>,
    pub ops_done: usize,
    pub classes: Vec<String>,
    pub nontrivial: bool,
    /// C25: all presented (inst, seq, ts in ticks); all written (inst, seq, ts in ticks)
    pub presented: Vec<(u8, u32, i64)>,
    pub written: Vec<(u8, u32, i64)>,
    /// C25: seq -> op index at which the sample was written / taken out of the reader
    pub written_at: BTreeMap<u32, usize>,
    pub taken_at: BTreeMap<u32, usize>,
    /// C24 with a time-based filter: seqs written while a strictly stronger writer was registered for the
    /// instance (must never be presented), with "an owner of the instance had left before" per seq
    #[serde(default)]
    pub must_ignore: BTreeMap<u32, bool>,
}

/// 5^9 ns: the granularity at which a nanosecond value is exactly representable as an RTPS 2^-32 s
/// fraction, so explicit timestamps survive the wire conversion whatever rounding it uses (C14's business)
pub const TICK: u64 = 1_953_125;

fn time_of(base: u64, off_ticks: u64) -> Time {
    let ns = base + off_ticks * TICK;
    Time::new((ns / 1_000_000_000) as i32, (ns % 1_000_000_000) as u32)
}

async fn scenario(c: CacheCase) -> Outcome {
    let mut out = Outcome::default();
    let prop = c.prop.clone();
    let f = factory();
    // reader side
    let pr = f.create_participant(0, QosKind::Default, NO_LISTENER, NO_STATUS).await.unwrap();
    let tr = pr
        .create_topic::<KeyedData>("T", "KeyedData", QosKind::Default, NO_LISTENER, NO_STATUS)
        .await
        .unwrap();
    let sub = pr.create_subscriber(QosKind::Default, NO_LISTENER, NO_STATUS).await.unwrap();
    let lim = |v: Option<u8>| v.map(|x| Length::Limited(x as i32)).unwrap_or(Length::Unlimited);
    let rq = DataReaderQos {
        reliability: ReliabilityQosPolicy { kind: ReliabilityQosPolicyKind::Reliable, max_blocking_time: dk_ms(100) },
        history: HistoryQosPolicy {
            kind: match c.rq.keep_last {
                None => HistoryQosPolicyKind::KeepAll,
                Some(d) => HistoryQosPolicyKind::KeepLast(d as u32),
            },
        },
        resource_limits: ResourceLimitsQosPolicy {
            max_samples: lim(c.rq.max_samples),
            max_instances: lim(c.rq.max_instances),
            max_samples_per_instance: lim(c.rq.mspi),
        },
        destination_order: DestinationOrderQosPolicy {
            kind: if c.rq.by_source {
                DestinationOrderQosPolicyKind::BySourceTimestamp
            } else {
                DestinationOrderQosPolicyKind::ByReceptionTimestamp
            },
        },
        ownership: OwnershipQosPolicy {
            kind: if c.rq.exclusive { OwnershipQosPolicyKind::Exclusive } else { OwnershipQosPolicyKind::Shared },
        },
        time_based_filter: TimeBasedFilterQosPolicy {
            minimum_separation: DurationKind::Finite({
                let ns = c.rq.min_sep_ms as u64 * TICK;
                dust_dds::infrastructure::time::Duration::new((ns / 1_000_000_000) as i32, (ns % 1_000_000_000) as u32)
            }),
        },
        ..Default::default()
    };
    let rej = RejRec::default();
    let reader = match sub
        .create_datareader::<KeyedData>(
            &tr,
            QosKind::Specific(rq),
            Some(rej.clone()),
            &[dust_dds::infrastructure::status::StatusKind::SampleRejected],
        )
        .await
    {
        Ok(r) => r,
        Err(e) => {
            out.setup_error = Some(format!("create_datareader failed: {e:?}"));
            return out;
        }
    };
    let mut keep = vec![];
    let mut writers = vec![];
    let mut writer_handles = vec![];
    for ws in &c.writers {
        let pw = f.create_participant(0, QosKind::Default, NO_LISTENER, NO_STATUS).await.unwrap();
        let tw = pw
            .create_topic::<KeyedData>("T", "KeyedData", QosKind::Default, NO_LISTENER, NO_STATUS)
            .await
            .unwrap();
        let publ = pw.create_publisher(QosKind::Default, NO_LISTENER, NO_STATUS).await.unwrap();
        let wq = DataWriterQos {
            reliability: ReliabilityQosPolicy { kind: ReliabilityQosPolicyKind::Reliable, max_blocking_time: dk_ms(100) },
            history: HistoryQosPolicy { kind: HistoryQosPolicyKind::KeepAll },
            destination_order: DestinationOrderQosPolicy {
                kind: if c.rq.by_source {
                    DestinationOrderQosPolicyKind::BySourceTimestamp
                } else {
                    DestinationOrderQosPolicyKind::ByReceptionTimestamp
                },
            },
            ownership: OwnershipQosPolicy {
                kind: if c.rq.exclusive { OwnershipQosPolicyKind::Exclusive } else { OwnershipQosPolicyKind::Shared },
            },
            ownership_strength: OwnershipStrengthQosPolicy { value: ws.strength },
            writer_data_lifecycle: WriterDataLifecycleQosPolicy { autodispose_unregistered_instances: ws.autodispose },
            ..Default::default()
        };
        let w = publ
            .create_datawriter::<KeyedData>(&tw, QosKind::Specific(wq), NO_LISTENER, NO_STATUS)
            .await
            .unwrap();
        writer_handles.push(w.get_instance_handle().into());
        writers.push(Some(w));
        keep.push((pw, tw, publ));
    }
    let nw = c.writers.len() as i32;
    let matched = wait_until(20_000, 10, || async {
        let mut ok = reader.get_subscription_matched_status().await.map(|s| s.current_count == nw).unwrap_or(false);
        for w in writers.iter().flatten() {
            ok &= w.get_publication_matched_status().await.map(|s| s.current_count == 1).unwrap_or(false);
        }
        ok
    })
    .await;
    if !matched {
        out.setup_error = Some("reader and writers did not match within 20 s".into());
        return out;
    }
    exec::sleep_ms(100).await;
    let mut env = Env { rej, reader, writers, writer_handles, handles: BTreeMap::new(), base: exec::now_ns().div_ceil(TICK) * TICK };
    for i in 0..8u8 {
        env.handles.insert(i, handle_of(i));
    }
    let mut model = Model::new(&c);
    let mut seq = 0u32;
    let c25 = prop == "C25";
    // C24 with a time-based filter: no exact model of the filter; life cycle bookkeeping only, invariant oracle
    let inv24 = prop == "C24" && c.rq.min_sep_ms > 0;
    // C18 with dispose/unregister among the ops: invariant oracle on the data samples (see the generator)
    let inv18 = prop == "C18" && c.ops.iter().any(|o| matches!(o, Op::Dispose { .. } | Op::Unregister { .. }));
    // C19 reader side with dispose/unregister among the ops: invariant oracle on what a read returns
    let inv19 = prop == "C19" && c.ops.iter().any(|o| matches!(o, Op::Dispose { .. } | Op::Unregister { .. }));
    let mut classes: BTreeSet<String> = BTreeSet::new();
    let mut all_ops = c.ops.clone();
    all_ops.push(read_any(true));
    'ops: for (opi, op) in all_ops.iter().enumerate() {
        out.ops_done = opi;
        let mut mismatch: Option<Mismatch> = None;
        match op {
            Op::Advance { ms } => exec::sleep_ms(*ms as u64).await,
            Op::Write { w, inst, ts } => {
                if model.deleted[*w as usize] {
                    continue;
                }
                seq += 1;
                let off = ts.map(|t| t as u64).unwrap_or(exec::now_ns().saturating_sub(env.base) / TICK);
                let t = time_of(env.base, off);
                let wr = env.writers[*w as usize].as_ref().unwrap();
                let r = wr
                    .write_w_timestamp(KeyedData { id: *inst, seq, blob: vec![*inst; 3] }, None, t)
                    .await;
                if r.is_err() {
                    out.setup_error = Some(format!("write failed unexpectedly: {r:?}"));
                    break 'ops;
                }
                exec::sleep_ms(2).await;
                out.written.push((*inst, seq, off as i64));
                out.written_at.insert(seq, opi);
                if inv18 {
                    let _ = model.on_write(*w, *inst, seq, (t.sec(), t.nanosec()));
                    classes.insert("lifecycle_notifications_with_keep_last".into());
                    continue;
                }
                if inv19 {
                    if let Drop::Rejected(rs) = model.on_write(*w, *inst, seq, (t.sec(), t.nanosec())) {
                        classes.insert(format!("rejected:{}", rs.join("+")));
                    }
                    classes.insert("lifecycle_notifications_with_resource_limits".into());
                    continue;
                }
                if inv24 {
                    let stronger_registered = (0..model.ws.len()).any(|w2| {
                        model.ws[w2].strength > model.ws[*w as usize].strength && model.registered[w2].contains(inst) && !model.deleted[w2]
                    });
                    if stronger_registered {
                        out.must_ignore.insert(seq, model.handover.contains(inst));
                        classes.insert("ownership_ignored".into());
                    }
                    let _ = model.on_write(*w, *inst, seq, (t.sec(), t.nanosec()));
                    continue;
                }
                if !c25 {
                    // Tolerance (Appendix A.4): a KEEP_LAST replacement while the reader sits at max_samples may
                    // be carried out or rejected; follow what the implementation did.
                    let n_inst = model.samples.iter().filter(|s| s.inst == *inst).count();
                    let ambiguous = matches!(model.rq.keep_last, Some(d) if n_inst >= d as usize)
                        && matches!(model.rq.max_samples, Some(m) if model.samples.len() >= m as usize)
                        && !(model.rq.exclusive && model.owner(*inst, *w) != *w);
                    if ambiguous {
                        classes.insert("replacement_at_max_samples".into());
                        let seen = env.rej.0.lock().unwrap().len() as i32;
                        if seen == model.rejected_total + 1 {
                            model.registered[*w as usize].insert(*inst);
                            model.rejected_total += 1;
                            model.last_rejected = Some((*inst, vec!["samples"]));
                            mismatch = check_rejected(&env, &model).await;
                            if mismatch.is_none() {
                                continue;
                            }
                        }
                    }
                    let d = if mismatch.is_some() { Drop::Stored } else { model.on_write(*w, *inst, seq, (t.sec(), t.nanosec())) };
                    match &d {
                        Drop::Rejected(rs) => {
                            classes.insert(format!("rejected:{}", rs.join("+")));
                        }
                        Drop::OwnershipIgnored => {
                            classes.insert("ownership_ignored".into());
                        }
                        Drop::Stored => {}
                    }
                    if model.rq.keep_last.is_some() && model.rq.keep_last == model.rq.mspi {
                        classes.insert("depth_eq_mspi".into());
                    }
                    if mismatch.is_none() && (prop == "C18" || prop == "C19") {
                        mismatch = check_rejected(&env, &model).await;
                    }
                }
            }
            Op::Dispose { w, inst } => {
                if c25 || !model.can_dispose(*w, *inst) {
                    continue;
                }
                let wr = env.writers[*w as usize].as_ref().unwrap();
                let r = wr.dispose(KeyedData { id: *inst, seq: 0, blob: vec![] }, None).await;
                if r.is_err() {
                    out.setup_error = Some(format!("dispose failed unexpectedly: {r:?}"));
                    break 'ops;
                }
                exec::sleep_ms(2).await;
                model.on_dispose(*w, *inst);
                classes.insert("dispose".into());
            }
            Op::Unregister { w, inst } => {
                if c25 || !model.can_unregister(*w, *inst) {
                    continue;
                }
                let wr = env.writers[*w as usize].as_ref().unwrap();
                let r = wr.unregister_instance(KeyedData { id: *inst, seq: 0, blob: vec![] }, None).await;
                if r.is_err() {
                    out.setup_error = Some(format!("unregister failed unexpectedly: {r:?}"));
                    break 'ops;
                }
                exec::sleep_ms(2).await;
                model.on_unregister(*w, *inst);
                if model.rq.exclusive && !model.ws[*w as usize].autodispose {
                    model.insts.get_mut(inst).unwrap().uncertain = true;
                }
                classes.insert("unregister".into());
            }
            Op::DeleteWriter { w } => {
                if model.deleted[*w as usize] || model.deleted.iter().filter(|d| !**d).count() <= 1 {
                    continue;
                }
                let wr = env.writers[*w as usize].take().unwrap();
                let r = wr.get_publisher().delete_datawriter(&wr).await;
                if r.is_err() {
                    out.setup_error = Some(format!("delete_datawriter failed unexpectedly: {r:?}"));
                    break 'ops;
                }
                exec::sleep_ms(300).await;
                model.deleted[*w as usize] = true;
                let insts: Vec<u8> = model.registered[*w as usize].iter().copied().collect();
                for i in insts {
                    if model.insts.contains_key(&i) {
                        model.on_unregister(*w, i);
                        model.insts.get_mut(&i).unwrap().uncertain = true;
                    }
                }
                classes.insert("delete_writer".into());
            }
            Op::Read { take, max, ss, vs, is, inst } => {
                let maxs = if *max == 0 { i32::MAX } else { *max as i32 };
                let r = match inst {
                    None => {
                        if *take {
                            env.reader.take(maxs, &ss_mask(*ss), &vs_mask(*vs), &is_mask(*is)).await
                        } else {
                            env.reader.read(maxs, &ss_mask(*ss), &vs_mask(*vs), &is_mask(*is)).await
                        }
                    }
                    Some(i) => {
                        let h = InstanceHandle::new(env.handles[i]);
                        if *take {
                            env.reader.take_instance(maxs, h, &ss_mask(*ss), &vs_mask(*vs), &is_mask(*is)).await
                        } else {
                            env.reader.read_instance(maxs, h, &ss_mask(*ss), &vs_mask(*vs), &is_mask(*is)).await
                        }
                    }
                };
                if inv19 {
                    if let Ok(samples) = &r {
                        let mut insts: BTreeSet<[u8; 16]> = BTreeSet::new();
                        let mut per: BTreeMap<u8, usize> = BTreeMap::new();
                        let mut data = 0usize;
                        for s in samples {
                            // instances are counted over data samples: whether an instance held only through a
                            // dispose/unregister notification occupies a max_instances slot is not stated (the
                            // unchanged tree stores such a notification beyond max_instances)
                            if s.data.is_some() {
                                insts.insert(s.sample_info.instance_handle.into());
                            }
                            if let Some(dt) = &s.data {
                                *per.entry(dt.id).or_default() += 1;
                                data += 1;
                            }
                        }
                        let over = if c.rq.max_instances.map(|m| insts.len() > m as usize).unwrap_or(false) {
                            Some(("max_instances", format!("{} instances (limit {})", insts.len(), c.rq.max_instances.unwrap())))
                        } else if c.rq.max_samples.map(|m| data > m as usize).unwrap_or(false) {
                            Some(("max_samples", format!("{data} data samples (limit {})", c.rq.max_samples.unwrap())))
                        } else if let (Some(m), Some((i, n))) = (c.rq.mspi, per.iter().max_by_key(|(_, n)| **n)) {
                            if *n > m as usize { Some(("max_samples_per_instance", format!("{n} data samples of instance {i} (limit {m})"))) } else { None }
                        } else {
                            None
                        };
                        if let Some((which, what)) = over {
                            out.verdict = Some((format!("C19:limits:holds-more-than-{which}"), format!("op #{opi}: one read(ANY) returned {what} (history with dispose/unregister notifications)")));
                            break 'ops;
                        }
                    }
                    continue;
                }
                if inv18 {
                    if let (Ok(samples), Some(d)) = (&r, c.rq.keep_last) {
                        let mut per: BTreeMap<u8, Vec<u32>> = BTreeMap::new();
                        for s in samples {
                            if let Some(dt) = &s.data {
                                per.entry(dt.id).or_default().push(dt.seq);
                            }
                        }
                        for (i, seqs) in per {
                            let written: Vec<u32> = out.written.iter().filter(|w| w.0 == i).map(|w| w.1).collect();
                            let recent: Vec<u32> = written.iter().rev().take(d as usize).copied().collect();
                            if seqs.len() > d as usize {
                                out.verdict = Some(("C18:history:more-than-depth-data-samples".into(), format!("op #{opi}: KEEP_LAST({d}) reader returned {} data samples of instance {i}: {seqs:?} (history with dispose/unregister notifications)", seqs.len())));
                                break 'ops;
                            }
                            if seqs.iter().any(|q| !recent.contains(q)) || seqs.windows(2).any(|p| p[0] >= p[1]) {
                                out.verdict = Some(("C18:history:not-the-most-recent-data-samples".into(), format!("op #{opi}: KEEP_LAST({d}) reader returned data samples {seqs:?} of instance {i}; the last {d} written are {recent:?}")));
                                break 'ops;
                            }
                        }
                    }
                    continue;
                }
                if c25 || inv24 {
                    if let Ok(samples) = &r {
                        for s in samples {
                            if let (Some(d), Some(t)) = (&s.data, s.sample_info.source_timestamp) {
                                let ns = t.sec() as i64 * 1_000_000_000 + t.nanosec() as i64;
                                let rec = (d.id, d.seq, (ns - env.base as i64).div_euclid(TICK as i64));
                                if !out.presented.contains(&rec) {
                                    out.presented.push(rec);
                                }
                                if *take {
                                    out.taken_at.entry(d.seq).or_insert(opi);
                                }
                            }
                        }
                    }
                    continue;
                }
                if let Some(i) = inst {
                    if !model.insts.contains_key(i) {
                        // instance unknown to the reader: result not prescribed here
                        classes.insert("read_unknown_instance".into());
                        if let Ok(samples) = &r {
                            if samples.iter().any(|s| s.sample_info.valid_data) {
                                mismatch = Some(("set", format!("read_instance of an instance never received returned data")));
                            }
                        }
                        if mismatch.is_none() {
                            continue;
                        }
                    }
                }
                if mismatch.is_none() {
                    let m = model.matching(*ss, *vs, *is, *inst);
                    if (*ss, *vs, *is) != (3, 3, 7) {
                        classes.insert("masked_read".into());
                    }
                    if *max != 0 && m.len() > *max as usize {
                        classes.insert("max_samples_limiting".into());
                    }
                    mismatch = compare_read(&env, &mut model, r, m, *take, maxs, (*ss, *vs, *is), &mut classes);
                }
            }
            Op::Next { take, prev, max, ss, vs, is } => {
                if c25 {
                    continue;
                }
                let maxs = if *max == 0 { i32::MAX } else { *max as i32 };
                let prev_h = prev.map(|p| InstanceHandle::new(env.handles[&p]));
                let r = if *take {
                    env.reader.take_next_instance(maxs, prev_h, &ss_mask(*ss), &vs_mask(*vs), &is_mask(*is)).await
                } else {
                    env.reader.read_next_instance(maxs, prev_h, &ss_mask(*ss), &vs_mask(*vs), &is_mask(*is)).await
                };
                // expected instance: least handle > prev having matching samples
                let prev_bytes = prev.map(|p| env.handles[&p]);
                let mut cands: Vec<(u8, [u8; 16])> = model
                    .insts
                    .keys()
                    .map(|i| (*i, env.handles[i]))
                    .filter(|(_, h)| prev_bytes.map(|p| *h > p).unwrap_or(true))
                    .collect();
                cands.sort_by_key(|(_, h)| *h);
                let mut expected: Option<u8> = None;
                let mut skipped_empty = false;
                for (i, _) in &cands {
                    if !model.matching(*ss, *vs, *is, Some(*i)).is_empty() {
                        expected = Some(*i);
                        break;
                    } else {
                        skipped_empty = true;
                    }
                }
                if skipped_empty && expected.is_some() {
                    classes.insert("next_skips_empty_instance".into());
                }
                classes.insert("next_instance".into());
                match expected {
                    None => {
                        if let Ok(samples) = &r {
                            if samples.iter().any(|s| s.sample_info.valid_data) {
                                mismatch = Some(("next", "data returned although no later instance has matching samples: expected NoData".into()));
                            } else {
                                // only state-change notifications: mark viewed
                                for s in samples {
                                    let ih: [u8; 16] = s.sample_info.instance_handle.into();
                                    if let Some((i, _)) = env.handles.iter().find(|(_, h)| **h == ih) {
                                        if let Some(mi) = model.insts.get_mut(i) {
                                            mi.view_new = false;
                                        }
                                    }
                                }
                            }
                        }
                    }
                    Some(ei) => {
                        let eh = env.handles[&ei];
                        match &r {
                            Err(DdsError::NoData) => {
                                mismatch = Some((
                                    "next",
                                    format!(
                                        "NoData although a later instance has matching samples{}: instance {ei} (handle > previous) matches",
                                        if skipped_empty { " (an instance without matching samples lies in between)" } else { "" }
                                    ),
                                ));
                            }
                            Ok(samples) if samples.iter().any(|s| <[u8; 16]>::from(s.sample_info.instance_handle) != eh) => {
                                // Tolerance: an instance between `previous` and the expected one that holds only
                                // invalid-data samples (dispose/unregister notifications) may be presented first.
                                let first: [u8; 16] = samples[0].sample_info.instance_handle.into();
                                let all_same = samples.iter().all(|s| <[u8; 16]>::from(s.sample_info.instance_handle) == first);
                                let none_valid = samples.iter().all(|s| !s.sample_info.valid_data);
                                let in_between = prev_bytes.map(|p| first > p).unwrap_or(true) && first < eh;
                                if all_same && none_valid && in_between {
                                    classes.insert("next_returned_notification_only_instance".into());
                                    if let Some((i, _)) = env.handles.iter().find(|(_, h)| **h == first) {
                                        if let Some(mi) = model.insts.get_mut(i) {
                                            mi.view_new = false;
                                        }
                                    }
                                } else {
                                    mismatch = Some(("next", format!("samples of the wrong instance returned: expected instance {ei}")));
                                }
                            }
                            _ => {
                                let m = model.matching(*ss, *vs, *is, Some(ei));
                                mismatch = compare_read(&env, &mut model, r, m, *take, maxs, (*ss, *vs, *is), &mut classes);
                            }
                        }
                    }
                }
            }
        }
        if let Some((kind, detail)) = mismatch {
            match owns(&prop, kind) {
                Some(cat) => {
                    out.verdict = Some((format!("{prop}:{cat}:{}", shape_of(kind, &detail)), format!("op #{opi} {op:?}: {detail}")));
                }
                None => out.stopped_foreign = Some(format!("{kind}: {detail}")),
            }
            break 'ops;
        }
    }
    if prop == "C20" && out.verdict.is_none() && classes.contains("interleaved_instances_not_grouped") {
        out.verdict = Some((
            "C20:grouping:not-grouped-by-instance".into(),
            "a read/take returned samples of one instance non-contiguously (collection in arrival order, not grouped by instance); everything else in this history agreed with the model".into(),
        ));
    }
    out.classes = classes.into_iter().collect();
    drop(keep);
    out
}

/// short stable shape for the signature (first words of the detail up to ':')
fn shape_of(_kind: &str, detail: &str) -> String {
    detail.split(':').next().unwrap_or("").trim().replace(' ', "-").chars().take(60).collect()
}

/// The sample-rejected status is observed through the reader listener (the status getter is not
/// implemented in the async API): one callback per rejection, carrying the cumulative count.
async fn check_rejected(env: &Env, model: &Model) -> Option<Mismatch> {
    let recs = env.rej.0.lock().unwrap().clone();
    struct St {
        total_count: i32,
        last_reason: SampleRejectedStatusKind,
        last_instance_handle: [u8; 16],
    }
    let st = match recs.last() {
        Some(l) => St { total_count: l.0, last_reason: l.2, last_instance_handle: l.3 },
        None => St { total_count: 0, last_reason: SampleRejectedStatusKind::NotRejected, last_instance_handle: [0; 16] },
    };
    if recs.len() as i32 != st.total_count {
        return Some(("rejected", format!("rejection callbacks and count disagree: {} listener callbacks but total_count {}", recs.len(), st.total_count)));
    }
    if st.total_count != model.rejected_total {
        return Some((
            "rejected",
            format!(
                "{}: sample_rejected.total_count is {} but {} rejections are due per the resource limits (KEEP_LAST depth {:?}, max_samples {:?}, max_instances {:?}, max_samples_per_instance {:?})",
                if st.total_count > model.rejected_total { "spurious rejection" } else { "missing rejection" },
                st.total_count, model.rejected_total, model.rq.keep_last, model.rq.max_samples, model.rq.max_instances, model.rq.mspi
            ),
        ));
    }
    if let Some((inst, reasons)) = &model.last_rejected {
        let r = match st.last_reason {
            SampleRejectedStatusKind::NotRejected => "none",
            SampleRejectedStatusKind::RejectedByInstancesLimit => "instances",
            SampleRejectedStatusKind::RejectedBySamplesLimit => "samples",
            SampleRejectedStatusKind::RejectedBySamplesPerInstanceLimit => "samples_per_instance",
        };
        if !reasons.contains(&r) {
            return Some(("rejected", format!("wrong rejection reason: last_reason is {r} but the exceeded limits are {reasons:?}")));
        }
        let ih: [u8; 16] = st.last_instance_handle;
        if ih != env.handles[inst] {
            return Some(("rejected", "wrong last_instance_handle: does not name the instance of the rejected sample".to_string()));
        }
    }
    None
}

#[allow(clippy::too_many_arguments)]
fn compare_read(
    env: &Env,
    model: &mut Model,
    r: Result<Vec<Sample<KeyedData>>, DdsError>,
    m: Vec<usize>,
    take: bool,
    maxs: i32,
    masks: (u8, u8, u8),
    classes: &mut BTreeSet<String>,
) -> Option<Mismatch> {
    let obs: Vec<SObs> = match &r {
        Ok(v) => v.iter().map(obs_of).collect(),
        Err(DdsError::NoData) => vec![],
        Err(e) => return Some(("set", format!("read/take failed: {e:?}"))),
    };
    let valid: Vec<&SObs> = obs.iter().filter(|o| o.valid).collect();
    if m.is_empty() && !valid.is_empty() {
        let after = model.rq.exclusive && valid.iter().any(|o| o.id.map(|i| model.handover.contains(&i)).unwrap_or(false));
        return Some((
            "set",
            format!(
                "unexpected sample{}: {} returned although no stored sample matches the masks",
                if after { " from a weaker writer after an owner left while a stronger writer is still registered" } else { "s" },
                valid.len()
            ),
        ));
    }
    if !m.is_empty() && obs.is_empty() {
        return Some(("nodata", format!("NoData although stored samples match: {} samples should have been returned", m.len())));
    }
    // masks honoured by what is reported
    for o in &obs {
        let ss_ok = if o.read { masks.0 & 1 != 0 } else { masks.0 & 2 != 0 };
        let vs_ok = if o.view_new { masks.1 & 1 != 0 } else { masks.1 & 2 != 0 };
        let is_ok = match o.istate {
            IS::Alive => masks.2 & 1 != 0,
            IS::Disposed => masks.2 & 2 != 0,
            IS::NoWriters => masks.2 & 4 != 0,
        };
        if !(ss_ok && vs_ok && is_ok) {
            return Some(("mask", "returned sample outside the requested masks: reported states are not in the state masks".into()));
        }
    }
    let truncated = obs.len() as i64 >= maxs as i64;
    // map returned valid samples to model samples
    let mut returned_model_idx = vec![];
    for o in &valid {
        let Some(pos) = model.samples.iter().position(|s| Some(s.seq) == o.seq && Some(s.inst) == o.id) else {
            let after = model.rq.exclusive && o.id.map(|i| model.handover.contains(&i)).unwrap_or(false);
            return Some((
                "set",
                format!(
                    "unexpected sample{}: seq {:?} of instance {:?} is not held per the model (replaced, rejected, taken, filtered or ignored earlier)",
                    if after { " from a weaker writer after an owner left while a stronger writer is still registered" } else { "" },
                    o.seq, o.id
                ),
            ));
        };
        if !m.contains(&pos) {
            return Some(("set", format!("unexpected sample: seq {:?} does not match the masks per the model", o.seq)));
        }
        returned_model_idx.push(pos);
    }
    // completeness
    let mut per_inst_expected: BTreeMap<u8, Vec<usize>> = BTreeMap::new();
    for i in &m {
        per_inst_expected.entry(model.samples[*i].inst).or_default().push(*i);
    }
    let mut per_inst_got: BTreeMap<u8, Vec<usize>> = BTreeMap::new();
    for i in &returned_model_idx {
        per_inst_got.entry(model.samples[*i].inst).or_default().push(*i);
    }
    if !truncated {
        for (inst, exp) in &per_inst_expected {
            let got = per_inst_got.get(inst).cloned().unwrap_or_default();
            let mut g = got.clone();
            g.sort();
            if &g != exp {
                let missing: Vec<u32> = exp.iter().filter(|i| !g.contains(i)).map(|i| model.samples[*i].seq).collect();
                return Some(("set", format!("missing samples: instance {inst} lacks seqs {missing:?} that are stored and match the masks")));
            }
        }
    } else if valid.len() as i64 > maxs as i64 {
        return Some(("set", "more than max_samples returned: collection larger than max_samples".into()));
    }
    // order per instance (storage order) — prefix when truncated
    for (inst, got) in &per_inst_got {
        let exp = &per_inst_expected[inst];
        if got.len() > exp.len() || got[..] != exp[..got.len()] {
            let mut sorted = got.clone();
            sorted.sort();
            if sorted[..] == exp[..got.len().min(exp.len())] && sorted.len() <= exp.len() {
                return Some((
                    "order",
                    format!(
                        "wrong order within instance: instance {inst} presented seqs {:?}, storage order is {:?}",
                        got.iter().map(|i| model.samples[*i].seq).collect::<Vec<_>>(),
                        exp.iter().map(|i| model.samples[*i].seq).collect::<Vec<_>>()
                    ),
                ));
            }
            return Some(("set", format!("skipped samples: instance {inst} result is not a prefix of its matching samples (max_samples limiting)")));
        }
    }
    // grouping: samples of one instance are contiguous
    {
        let mut seen: Vec<[u8; 16]> = vec![];
        let mut last: Option<[u8; 16]> = None;
        for o in &obs {
            if Some(o.ih) != last {
                if seen.contains(&o.ih) {
                    classes.insert("interleaved_instances_not_grouped".into());
                }
                seen.push(o.ih);
                last = Some(o.ih);
            }
        }
    }
    // per-sample info
    for (o, mi_idx) in valid.iter().zip(returned_model_idx.iter()) {
        let ms = &model.samples[*mi_idx];
        let mi = &model.insts[&ms.inst];
        if o.read != ms.read {
            return Some(("sample_state", format!("wrong sample_state: seq {} reported read={} but model read={}", ms.seq, o.read, ms.read)));
        }
        if mi.uncertain {
            continue;
        }
        if o.istate != mi.state {
            return Some(("lifecycle_istate", format!("wrong instance_state: instance {} reported {:?}, life cycle says {:?}", ms.inst, o.istate, mi.state)));
        }
        if o.view_new != mi.view_new {
            return Some((
                "lifecycle_view",
                format!("wrong view_state: instance {} reported {} but life cycle says {}", ms.inst, if o.view_new { "NEW" } else { "NOT_NEW" }, if mi.view_new { "NEW" } else { "NOT_NEW" }),
            ));
        }
        if o.dgen != ms.dgen || o.ngen != ms.ngen {
            return Some(("lifecycle_gen", format!("wrong generation counts: seq {} reported ({}, {}) but was received in generation ({}, {})", ms.seq, o.dgen, o.ngen, ms.dgen, ms.ngen)));
        }
        let ag = (mi.dgen + mi.ngen) - (ms.dgen + ms.ngen);
        if o.agrank != ag {
            return Some(("rank", format!("wrong absolute_generation_rank: seq {} reported {} expected {}", ms.seq, o.agrank, ag)));
        }
        if o.ts != Some(ms.ts) {
            return Some(("info", format!("wrong source_timestamp: seq {} reported {:?} written {:?}", ms.seq, o.ts, ms.ts)));
        }
        if o.ph != env.writer_handles[ms.w as usize] {
            return Some(("info", "wrong publication_handle: does not name the writer of the sample".into()));
        }
        if o.ih != env.handles[&ms.inst] {
            return Some(("info", "wrong instance_handle: does not equal the key's handle".into()));
        }
    }
    // ranks relative to the returned collection (all samples, valid or not)
    for (k, o) in obs.iter().enumerate() {
        let later: Vec<&SObs> = obs[k + 1..].iter().filter(|x| x.ih == o.ih).collect();
        if o.srank != later.len() as i32 {
            return Some(("rank", format!("wrong sample_rank: reported {} but {} samples of the instance follow in the collection", o.srank, later.len())));
        }
        let mrsic = later.last().copied().unwrap_or(o);
        let g = (mrsic.dgen + mrsic.ngen) - (o.dgen + o.ngen);
        if o.grank != g {
            return Some(("rank", format!("wrong generation_rank: reported {} expected {}", o.grank, g)));
        }
    }
    // apply the access to the model
    let mut touched: BTreeSet<u8> = BTreeSet::new();
    for o in &obs {
        if let Some((i, _)) = env.handles.iter().find(|(_, h)| **h == o.ih) {
            touched.insert(*i);
        }
    }
    if take {
        let mut idx = returned_model_idx.clone();
        idx.sort();
        for i in idx.into_iter().rev() {
            model.samples.remove(i);
        }
    } else {
        for i in &returned_model_idx {
            model.samples[*i].read = true;
        }
    }
    for i in touched {
        if let Some(mi) = model.insts.get_mut(&i) {
            mi.view_new = false;
        }
    }
    None
}

pub fn eval(case: &CacheCase) -> CaseResult {
    if case.wlim.is_some() {
        return eval_writer_limits(case);
    }
    let mut res = CaseResult::default();
    let prop = case.prop.clone();
    match exec::run(scenario(case.clone())) {
        Ok(out) => {
            if let Some(e) = &out.setup_error {
                res.harness_error = Some(e.clone());
            } else if prop == "C25" {
                oracle_c25(case, &out, &mut res);
            } else if prop == "C24" && case.rq.min_sep_ms > 0 {
                res.classes = out.classes.clone();
                res.class("time_based_filter");
                res.nontrivial = !out.must_ignore.is_empty();
                for (_, seq, _) in &out.presented {
                    if let Some(after_owner_left) = out.must_ignore.get(seq) {
                        let sig = if *after_owner_left {
                            "C24:ownership:unexpected-sample-from-a-weaker-writer-after-an-owner-left-w"
                        } else {
                            "C24:ownership:sample-of-a-weaker-writer-presented:time-based-filter"
                        };
                        res.fail(sig.to_string(), format!("EXCLUSIVE reader with TIME_BASED_FILTER presented seq {seq}, written while a strictly stronger writer that had written the instance was still registered for it"));
                    }
                }
                res.info = json!({"ops_done": out.ops_done, "written": out.written.len(), "presented": out.presented.len(), "must_ignore": out.must_ignore.len()});
            } else {
                if let Some(v) = &out.verdict {
                    res.verdict = Some(v.clone());
                }
                res.classes = out.classes.clone();
                if let Some(s) = &out.stopped_foreign {
                    res.class("stopped_on_foreign_mismatch");
                    let _ = s;
                }
                res.nontrivial = nontrivial(&prop, &out);
                res.info = json!({"ops_done": out.ops_done, "stopped_foreign": out.stopped_foreign});
            }
        }
        Err(a) => apply_abort(&prop, &mut res, a),
    }
    res.sim = sim_stats();
    res
}

fn nontrivial(prop: &str, out: &Outcome) -> bool {
    let has = |c: &str| out.classes.iter().any(|x| x == c || x.starts_with(c));
    match prop {
        "C18" => has("depth_eq_mspi") || has("replacement_at_max_samples") || out.ops_done > 8,
        "C19" => has("rejected:"),
        "C20" => has("masked_read") || has("max_samples_limiting"),
        "C21" => out.ops_done >= 4,
        "C22" => has("dispose") || has("unregister"),
        "C23" => has("next_instance"),
        "C24" => has("ownership_ignored") || has("unregister") || has("delete_writer"),
        _ => true,
    }
}

fn oracle_c25(c: &CacheCase, out: &Outcome, res: &mut CaseResult) {
    let sep = c.rq.min_sep_ms as i64;
    // (a) no two presented samples of an instance closer than the separation
    let mut per: BTreeMap<u8, Vec<(u32, i64)>> = BTreeMap::new();
    for (i, s, t) in &out.presented {
        per.entry(*i).or_default().push((*s, *t));
    }
    let mut close_pairs_written = false;
    let mut wper: BTreeMap<u8, Vec<(u32, i64)>> = BTreeMap::new();
    for (i, s, t) in &out.written {
        wper.entry(*i).or_default().push((*s, *t));
    }
    for v in wper.values() {
        for a in 0..v.len() {
            for b in a + 1..v.len() {
                if (v[a].1 - v[b].1).abs() < sep {
                    close_pairs_written = true;
                }
            }
        }
    }
    res.nontrivial = close_pairs_written && !out.presented.is_empty();
    if close_pairs_written {
        res.class("close_pair_written");
    }
    for (inst, v) in &per {
        for a in 0..v.len() {
            for b in a + 1..v.len() {
                if (v[a].1 - v[b].1).abs() < sep {
                    // shape: how the two samples relate (a arrived before b)
                    let (a, b) = if v[a].0 < v[b].0 { (v[a], v[b]) } else { (v[b], v[a]) };
                    let shape = if out.taken_at.get(&a.0).map(|t| *t < out.written_at[&b.0]).unwrap_or(false) {
                        // was `a` still the most recent (by source timestamp) accepted sample when b arrived?
                        if v.iter().any(|c| c.0 < b.0 && c.1 > a.1) {
                            "taken-sample-older-than-the-most-recent-accepted-one"
                        } else {
                            "earlier-sample-already-taken"
                        }
                    } else if b.1 < a.1 {
                        "later-arrival-has-older-timestamp"
                    } else {
                        "both-in-cache-in-order"
                    };
                    res.fail(
                        format!("C25:too-close-presented:{shape}"),
                        format!(
                            "instance {inst}: presented seq {} (ts {} ticks) and seq {} (ts {} ticks), closer than minimum_separation {} ticks (1 tick = 1953125 ns)",
                            a.0, a.1, b.0, b.1, sep
                        ),
                    );
                }
            }
        }
    }
    // (b) a sample at least `sep` away from every other sample ever written to the instance must be presented
    // (judged only for samples written before the last read op; the scenario ends with a final read)
    let presented: BTreeSet<u32> = out.presented.iter().map(|p| p.1).collect();
    for (inst, v) in &wper {
        for a in 0..v.len() {
            let isolated = (0..v.len()).all(|b| b == a || (v[a].1 - v[b].1).abs() >= sep);
            if isolated && !presented.contains(&v[a].0) {
                res.fail(
                    "C25:isolated-sample-filtered".to_string(),
                    format!("instance {inst}: seq {} (ts {} ticks) is at least {} ticks (1 tick = 1953125 ns) away from every other sample of the instance but was never presented", v[a].0, v[a].1, sep),
                );
            }
        }
    }
    res.info = json!({"written": out.written.len(), "presented": out.presented.len()});
}

pub fn main(ctx: &Ctx) {
    let prop: &'static str = match ctx.id.as_str() {
        "C18" => "C18",
        "C19" => "C19",
        "C20" => "C20",
        "C21" => "C21",
        "C22" => "C22",
        "C23" => "C23",
        "C24" => "C24",
        _ => "C25",
    };
    let thorough = ctx.tier == vcore::Tier::Thorough;
    let rule: &'static str = match prop {
        "C18" => "histories of 5-40(120) ops: writes from 1-2 writers over 3 instances to a reader with KEEP_LAST d in 1..4 (max_samples_per_instance in {d, d+1, unlimited}; in 40% of the cases a finite max_samples of d, 2d or 3d that the history fills exactly) or KEEP_ALL, interleaved read/take(ANY); after every op the stored set per instance is compared with the model (last d received) and sample_rejected must stay 0; non-trivial = depth == max_samples_per_instance or more than 8 ops executed; distinct = hash of the case",
        "C19" => "reader side (3/4 of the cases): histories of writes over 5 instances to a reader with small max_samples/max_instances/max_samples_per_instance (1..4, consistent with history), interleaved read/take(ANY); model predicts exactly which arrivals are rejected, count, reason set and instance. Writer side (1/4): KEEP_ALL reliable writer with small limits, 3-19 writes over 5 instances while the matched reader is partitioned (nothing acknowledged: exact accept/refuse pattern, refusal must be OutOfResources) or reachable (refusals only OutOfResources; refused samples never delivered, accepted ones all delivered after healing); non-trivial = at least one rejection/refusal due; distinct = hash of the case",
        "C20" => "histories of write/dispose/unregister from 1-2 writers over 3 instances and read/take/read_instance/take_instance with generated sample/view/instance masks and max_samples; result compared with model (matching set, per-instance storage order, grouping, sample_state marking, take removal, ranks, NoData, timestamps, handles); non-trivial = a masked or max_samples-limited read occurred; distinct = hash of the case",
        "C21" => "BY_SOURCE_TIMESTAMP reader, 1-2 writers, writes with explicit timestamps (random, equal, ascending, descending), read/take(ANY); per instance the presented order must be non-decreasing source timestamp (ties in arrival order); non-trivial = at least 4 ops executed; distinct = hash of the case",
        "C22" => "histories of write/dispose/unregister (autodispose on/off) from 1-2 writers over 3 instances with read/take(ANY) in between; instance_state, view_state and generation counts of every returned sample compared with the DDS life-cycle model; non-trivial = a dispose or unregister was executed; distinct = hash of the case",
        "C23" => "5 instances, histories of write/dispose/unregister, masked reads that leave instances without matching samples, read_next_instance/take_next_instance with previous handle nil or any instance handle; expected = samples of the least handle > previous with matching samples, NoData iff none; non-trivial = a next_instance call was made; distinct = hash of the case",
        "C24" => "EXCLUSIVE ownership reader, 2-3 writers with distinct strengths, writes/dispose/unregister/delete_writer and read/take(ANY); model: owner = strongest live writer of the instance, changes from others ignored; in 30% of the cases the reader also has a TIME_BASED_FILTER (51 ticks, explicit timestamps) and the oracle is the invariant that no sample is presented that was written while a strictly stronger writer that had written the instance was still registered for it (a filtered sample still makes its writer the owner); non-trivial = a weaker writer's sample was due to be ignored, or an owner unregistered/was deleted; distinct = hash of the case",
        _ => "reader with TIME_BASED_FILTER minimum_separation in {10,100,250,1000} ms, 1-2 writers, writes with explicit timestamps around the separation, read/take in between; invariants: no two presented samples of an instance closer than the separation, and a sample >= separation away from every other written sample of the instance is presented; non-trivial = two samples closer than the separation were written and something was presented; distinct = hash of the case",
    };
    campaign(
        ctx,
        Campaign {
            total_cases: ctx.pick(1_000, 40_000),
            max_shrink_iters: 400,
            limits: Limits { cpu_s: 20, wall_s: 120, as_bytes: 4 << 30 },
            meta: Meta {
                rule,
                assumptions: &[
                    "deterministic simulation with a perfect network: arrival order == operation order (each op run to quiescence)",
                    "reference model R-READER transcribed from DDS 1.4 §2.2.2.5 (DESIGN.md Appendix A); invalid-data samples compared only through the state fields they carry",
                    "operations outside the modelled domain (dispose of an instance the reader never saw, dispose on NOT_ALIVE_NO_WRITERS) are skipped, not executed",
                    "a mismatch belonging to another property's sub-oracle stops the case without a verdict (class stopped_on_foreign_mismatch)",
                ],
                nontrivial_floor: 100,
            },
        },
        strategy(prop, thorough),
        eval,
    );
}


// ------------------------------------------------------------------------------------------
// C19, writer side: a KEEP_ALL writer refuses writes beyond its resource limits with OutOfResources
// and stores nothing for them

#[derive(Default, Clone, Debug, Serialize, Deserialize)]
struct WLimObs {
    setup_error: Option<String>,
    /// (inst, seq, result: "Ok" | error name)
    results: Vec<(u8, u32, String)>,
    delivered: Vec<u32>,
}

async fn writer_limits_scenario(c: CacheCase) -> WLimObs {
    use crate::exec::with_world;
    use dust_dds::infrastructure::sample_info::{ANY_INSTANCE_STATE, ANY_SAMPLE_STATE, ANY_VIEW_STATE};
    let mut o = WLimObs::default();
    let wl = c.wlim.clone().unwrap();
    let f = factory();
    let pw = f.create_participant(0, QosKind::Default, NO_LISTENER, NO_STATUS).await.unwrap();
    let tw = pw.create_topic::<KeyedData>("T", "KeyedData", QosKind::Default, NO_LISTENER, NO_STATUS).await.unwrap();
    let pb = pw.create_publisher(QosKind::Default, NO_LISTENER, NO_STATUS).await.unwrap();
    let lim = |v: Option<u8>| v.map(|x| Length::Limited(x as i32)).unwrap_or(Length::Unlimited);
    let wq = DataWriterQos {
        reliability: ReliabilityQosPolicy { kind: ReliabilityQosPolicyKind::Reliable, max_blocking_time: dk_ms(100) },
        history: HistoryQosPolicy { kind: HistoryQosPolicyKind::KeepAll },
        resource_limits: ResourceLimitsQosPolicy {
            max_samples: lim(wl.max_samples),
            max_instances: lim(wl.max_instances),
            max_samples_per_instance: lim(wl.mspi),
        },
        ..Default::default()
    };
    let w = match pb.create_datawriter::<KeyedData>(&tw, QosKind::Specific(wq), NO_LISTENER, NO_STATUS).await {
        Ok(w) => w,
        Err(e) => {
            o.setup_error = Some(format!("create_datawriter: {e:?}"));
            return o;
        }
    };
    let pr = f.create_participant(0, QosKind::Default, NO_LISTENER, NO_STATUS).await.unwrap();
    let tr = pr.create_topic::<KeyedData>("T", "KeyedData", QosKind::Default, NO_LISTENER, NO_STATUS).await.unwrap();
    let sb = pr.create_subscriber(QosKind::Default, NO_LISTENER, NO_STATUS).await.unwrap();
    let r = sb
        .create_datareader::<KeyedData>(
            &tr,
            QosKind::Specific(DataReaderQos {
                reliability: ReliabilityQosPolicy { kind: ReliabilityQosPolicyKind::Reliable, max_blocking_time: dk_ms(100) },
                history: HistoryQosPolicy { kind: HistoryQosPolicyKind::KeepAll },
                ..Default::default()
            }),
            NO_LISTENER,
            NO_STATUS,
        )
        .await
        .unwrap();
    if !wait_until(20_000, 10, || async { w.get_publication_matched_status().await.map(|s| s.current_count == 1).unwrap_or(false) }).await {
        o.setup_error = Some("no match".into());
        return o;
    }
    exec::sleep_ms(100).await;
    if wl.partitioned {
        with_world(|w| w.net.endpoints[1].connected = false);
    }
    let mut seq = 0u32;
    for op in &c.ops {
        if let Op::Write { inst, .. } = op {
            seq += 1;
            let res = crate::util::timeout(5_000, w.write(KeyedData { id: *inst, seq, blob: vec![1, 2, 3] }, None)).await;
            let name = match res {
                crate::util::Timed::Done(Ok(())) => "Ok".to_string(),
                crate::util::Timed::Done(Err(e)) => format!("{e:?}").split('(').next().unwrap_or("").to_string(),
                crate::util::Timed::TimedOut => "NeverReturned".to_string(),
            };
            o.results.push((*inst, seq, name));
            if !wl.partitioned {
                exec::sleep_ms(5).await;
            }
        }
        // unregister/dispose of an instance the writer knows: the held data samples stay held. Recorded as
        // seq 0 with the operation name (errors such as BadParameter for an unknown instance are not judged here).
        if let Op::Unregister { inst, .. } | Op::Dispose { inst, .. } = op {
            let sample = KeyedData { id: *inst, seq: 0, blob: vec![] };
            let unregister = matches!(op, Op::Unregister { .. });
            let res = if unregister {
                crate::util::timeout(5_000, w.unregister_instance(sample, None)).await.done().map(|r| r.is_ok())
            } else {
                crate::util::timeout(5_000, w.dispose(sample, None)).await.done().map(|r| r.is_ok())
            };
            match res {
                Some(ok) => o.results.push((*inst, 0, format!("{}:{}", if unregister { "unregister" } else { "dispose" }, if ok { "Ok" } else { "Err" }))),
                None => o.results.push((*inst, 0, "NeverReturned".to_string())),
            }
        }
    }
    with_world(|w| w.net.endpoints[1].connected = true);
    let mut waited = 0;
    let ok: Vec<u32> = o.results.iter().filter(|r| r.2 == "Ok" && r.1 > 0).map(|r| r.1).collect();
    loop {
        if let Ok(samples) = r.take(10_000, ANY_SAMPLE_STATE, ANY_VIEW_STATE, ANY_INSTANCE_STATE).await {
            for s in samples {
                if let Some(d) = s.data {
                    o.delivered.push(d.seq);
                }
            }
        }
        if (ok.iter().all(|s| o.delivered.contains(s)) && waited >= 600) || waited >= 10_000 {
            break;
        }
        exec::sleep_ms(100).await;
        waited += 100;
    }
    o
}

fn eval_writer_limits(case: &CacheCase) -> CaseResult {
    let mut res = CaseResult::default();
    let wl = case.wlim.clone().unwrap();
    match exec::run(writer_limits_scenario(case.clone())) {
        Ok(o) => {
            if let Some(e) = &o.setup_error {
                res.harness_error = Some(e.clone());
            } else {
                res.class("writer_side");
                // model: nothing is acknowledged while the reader is partitioned, so every accepted sample stays held
                let mut per: BTreeMap<u8, u32> = BTreeMap::new();
                let mut total = 0u32;
                let mut refused = false;
                // instances unregistered (successfully) and not written since: whether they still occupy an
                // instance slot while their samples are unacknowledged is not stated -> max_instances is then not judged
                let mut unregistered: BTreeSet<u8> = BTreeSet::new();
                for (inst, seq, name) in &o.results {
                    if *seq == 0 {
                        if name == "NeverReturned" {
                            res.fail("C19:writer:unexpected-result:NeverReturned".to_string(), format!("dispose/unregister of instance {inst} never returned"));
                            break;
                        }
                        if name == "unregister:Ok" {
                            unregistered.insert(*inst);
                            res.class("writer_unregister");
                        }
                        continue;
                    }
                    let new_instance = !per.contains_key(inst);
                    let over_instances = new_instance && wl.max_instances.map(|m| per.len() as u32 >= m as u32).unwrap_or(false);
                    let over_mspi = wl.mspi.map(|m| per.get(inst).copied().unwrap_or(0) >= m as u32).unwrap_or(false);
                    let over_samples = wl.max_samples.map(|m| total >= m as u32).unwrap_or(false);
                    let must_refuse = over_instances || over_mspi || over_samples;
                    if name != "Ok" && name != "OutOfResources" {
                        res.fail(format!("C19:writer:unexpected-result:{name}"), format!("write of seq {seq} returned {name} (limits {wl:?})"));
                        break;
                    }
                    if wl.partitioned {
                        let instances_unclear = !unregistered.is_empty() && wl.max_instances.is_some();
                        if instances_unclear && !(over_mspi || over_samples) {
                            // either result is accepted
                        } else if must_refuse && name == "Ok" {
                            let which = if over_instances { "max_instances" } else if over_mspi { "max_samples_per_instance" } else { "max_samples" };
                            res.fail(format!("C19:writer:accepted-beyond-{which}"), format!("write of seq {seq} (instance {inst}) returned Ok although the writer already holds {total} unacknowledged samples ({:?} per instance), limits {wl:?}", per));
                            break;
                        }
                        if !instances_unclear && !must_refuse && name != "Ok" {
                            res.fail("C19:writer:refused-within-limits".to_string(), format!("write of seq {seq} (instance {inst}) returned {name} although no limit is reached (holding {total}, {:?}), limits {wl:?}", per));
                            break;
                        }
                    }
                    if name == "Ok" {
                        *per.entry(*inst).or_insert(0) += 1;
                        total += 1;
                        unregistered.remove(inst);
                    } else {
                        refused = true;
                        res.class("write_refused");
                    }
                }
                if res.verdict.is_none() {
                    let ok: Vec<u32> = o.results.iter().filter(|r| r.2 == "Ok" && r.1 > 0).map(|r| r.1).collect();
                    let missing: Vec<u32> = ok.iter().filter(|s| !o.delivered.contains(s)).copied().collect();
                    let leaked: Vec<u32> = o.delivered.iter().filter(|s| !ok.contains(s)).copied().collect();
                    if !leaked.is_empty() {
                        res.fail("C19:writer:refused-sample-stored".to_string(), format!("writes of seqs {leaked:?} were refused but the samples were delivered"));
                    } else if !missing.is_empty() {
                        res.fail("C19:writer:accepted-sample-not-delivered".to_string(), format!("writes of seqs {missing:?} returned Ok but were never delivered"));
                    }
                }
                res.nontrivial = refused;
            }
        }
        Err(a) => apply_abort("C19", &mut res, a),
    }
    res.sim = sim_stats();
    res
}
