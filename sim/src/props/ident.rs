//! C11 (end-to-end half): the instance handle a writer assigns (register_instance / lookup_instance)
//! equals the handle the reader reports in SampleInfo for the same sample, whether the key hash
//! travels in the message (plain DATA) or not (fragmented samples carry no inline key hash), also
//! for dispose/unregister notifications; equal keys ⇒ same handle, different keys ⇒ different.

use std::collections::BTreeMap;

use dust_dds::infrastructure::{
    listener::NO_LISTENER,
    qos::{DataReaderQos, DataWriterQos, QosKind},
    qos_policy::{DataRepresentationQosPolicy, HistoryQosPolicy, HistoryQosPolicyKind, ReliabilityQosPolicy, ReliabilityQosPolicyKind, XCDR2_DATA_REPRESENTATION, XCDR_DATA_REPRESENTATION},
    sample_info::{ANY_INSTANCE_STATE, ANY_SAMPLE_STATE, ANY_VIEW_STATE},
    status::NO_STATUS,
};
use proptest::prelude::*;
use serde::{Deserialize, Serialize};
use serde_json::json;
use vcore::{Ctx, Meta, fork::Limits};

use crate::{
    case::{CaseResult, apply_abort, sim_stats},
    exec::{self, with_world},
    props::{Campaign, campaign},
    types::{InnerKey, RichKey},
    util::{dk_ms, factory, wait_until},
};

#[derive(Clone, Debug, Serialize, Deserialize)]
pub struct K {
    pub a: u8,
    pub b: u16,
    pub name: String,
    pub n: i64,
}

#[derive(Clone, Debug, Serialize, Deserialize)]
pub enum IOp {
    Write { key: u8, blob_len: u16, pad: u32 },
    Dispose { key: u8 },
    Unregister { key: u8 },
}

#[derive(Clone, Debug, Serialize, Deserialize)]
pub struct IdentCase {
    pub frag: u32,
    pub xcdr2: bool,
    pub keys: Vec<K>,
    pub ops: Vec<IOp>,
}

pub fn strategy() -> BoxedStrategy<IdentCase> {
    let name = prop_oneof![
        Just(String::new()),
        "[a-c]{1,3}",
        "[a-z]{9,20}",
        Just("ab".to_string()),
        Just("a".to_string()),
    ];
    let key = (prop_oneof![Just(0u8), Just(1), any::<u8>()], prop_oneof![Just(0u16), Just(256), any::<u16>()], name, prop_oneof![Just(0i64), Just(-1), Just(1 << 40), any::<i64>()])
        .prop_map(|(a, b, name, n)| K { a, b, name, n });
    let op = prop_oneof![
        5 => (0u8..4, prop_oneof![Just(0u16), 0u16..40, 100u16..400], any::<u32>()).prop_map(|(key, blob_len, pad)| IOp::Write { key, blob_len, pad }),
        1 => (0u8..4).prop_map(|key| IOp::Dispose { key }),
        1 => (0u8..4).prop_map(|key| IOp::Unregister { key }),
    ];
    (prop_oneof![Just(64u32), Just(128), Just(1344)], any::<bool>(), prop::collection::vec(key, 2..5), prop::collection::vec(op, 2..14))
        .prop_map(|(frag, xcdr2, keys, ops)| IdentCase { frag, xcdr2, keys, ops })
        .boxed()
}

#[derive(Default, Clone, Debug, Serialize, Deserialize)]
struct Obs {
    setup_error: Option<String>,
    verdict: Option<(String, String)>,
    classes: Vec<String>,
}

fn sample(k: &K, pad: u32, blob_len: usize) -> RichKey {
    RichKey { k: InnerKey { a: k.a, b: k.b }, pad, name: k.name.clone(), n: k.n, blob: vec![7; blob_len] }
}

async fn scenario(c: IdentCase) -> Obs {
    let mut o = Obs::default();
    with_world(|w| w.net.fragment_size = c.frag as usize);
    let f = factory();
    let pw = f.create_participant(0, QosKind::Default, NO_LISTENER, NO_STATUS).await.unwrap();
    let pr = f.create_participant(0, QosKind::Default, NO_LISTENER, NO_STATUS).await.unwrap();
    let tw = pw.create_topic::<RichKey>("R", "RichKey", QosKind::Default, NO_LISTENER, NO_STATUS).await.unwrap();
    let tr = pr.create_topic::<RichKey>("R", "RichKey", QosKind::Default, NO_LISTENER, NO_STATUS).await.unwrap();
    let pb = pw.create_publisher(QosKind::Default, NO_LISTENER, NO_STATUS).await.unwrap();
    let sb = pr.create_subscriber(QosKind::Default, NO_LISTENER, NO_STATUS).await.unwrap();
    let repr = DataRepresentationQosPolicy { value: vec![if c.xcdr2 { XCDR2_DATA_REPRESENTATION } else { XCDR_DATA_REPRESENTATION }] };
    let w = pb
        .create_datawriter::<RichKey>(
            &tw,
            QosKind::Specific(DataWriterQos {
                reliability: ReliabilityQosPolicy { kind: ReliabilityQosPolicyKind::Reliable, max_blocking_time: dk_ms(100) },
                history: HistoryQosPolicy { kind: HistoryQosPolicyKind::KeepAll },
                representation: repr.clone(),
                ..Default::default()
            }),
            NO_LISTENER,
            NO_STATUS,
        )
        .await
        .unwrap();
    let r = sb
        .create_datareader::<RichKey>(
            &tr,
            QosKind::Specific(DataReaderQos {
                reliability: ReliabilityQosPolicy { kind: ReliabilityQosPolicyKind::Reliable, max_blocking_time: dk_ms(100) },
                history: HistoryQosPolicy { kind: HistoryQosPolicyKind::KeepAll },
                representation: repr,
                ..Default::default()
            }),
            NO_LISTENER,
            NO_STATUS,
        )
        .await
        .unwrap();
    if !wait_until(20_000, 10, || async { w.get_publication_matched_status().await.map(|s| s.current_count == 1).unwrap_or(false) }).await {
        o.setup_error = Some("no match".into());
        return o;
    }
    exec::sleep_ms(100).await;
    let mut classes = std::collections::BTreeSet::new();
    // writer-side handles: equal keys <=> equal handles
    let mut whandles = vec![];
    for k in &c.keys {
        match w.register_instance(sample(k, 0, 0)).await {
            Ok(Some(h)) => whandles.push(<[u8; 16]>::from(h)),
            other => {
                o.setup_error = Some(format!("register_instance: {other:?}"));
                return o;
            }
        }
    }
    for i in 0..c.keys.len() {
        for j in i + 1..c.keys.len() {
            let same_key = (c.keys[i].a, c.keys[i].b, &c.keys[i].name, c.keys[i].n) == (c.keys[j].a, c.keys[j].b, &c.keys[j].name, c.keys[j].n);
            if same_key != (whandles[i] == whandles[j]) {
                o.verdict = Some((
                    format!("C11:e2e:{}", if same_key { "equal-keys-different-handles" } else { "different-keys-same-handle" }),
                    format!("keys {:?} and {:?}: writer handles {:?} / {:?}", c.keys[i], c.keys[j], whandles[i], whandles[j]),
                ));
                return o;
            }
        }
    }
    let key_of = |d: &RichKey| -> usize { c.keys.iter().position(|k| k.a == d.k.a && k.b == d.k.b && k.name == d.name && k.n == d.n).unwrap_or(usize::MAX) };
    // bookkeeping per instance (several entries of `keys` may hold equal keys): index of the first equal key
    let canon = |ki: usize| -> usize {
        let k = &c.keys[ki];
        c.keys.iter().position(|x| (x.a, x.b, &x.name, x.n) == (k.a, k.b, &k.name, k.n)).unwrap_or(ki)
    };
    let mut written_alive: BTreeMap<usize, bool> = BTreeMap::new();
    // perfect network, reliable KEEP_ALL reader: every written sample must be presented (a sample for which the
    // reader cannot derive an instance is dropped, which is how a wrong key extraction can also show)
    let mut writes_done = 0usize;
    let mut data_received = 0usize;
    let mut any_fragmented = false;
    for op in &c.ops {
        match op {
            IOp::Write { key, blob_len, pad } => {
                let ki = *key as usize % c.keys.len();
                let s = sample(&c.keys[ki], *pad, *blob_len as usize);
                if w.write(s, None).await.is_err() {
                    o.setup_error = Some("write failed".into());
                    return o;
                }
                written_alive.insert(canon(ki), true);
                writes_done += 1;
                // serialized size roughly 4+3+2(+pad)+4+4+len(name)+1+8+4+blob
                if (*blob_len as u32 + c.keys[ki].name.len() as u32 + 40) > c.frag {
                    classes.insert("fragmented_no_key_hash_on_wire".to_string());
                    any_fragmented = true;
                } else {
                    classes.insert("key_hash_on_wire".to_string());
                }
            }
            IOp::Dispose { key } => {
                let ki = *key as usize % c.keys.len();
                if written_alive.get(&canon(ki)) != Some(&true) {
                    continue;
                }
                if w.dispose(sample(&c.keys[ki], 0, 0), None).await.is_err() {
                    o.setup_error = Some("dispose of a written, registered instance failed".into());
                    return o;
                }
                classes.insert("dispose".to_string());
            }
            IOp::Unregister { key } => {
                let ki = *key as usize % c.keys.len();
                if written_alive.get(&canon(ki)) != Some(&true) {
                    continue;
                }
                if w.unregister_instance(sample(&c.keys[ki], 0, 0), None).await.is_err() {
                    o.setup_error = Some("unregister of a written, registered instance failed".into());
                    return o;
                }
                written_alive.insert(canon(ki), false);
                classes.insert("unregister".to_string());
            }
        }
        exec::sleep_ms(300).await;
        if let Ok(samples) = r.take(1000, ANY_SAMPLE_STATE, ANY_VIEW_STATE, ANY_INSTANCE_STATE).await {
            for s in samples {
                let ih: [u8; 16] = s.sample_info.instance_handle.into();
                match &s.data {
                    Some(d) => {
                        data_received += 1;
                        let ki = key_of(d);
                        if ki == usize::MAX {
                            o.verdict = Some(("C11:e2e:unknown-key-received".into(), "reader presented a sample whose key was never written".into()));
                            return o;
                        }
                        if ih != whandles[ki] {
                            let frag = (d.blob.len() as u32 + d.name.len() as u32 + 40) > c.frag;
                            o.verdict = Some((
                                format!("C11:e2e:reader-handle-differs:{}", if frag { "no-key-hash-on-wire" } else { "key-hash-on-wire" }),
                                format!("key {:?}: writer register_instance handle {:?}, reader SampleInfo.instance_handle {:?} ({} representation, fragment size {})", c.keys[ki], whandles[ki], ih, if c.xcdr2 { "XCDR2" } else { "XCDR1" }, c.frag),
                            ));
                            return o;
                        }
                    }
                    None => {
                        if !whandles.contains(&ih) {
                            o.verdict = Some((
                                "C11:e2e:reader-handle-differs:dispose-or-unregister".into(),
                                format!("a dispose/unregister notification carries instance handle {ih:?} which no writer-side handle equals"),
                            ));
                            return o;
                        }
                    }
                }
            }
        }
    }
    if data_received < writes_done {
        exec::sleep_ms(2_000).await;
        if let Ok(samples) = r.take(1000, ANY_SAMPLE_STATE, ANY_VIEW_STATE, ANY_INSTANCE_STATE).await {
            data_received += samples.iter().filter(|s| s.data.is_some()).count();
        }
    }
    if data_received < writes_done {
        o.verdict = Some((
            format!("C11:e2e:written-sample-never-presented:{}", if any_fragmented { "with-samples-lacking-a-key-hash" } else { "all-with-key-hash" }),
            format!("{writes_done} samples were written over a loss-free network to a reliable KEEP_ALL reader, {data_received} were presented ({} representation, fragment size {})", if c.xcdr2 { "XCDR2" } else { "XCDR1" }, c.frag),
        ));
        return o;
    }
    o.classes = classes.into_iter().collect();
    o
}

pub fn eval(case: &IdentCase) -> CaseResult {
    let mut res = CaseResult::default();
    match exec::run(scenario(case.clone())) {
        Ok(o) => {
            if let Some(e) = &o.setup_error {
                res.harness_error = Some(e.clone());
            } else {
                res.verdict = o.verdict.clone();
                res.classes = o.classes.clone();
                res.nontrivial = o.classes.iter().any(|c| c == "fragmented_no_key_hash_on_wire");
                res.info = json!({});
            }
        }
        Err(a) => apply_abort("C11", &mut res, a),
    }
    res.sim = sim_stats();
    res
}

pub fn main(ctx: &Ctx) {
    campaign(
        ctx,
        Campaign {
            total_cases: ctx.pick(500, 20_000),
            max_shrink_iters: 200,
            limits: Limits { cpu_s: 20, wall_s: 120, as_bytes: 4 << 30 },
            meta: Meta {
                rule: "end-to-end half of C11: keyed type with a nested-struct key, a string key and an int64 key; 2-4 generated key values (boundary-similar strings and numbers), writes with payloads below and above the fragment size (fragmented samples carry no key hash), dispose and unregister, XCDR1 or XCDR2 representation; oracle: writer register_instance handles are equal iff keys are equal, and every SampleInfo.instance_handle the reader reports (data, dispose, unregister) equals the writer's handle of that key, and every written sample is presented (loss-free network); non-trivial = a fragmented sample (no key hash on the wire) was delivered; distinct = hash of the case",
                assumptions: &["deterministic simulation, loss-free network"],
                nontrivial_floor: 100,
            },
        },
        strategy(),
        eval,
    );
}
