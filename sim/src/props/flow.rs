//! C03 wait_for_acknowledgments, C04 durability, C26 content filter, C27 blocking KEEP_LAST writer,
//! C29 lifespan.

use std::collections::{BTreeMap, BTreeSet};

use dust_dds::{
    dds_async::{data_reader::DataReaderAsync, data_writer::DataWriterAsync, domain_participant::DomainParticipantAsync},
    infrastructure::{
        error::DdsError,
        listener::NO_LISTENER,
        qos::{DataReaderQos, DataWriterQos, QosKind},
        qos_policy::{
            DurabilityQosPolicy, DurabilityQosPolicyKind, HistoryQosPolicy, HistoryQosPolicyKind,
            LifespanQosPolicy, ReliabilityQosPolicy, ReliabilityQosPolicyKind,
        },
        sample_info::{ANY_INSTANCE_STATE, ANY_SAMPLE_STATE, ANY_VIEW_STATE},
        status::NO_STATUS,
        time::{Duration, DurationKind, Time},
    },
};
use proptest::prelude::*;
use serde::{Deserialize, Serialize};
use serde_json::json;
use vcore::{Ctx, Meta, fork::Limits, wire};

use crate::{
    case::{CaseResult, apply_abort, sim_stats},
    exec::{self, with_world},
    net::{Class, Fate, MS},
    props::{Campaign, campaign},
    types::{Filterable, KeyedData, blob_for},
    util::{Timed, dk_ms, factory, timeout, wait_until},
};

fn rel(kind_reliable: bool, mbt_ms: u64) -> ReliabilityQosPolicy {
    ReliabilityQosPolicy {
        kind: if kind_reliable { ReliabilityQosPolicyKind::Reliable } else { ReliabilityQosPolicyKind::BestEffort },
        max_blocking_time: dk_ms(mbt_ms),
    }
}
fn hist(keep_last: Option<u8>) -> HistoryQosPolicy {
    HistoryQosPolicy {
        kind: match keep_last {
            None => HistoryQosPolicyKind::KeepAll,
            Some(d) => HistoryQosPolicyKind::KeepLast(d as u32),
        },
    }
}
fn dura(tl: bool) -> DurabilityQosPolicy {
    DurabilityQosPolicy { kind: if tl { DurabilityQosPolicyKind::TransientLocal } else { DurabilityQosPolicyKind::Volatile } }
}

struct ReaderSide {
    participant: DomainParticipantAsync,
    net_idx: usize,
    reader: DataReaderAsync<KeyedData>,
    _keep: Vec<Box<dyn std::any::Any>>,
}

async fn new_participant() -> (DomainParticipantAsync, usize) {
    let idx = with_world(|w| w.net.endpoints.len());
    let p = factory().create_participant(0, QosKind::Default, NO_LISTENER, NO_STATUS).await.unwrap();
    (p, idx)
}

async fn make_reader(rq: DataReaderQos) -> ReaderSide {
    let (p, idx) = new_participant().await;
    let t = p.create_topic::<KeyedData>("T", "KeyedData", QosKind::Default, NO_LISTENER, NO_STATUS).await.unwrap();
    let s = p.create_subscriber(QosKind::Default, NO_LISTENER, NO_STATUS).await.unwrap();
    let r = s.create_datareader::<KeyedData>(&t, QosKind::Specific(rq), NO_LISTENER, NO_STATUS).await.unwrap();
    ReaderSide { participant: p, net_idx: idx, reader: r, _keep: vec![Box::new(t), Box::new(s)] }
}

struct WriterSide {
    _participant: DomainParticipantAsync,
    writer: DataWriterAsync<KeyedData>,
    _keep: Vec<Box<dyn std::any::Any>>,
}

async fn make_writer(wq: DataWriterQos) -> WriterSide {
    let (p, _) = new_participant().await;
    let t = p.create_topic::<KeyedData>("T", "KeyedData", QosKind::Default, NO_LISTENER, NO_STATUS).await.unwrap();
    let pb = p.create_publisher(QosKind::Default, NO_LISTENER, NO_STATUS).await.unwrap();
    let w = pb.create_datawriter::<KeyedData>(&t, QosKind::Specific(wq), NO_LISTENER, NO_STATUS).await.unwrap();
    WriterSide { _participant: p, writer: w, _keep: vec![Box::new(t), Box::new(pb)] }
}

async fn wait_matched(w: &DataWriterAsync<KeyedData>, n: i32) -> bool {
    wait_until(20_000, 10, || async { w.get_publication_matched_status().await.map(|s| s.current_count == n).unwrap_or(false) }).await
}

async fn take_all(r: &DataReaderAsync<KeyedData>, into: &mut Vec<(u8, u32, bool)>) {
    if let Ok(samples) = r.take(10_000, ANY_SAMPLE_STATE, ANY_VIEW_STATE, ANY_INSTANCE_STATE).await {
        for s in samples {
            if let Some(d) = s.data {
                let ok = d.blob == blob_for(d.seq, d.blob.len());
                into.push((d.id, d.seq, ok));
            }
        }
    }
}

fn tape_strategy(max: usize) -> impl Strategy<Value = Vec<u16>> {
    prop::collection::vec(prop_oneof![2 => Just(0u16), 3 => any::<u16>()], 0..max)
}

// ------------------------------------------------------------------------------------------
// C03

#[derive(Clone, Debug, Serialize, Deserialize)]
pub enum Departure {
    None,
    DeleteReader,
    CrashReader,
}

#[derive(Clone, Debug, Serialize, Deserialize)]
pub struct C03Case {
    pub frag: u32,
    pub readers: u8,
    pub writes: Vec<(u8, u16)>,
    pub tape: Vec<u16>,
    /// ms of faulty network after wait_for_acknowledgments was called
    pub heal_after_ms: u16,
    pub departure: Departure,
    /// departure happens this many ms after the call
    pub depart_after_ms: u16,
}

pub fn c03_strategy() -> BoxedStrategy<C03Case> {
    (
        prop_oneof![Just(64u32), Just(200), Just(1344)],
        1u8..=2,
        prop::collection::vec((0u8..3, 0u16..400), 1..12),
        tape_strategy(60),
        0u16..1500,
        prop_oneof![3 => Just(Departure::None), 2 => Just(Departure::DeleteReader), 1 => Just(Departure::CrashReader)],
        0u16..800,
    )
        .prop_map(|(frag, readers, writes, tape, heal_after_ms, departure, depart_after_ms)| C03Case { frag, readers, writes, tape, heal_after_ms, departure, depart_after_ms })
        .boxed()
}

#[derive(Default, Clone, Debug, Serialize, Deserialize)]
struct FlowObs {
    setup_error: Option<String>,
    verdict: Option<(String, String)>,
    classes: Vec<String>,
    info: serde_json::Value,
}

async fn c03_scenario(c: C03Case) -> FlowObs {
    let mut o = FlowObs::default();
    with_world(|w| w.net.fragment_size = c.frag as usize);
    let ws = make_writer(DataWriterQos { reliability: rel(true, 100), history: hist(None), ..Default::default() }).await;
    let mut rs = vec![];
    for _ in 0..c.readers {
        rs.push(make_reader(DataReaderQos { reliability: rel(true, 100), history: hist(None), ..Default::default() }).await);
    }
    if !wait_matched(&ws.writer, c.readers as i32).await {
        o.setup_error = Some("no match".into());
        return o;
    }
    exec::sleep_ms(100).await;
    with_world(|w| {
        w.net.tape = c.tape.iter().copied().collect();
        w.net.attack_user = true;
    });
    let mut written = BTreeSet::new();
    let mut seq = 0;
    for (inst, len) in &c.writes {
        seq += 1;
        if ws.writer.write(KeyedData { id: *inst, seq, blob: blob_for(seq, *len as usize) }, None).await.is_ok() {
            written.insert(seq);
        }
    }
    let call_at = exec::now_ns();
    let w2 = ws.writer.clone();
    let waiter = exec::spawn(async move { w2.wait_for_acknowledgments().await });
    let mut classes = BTreeSet::new();
    // schedule: departure and heal, in time order
    let mut events = vec![(c.heal_after_ms as u64, 0u8)];
    if !matches!(c.departure, Departure::None) {
        events.push((c.depart_after_ms as u64, 1));
    }
    events.sort();
    let mut departed: Option<usize> = None;
    let mut depart_at = None;
    let mut t = 0u64;
    for (at, what) in events {
        if at > t {
            exec::sleep_ms(at - t).await;
            t = at;
        }
        if what == 0 {
            with_world(|w| {
                w.net.attack_user = false;
                w.net.tape.clear();
            });
        } else {
            let victim = rs.len() - 1;
            match c.departure {
                Departure::DeleteReader => {
                    let r = &rs[victim];
                    let sub = r.reader.get_subscriber();
                    if sub.delete_datareader(&r.reader).await.is_err() {
                        o.setup_error = Some("delete_datareader failed".into());
                        return o;
                    }
                    classes.insert("reader_deleted_while_pending".to_string());
                }
                Departure::CrashReader => {
                    let idx = rs[victim].net_idx;
                    with_world(|w| w.net.endpoints[idx].connected = false);
                    classes.insert("reader_crashed_while_pending".to_string());
                }
                Departure::None => {}
            }
            departed = Some(victim);
            depart_at = Some(exec::now_ns());
        }
    }
    let heal_at = exec::now_ns();
    let lost_before_heal = with_world(|w| w.net.faults_applied > 0);
    if lost_before_heal {
        classes.insert("faults_while_pending".to_string());
    }
    let _ = depart_at;
    // bounded completion
    let bound_ms: u64 = match c.departure {
        Departure::CrashReader => 101_500,
        _ => 5_000,
    };
    let result = timeout(bound_ms, waiter.clone()).await;
    let done_at = exec::now_ns();
    match result {
        Timed::TimedOut => {
            let shape = match c.departure {
                Departure::None => "all-readers-alive",
                Departure::DeleteReader => "after-reader-deleted",
                Departure::CrashReader => "after-reader-crashed",
            };
            let st = ws.writer.get_publication_matched_status().await.map(|s| s.current_count).unwrap_or(-1);
            o.verdict = Some((
                format!("C03:never-completes:{shape}"),
                format!("wait_for_acknowledgments still pending {} ms after the network healed (called {} ms earlier; {}; writer's publication_matched.current_count = {st})", (done_at - heal_at) / 1_000_000, (done_at - call_at) / 1_000_000, shape),
            ));
        }
        Timed::Done(Err(e)) => {
            o.verdict = Some(("C03:returns-error".into(), format!("wait_for_acknowledgments returned {e:?}")));
        }
        Timed::Done(Ok(())) => {
            // soundness: at this very instant every matched alive reader holds every sample written before the call
            for (i, r) in rs.iter().enumerate() {
                if Some(i) == departed {
                    continue;
                }
                let mut got = vec![];
                if let Ok(samples) = r.reader.read(10_000, ANY_SAMPLE_STATE, ANY_VIEW_STATE, ANY_INSTANCE_STATE).await {
                    for s in samples {
                        if let Some(d) = s.data {
                            got.push(d.seq);
                        }
                    }
                }
                let missing: Vec<u32> = written.iter().filter(|s| !got.contains(s)).copied().collect();
                if !missing.is_empty() {
                    o.verdict = Some((
                        "C03:success-before-delivery".into(),
                        format!("wait_for_acknowledgments succeeded but matched reliable reader {i} does not hold seqs {missing:?} at that instant"),
                    ));
                    break;
                }
            }
        }
    }
    o.classes = classes.into_iter().collect();
    o.info = json!({"pending_ms": (done_at - call_at) / 1_000_000});
    drop(rs);
    o
}

// ------------------------------------------------------------------------------------------
// C04

#[derive(Clone, Debug, Serialize, Deserialize)]
pub struct C04Case {
    pub writer_tl: bool,
    pub reader_tl: bool,
    /// the late reader is BEST_EFFORT (only with a VOLATILE reader: nothing is demanded to arrive, the
    /// pre-match history must still never be presented)
    #[serde(default)]
    pub reader_best_effort: bool,
    pub keep_last: Option<u8>,
    pub frag: u32,
    pub pre: Vec<(u8, u16)>,
    pub post: Vec<(u8, u16)>,
    pub tape: Vec<u16>,
}

pub fn c04_strategy() -> BoxedStrategy<C04Case> {
    (
        any::<bool>(),
        any::<bool>(),
        prop::bool::weighted(0.3),
        prop::option::weighted(0.6, 1u8..4),
        prop_oneof![Just(64u32), Just(1344)],
        // pre entries: (instance, payload length); length 270..279 = dispose the instance, 280..299 = unregister it
        prop::collection::vec((0u8..3, prop_oneof![8 => 0u16..270, 1 => 270u16..280, 2 => 280u16..300]), 0..10),
        prop::collection::vec((0u8..3, 0u16..270), 0..5),
        tape_strategy(40),
    )
        .prop_map(|(writer_tl, reader_tl, be, keep_last, frag, pre, post, tape)| C04Case {
            writer_tl,
            // a TRANSIENT_LOCAL reader is incompatible with a VOLATILE writer
            reader_tl: reader_tl && writer_tl,
            reader_best_effort: be && !(reader_tl && writer_tl),
            keep_last,
            frag,
            pre,
            post,
            tape,
        })
        .boxed()
}

async fn c04_scenario(c: C04Case) -> FlowObs {
    let mut o = FlowObs::default();
    with_world(|w| w.net.fragment_size = c.frag as usize);
    let ws = make_writer(DataWriterQos { reliability: rel(true, 100), history: hist(c.keep_last), durability: dura(c.writer_tl), ..Default::default() }).await;
    exec::sleep_ms(200).await;
    let mut seq = 0;
    let mut pre_ok: Vec<(u8, u32)> = vec![];
    // instances that were disposed or unregistered before the reader existed (pre entries with len >= 270):
    // how such a notification shares the KEEP_LAST depth with data samples is not stated, so for these
    // instances only the upper bound (nothing beyond the last depth data samples) is demanded
    let mut lifecycle_insts: BTreeSet<u8> = BTreeSet::new();
    for (inst, len) in &c.pre {
        if *len >= 270 {
            let key = KeyedData { id: *inst, seq: 0, blob: vec![] };
            let done = if *len >= 280 { ws.writer.unregister_instance(key, None).await.is_ok() } else { ws.writer.dispose(key, None).await.is_ok() };
            if done {
                lifecycle_insts.insert(*inst);
            }
            continue;
        }
        seq += 1;
        if ws.writer.write(KeyedData { id: *inst, seq, blob: blob_for(seq, *len as usize) }, None).await.is_ok() {
            pre_ok.push((*inst, seq));
        }
    }
    exec::sleep_ms(300).await;
    // catch-up traffic is attacked
    with_world(|w| {
        w.net.tape = c.tape.iter().copied().collect();
        w.net.attack_user = true;
    });
    let r = make_reader(DataReaderQos { reliability: rel(!c.reader_best_effort, 100), history: hist(None), durability: dura(c.reader_tl), ..Default::default() }).await;
    if !wait_matched(&ws.writer, 1).await {
        o.setup_error = Some("no match".into());
        return o;
    }
    // wait_for_historical_data is only meaningful once the reader knows the writer (with no matched
    // writer it legitimately returns at once)
    let rr = r.reader.clone();
    let reader_matched = wait_until(5_000, 1, || async { rr.get_subscription_matched_status().await.map(|s| s.current_count == 1).unwrap_or(false) }).await;
    if !reader_matched {
        o.setup_error = Some("reader side did not report the match".into());
        return o;
    }
    let r2 = r.reader.clone();
    let hist_wait = exec::spawn(async move {
        if r2.get_qos().await.map(|q| q.durability.kind == DurabilityQosPolicyKind::Volatile).unwrap_or(true) {
            // not applicable to VOLATILE readers (IllegalOperation)
            return Ok(());
        }
        r2.wait_for_historical_data().await
    });
    // post writes only after the writer reported the match
    let mut post_ok = vec![];
    for (inst, len) in &c.post {
        seq += 1;
        if ws.writer.write(KeyedData { id: *inst, seq, blob: blob_for(seq, *len as usize) }, None).await.is_ok() {
            post_ok.push((*inst, seq));
        }
    }
    exec::sleep_ms(500).await;
    with_world(|w| {
        w.net.attack_user = false;
        w.net.tape.clear();
    });
    // retained history of the writer at match time: last d per instance of pre (post writes may replace them
    // later for KEEP_LAST: expected = last d per instance over pre+post)
    let retained: BTreeSet<u32> = {
        let mut per: BTreeMap<u8, Vec<u32>> = BTreeMap::new();
        for (i, s) in pre_ok.iter().chain(post_ok.iter()) {
            per.entry(*i).or_default().push(*s);
        }
        match c.keep_last {
            None => per.values().flatten().copied().collect(),
            Some(d) => per.values().flat_map(|v| v.iter().rev().take(d as usize).copied()).collect(),
        }
    };
    let pre_set: BTreeSet<u32> = pre_ok.iter().map(|x| x.1).collect();
    let mut got: Vec<(u8, u32, bool)> = vec![];
    let mut hist_done_checked = false;
    let mut waited = 0;
    let mut classes = BTreeSet::new();
    if !pre_ok.is_empty() {
        classes.insert("has_pre_samples".to_string());
    }
    if !lifecycle_insts.is_empty() {
        classes.insert("pre_history_with_dispose_or_unregister".to_string());
    }
    if c.reader_best_effort {
        classes.insert("best_effort_volatile_reader".to_string());
    }
    // pre samples that a KEEP_LAST writer had already replaced when the reader was created
    let replaced_before_match: BTreeSet<u32> = match c.keep_last {
        None => BTreeSet::new(),
        Some(d) => {
            let mut per: BTreeMap<u8, Vec<u32>> = BTreeMap::new();
            for (i, s) in &pre_ok {
                per.entry(*i).or_default().push(*s);
            }
            per.values().flat_map(|v| v.iter().rev().skip(d as usize).copied()).collect()
        }
    };
    let inst_of: BTreeMap<u32, u8> = pre_ok.iter().chain(post_ok.iter()).map(|(i, s)| (*s, *i)).collect();
    if with_world(|w| w.net.faults_applied > 0) {
        classes.insert("catch_up_faults".to_string());
    }
    loop {
        if hist_wait.is_done() && !hist_done_checked {
            hist_done_checked = true;
            // at completion the retained pre history must be presentable (TL pair)
            if c.reader_tl {
                let mut now_have: BTreeSet<u32> = got.iter().map(|g| g.1).collect();
                if let Ok(samples) = r.reader.read(10_000, ANY_SAMPLE_STATE, ANY_VIEW_STATE, ANY_INSTANCE_STATE).await {
                    for s in samples {
                        if let Some(d) = s.data {
                            now_have.insert(d.seq);
                        }
                    }
                }
                // samples replaced meanwhile by post writes need not be there
                let must: Vec<u32> = retained.iter().filter(|s| pre_set.contains(s) && !now_have.contains(s) && !lifecycle_insts.contains(&inst_of[*s])).copied().collect();
                if !must.is_empty() {
                    o.verdict = Some((
                        "C04:historical-data-wait-returned-early".into(),
                        format!("wait_for_historical_data completed but retained historical seqs {must:?} are not yet available"),
                    ));
                    break;
                }
            }
        }
        take_all(&r.reader, &mut got).await;
        let have: BTreeSet<u32> = got.iter().map(|g| g.1).collect();
        let expected: BTreeSet<u32> = if c.reader_tl { retained.iter().filter(|s| !(pre_set.contains(s) && lifecycle_insts.contains(&inst_of[*s]))).copied().collect() } else { retained.iter().filter(|s| !pre_set.contains(s)).copied().collect() };
        if ((c.reader_best_effort || expected.iter().all(|s| have.contains(s))) && waited >= 1000 && hist_wait.is_done()) || waited >= 30_000 {
            break;
        }
        exec::sleep_ms(100).await;
        waited += 100;
    }
    if o.verdict.is_none() {
        let have: BTreeSet<u32> = got.iter().map(|g| g.1).collect();
        if !c.reader_tl {
            let leaked: Vec<u32> = have.iter().filter(|s| pre_set.contains(s)).copied().collect();
            if !leaked.is_empty() {
                o.verdict = Some((
                    format!("C04:volatile-reader-got-history:{}", if c.writer_tl { "transient-local-writer" } else { "volatile-writer" }),
                    format!("VOLATILE reader presented seqs {leaked:?} written before it was created/matched"),
                ));
            }
        }
        if o.verdict.is_none() {
            let stale: Vec<u32> = have.iter().filter(|s| replaced_before_match.contains(s)).copied().collect();
            if !stale.is_empty() {
                o.verdict = Some((
                    "C04:replaced-history-presented".into(),
                    format!("late reader presented seqs {stale:?}, which the KEEP_LAST({}) writer had already replaced by newer samples of their instances before the reader was created", c.keep_last.unwrap_or(0)),
                ));
            }
        }
        if o.verdict.is_none() {
            let expected: Vec<u32> = if c.reader_tl { retained.iter().copied().collect() } else { retained.iter().filter(|s| !pre_set.contains(s)).copied().collect() };
            let missing: Vec<u32> = if c.reader_best_effort {
                vec![] // best effort under a fault tape: nothing is demanded to arrive
            } else {
                expected.iter().filter(|s| !have.contains(s) && !(pre_set.contains(s) && lifecycle_insts.contains(&inst_of[*s]))).copied().collect()
            };
            if !missing.is_empty() {
                let only_pre = missing.iter().all(|s| pre_set.contains(s));
                o.verdict = Some((
                    format!("C04:missing:{}", if only_pre { "retained-history" } else { "post-match-samples" }),
                    format!("late {} reader never presented seqs {missing:?} ({}), 30 s after the network healed", if c.reader_tl { "TRANSIENT_LOCAL" } else { "VOLATILE" }, if only_pre { "retained history" } else { "written after the match" }),
                ));
            }
        }
        if o.verdict.is_none() && !hist_wait.is_done() {
            o.verdict = Some(("C04:wait-for-historical-data-never-completes".into(), "wait_for_historical_data still pending 30 s after the network healed".into()));
        }
        if o.verdict.is_none() && got.iter().any(|g| !g.2) {
            o.verdict = Some(("C04:corrupt".into(), "a presented sample differs from what was written".into()));
        }
    }
    o.classes = classes.into_iter().collect();
    drop(r);
    o
}

// ------------------------------------------------------------------------------------------
// C27

#[derive(Clone, Debug, Serialize, Deserialize)]
pub struct C27Case {
    pub depth: u8,
    /// max_blocking_time class
    pub mbt: u8,
    pub writes: Vec<(u8, u16)>,
    /// reader partitioned (no ACKNACKs arrive) for this long after the first write, 0 = never
    pub partition_ms: u16,
    pub tape: Vec<u16>,
}

const MBT_MS: [u64; 5] = [50, 100, 300, 1000, 2000];

pub fn c27_strategy() -> BoxedStrategy<C27Case> {
    // writes: (instance, pause after the write in ms); a pause of 290..299 means: no pause, and the instance is
    // unregistered BEFORE this write (its unacknowledged samples stay in the history and keep counting)
    (1u8..4, 0u8..5, prop::collection::vec((0u8..2, prop_oneof![6 => Just(0u16), 2 => 0u16..290, 1 => 290u16..300]), 2..16), prop_oneof![1 => Just(0u16), 3 => 0u16..4000], tape_strategy(40))
        .prop_map(|(depth, mbt, writes, partition_ms, tape)| C27Case { depth, mbt, writes, partition_ms, tape })
        .boxed()
}

async fn c27_scenario(c: C27Case) -> FlowObs {
    let mut o = FlowObs::default();
    let mbt = MBT_MS[c.mbt as usize % MBT_MS.len()];
    let ws = make_writer(DataWriterQos {
        reliability: rel(true, mbt),
        history: hist(Some(c.depth)),
        durability: dura(true),
        ..Default::default()
    })
    .await;
    let r = make_reader(DataReaderQos { reliability: rel(true, 100), history: hist(None), ..Default::default() }).await;
    if !wait_matched(&ws.writer, 1).await {
        o.setup_error = Some("no match".into());
        return o;
    }
    exec::sleep_ms(100).await;
    let idx = r.net_idx;
    let t_start = exec::now_ns();
    let partition_until = t_start + c.partition_ms as u64 * 1_000_000;
    if c.partition_ms > 0 {
        with_world(|w| w.net.endpoints[idx].connected = false);
    }
    with_world(|w| {
        w.net.tape = c.tape.iter().copied().collect();
        w.net.attack_user = true;
    });
    let mut classes = BTreeSet::new();
    let mut results: Vec<(u8, u32, Result<(), String>, u64, u64)> = vec![];
    let mut got = vec![];
    let mut seq = 0;
    for (inst, pause) in &c.writes {
        if exec::now_ns() >= partition_until && c.partition_ms > 0 {
            with_world(|w| w.net.endpoints[idx].connected = true);
        }
        let pause = &(if *pause >= 290 {
            if ws.writer.unregister_instance(KeyedData { id: *inst, seq: 0, blob: vec![] }, None).await.is_ok() {
                classes.insert("instance_unregistered_before_a_write".to_string());
            }
            0u16
        } else {
            *pause
        });
        seq += 1;
        let s0 = exec::now_ns();
        let res = timeout(mbt + 10_000, ws.writer.write(KeyedData { id: *inst, seq, blob: blob_for(seq, 8) }, None)).await;
        let s1 = exec::now_ns();
        let res = match res {
            Timed::Done(Ok(())) => Ok(()),
            Timed::Done(Err(DdsError::Timeout)) => Err("Timeout".to_string()),
            Timed::Done(Err(e)) => Err(format!("{e:?}")),
            Timed::TimedOut => Err("NeverReturned".to_string()),
        };
        if s1 > s0 {
            classes.insert("write_blocked".to_string());
        }
        results.push((*inst, seq, res, s0, s1));
        if *pause > 0 {
            exec::sleep_ms(*pause as u64).await;
        }
        take_all(&r.reader, &mut got).await;
    }
    with_world(|w| {
        w.net.endpoints[idx].connected = true;
        w.net.attack_user = false;
        w.net.tape.clear();
    });
    // timing and result of each write
    for (_, seq, res, s0, s1) in &results {
        let dur_ms = (s1 - s0) / 1_000_000;
        match res {
            Ok(()) => {}
            Err(e) if e == "Timeout" => {
                classes.insert("write_timed_out".to_string());
                if dur_ms + 1 < mbt {
                    o.verdict = Some(("C27:timeout-before-max-blocking-time".into(), format!("write of seq {seq} returned Timeout after {dur_ms} ms, max_blocking_time is {mbt} ms")));
                } else if dur_ms > mbt + 50 + 5 {
                    o.verdict = Some(("C27:timeout-later-than-max-blocking-time-plus-poke".into(), format!("write of seq {seq} returned Timeout after {dur_ms} ms, max_blocking_time {mbt} ms + one 50 ms poke period allowed")));
                }
            }
            Err(e) if e == "NeverReturned" => {
                o.verdict = Some(("C27:write-never-returns".into(), format!("write of seq {seq} did not return within max_blocking_time + 10 s")));
            }
            Err(e) => {
                o.verdict = Some((format!("C27:write-error:{}", e.split('(').next().unwrap_or("")), format!("write of seq {seq} returned {e}")));
            }
        }
        if o.verdict.is_some() {
            break;
        }
    }
    if o.verdict.is_none() {
        // after healing the reader obtains every sample whose write returned Ok
        let ok_set: BTreeSet<u32> = results.iter().filter(|r| r.2.is_ok()).map(|r| r.1).collect();
        let mut waited = 0;
        loop {
            take_all(&r.reader, &mut got).await;
            let have: BTreeSet<u32> = got.iter().map(|g| g.1).collect();
            if (ok_set.iter().all(|s| have.contains(s)) && waited >= 500) || waited >= 20_000 {
                break;
            }
            exec::sleep_ms(100).await;
            waited += 100;
        }
        let have: BTreeSet<u32> = got.iter().map(|g| g.1).collect();
        let missing: Vec<u32> = ok_set.iter().filter(|s| !have.contains(s)).copied().collect();
        if !missing.is_empty() {
            o.verdict = Some((
                "C27:unacknowledged-sample-dropped".into(),
                format!("writes of seqs {missing:?} returned Ok but the matched reliable KEEP_ALL reader never received them (KEEP_LAST depth {}, max_blocking_time {mbt} ms)", c.depth),
            ));
        }
        let failed: Vec<u32> = results.iter().filter(|r| r.2.is_err()).map(|r| r.1).collect();
        let leaked: Vec<u32> = failed.iter().filter(|s| have.contains(s)).copied().collect();
        if o.verdict.is_none() && !leaked.is_empty() {
            o.verdict = Some(("C27:timed-out-sample-delivered".into(), format!("writes of seqs {leaked:?} returned Timeout but the samples were delivered")));
        }
    }
    if o.verdict.is_none() {
        // the writer holds at most depth samples per instance: a late TRANSIENT_LOCAL reader sees at most that
        let late = make_reader(DataReaderQos { reliability: rel(true, 100), history: hist(None), durability: dura(true), ..Default::default() }).await;
        let _ = wait_matched(&ws.writer, 2).await;
        exec::sleep_ms(1500).await;
        let mut lg = vec![];
        take_all(&late.reader, &mut lg).await;
        let mut per: BTreeMap<u8, usize> = BTreeMap::new();
        for (i, _, _) in &lg {
            *per.entry(*i).or_default() += 1;
        }
        if let Some((i, n)) = per.iter().find(|(_, n)| **n > c.depth as usize) {
            o.verdict = Some(("C27:writer-holds-more-than-depth".into(), format!("a late TRANSIENT_LOCAL reader received {n} samples of instance {i} from a KEEP_LAST({}) writer", c.depth)));
        }
        drop(late);
    }
    o.classes = classes.into_iter().collect();
    let _ = r.participant;
    o
}

// ------------------------------------------------------------------------------------------
// C29

#[derive(Clone, Debug, Serialize, Deserialize)]
pub struct C29Case {
    /// lifespan in ticks of 1953125 ns
    pub lifespan_ticks: u16,
    /// writes: (instance, age of the timestamp at write time in ticks, pause after in ms)
    pub writes: Vec<(u8, u16, u16)>,
    /// early reader partitioned during [0, ms) so that repairs happen later
    pub partition_ms: u16,
    pub late_joiner_after_ms: u16,
}

const TICK: u64 = 1_953_125;

pub fn c29_strategy() -> BoxedStrategy<C29Case> {
    (
        prop_oneof![Just(51u16), Just(128), Just(256), Just(1024)],
        prop::collection::vec((0u8..2, prop_oneof![2 => Just(0u16), 2 => 0u16..2200], prop_oneof![2 => Just(0u16), 2 => 0u16..800]), 1..10),
        prop_oneof![1 => Just(0u16), 2 => 0u16..3000],
        0u16..3000,
    )
        .prop_map(|(lifespan_ticks, writes, partition_ms, late_joiner_after_ms)| C29Case { lifespan_ticks, writes, partition_ms, late_joiner_after_ms })
        .boxed()
}

async fn c29_scenario(c: C29Case) -> FlowObs {
    let mut o = FlowObs::default();
    let life_ns = c.lifespan_ticks as u64 * TICK;
    let ws = make_writer(DataWriterQos {
        reliability: rel(true, 100),
        history: hist(None),
        durability: dura(true),
        lifespan: LifespanQosPolicy { duration: DurationKind::Finite(Duration::new((life_ns / 1_000_000_000) as i32, (life_ns % 1_000_000_000) as u32)) },
        ..Default::default()
    })
    .await;
    let r = make_reader(DataReaderQos { reliability: rel(true, 100), history: hist(None), durability: dura(true), ..Default::default() }).await;
    if !wait_matched(&ws.writer, 1).await {
        o.setup_error = Some("no match".into());
        return o;
    }
    exec::sleep_ms(100).await;
    let idx = r.net_idx;
    let t0 = exec::now_ns();
    if c.partition_ms > 0 {
        with_world(|w| w.net.endpoints[idx].connected = false);
    }
    let mut classes = BTreeSet::new();
    // seq k == writer sequence number k
    let mut expiry: BTreeMap<i64, u64> = BTreeMap::new();
    let mut expired_at_write = BTreeSet::new();
    let mut seq = 0u32;
    for (inst, age, pause) in &c.writes {
        seq += 1;
        let now = exec::now_ns();
        let ts_ns = (now - *age as u64 * TICK) / TICK * TICK;
        let ts = Time::new((ts_ns / 1_000_000_000) as i32, (ts_ns % 1_000_000_000) as u32);
        let res = ws.writer.write_w_timestamp(KeyedData { id: *inst, seq, blob: blob_for(seq, 8) }, None, ts).await;
        if res.is_err() {
            o.setup_error = Some(format!("write_w_timestamp failed: {res:?}"));
            return o;
        }
        expiry.insert(seq as i64, ts_ns + life_ns);
        if ts_ns + life_ns <= now {
            expired_at_write.insert(seq);
            classes.insert("expired_at_write".to_string());
        }
        if *pause > 0 {
            exec::sleep_ms(*pause as u64).await;
        }
        if c.partition_ms > 0 && exec::now_ns() >= t0 + c.partition_ms as u64 * 1_000_000 {
            with_world(|w| w.net.endpoints[idx].connected = true);
        }
    }
    let since = (exec::now_ns() - t0) / 1_000_000;
    if (c.partition_ms as u64) > since {
        exec::sleep_ms(c.partition_ms as u64 - since).await;
    }
    with_world(|w| w.net.endpoints[idx].connected = true);
    if c.partition_ms > 0 {
        classes.insert("repair_after_partition".to_string());
    }
    exec::sleep_ms(c.late_joiner_after_ms as u64).await;
    let late = make_reader(DataReaderQos { reliability: rel(true, 100), history: hist(None), durability: dura(true), ..Default::default() }).await;
    classes.insert("late_joiner".to_string());
    let _ = wait_matched(&ws.writer, 2).await;
    exec::sleep_ms(2_000).await;
    // presented samples
    let mut got = vec![];
    take_all(&r.reader, &mut got).await;
    take_all(&late.reader, &mut got).await;
    for (_, s, _) in &got {
        if expired_at_write.contains(s) {
            o.verdict = Some(("C29:presented-although-expired-at-write".into(), format!("seq {s} was already past source timestamp + lifespan when written, yet a reader presented it")));
            break;
        }
    }
    // send side: no DATA/DATA_FRAG for an expired sample leaves the writer's participant (index 0) late
    if o.verdict.is_none() {
        let writer_eid: [u8; 4] = {
            let h: [u8; 16] = ws.writer.get_instance_handle().into();
            [h[12], h[13], h[14], h[15]]
        };
        let bad = with_world(|w| {
            for rec in &w.net.log {
                if rec.from != 0 || rec.class != Class::User {
                    continue;
                }
                let Some(m) = wire::parse(&rec.data) else { continue };
                for s in &m.subs {
                    let (wid, sn) = match &s.sub {
                        wire::Sub::Data { writer, sn, flags, .. } if flags & 0x04 != 0 => (*writer, *sn),
                        wire::Sub::DataFrag { writer, sn, .. } => (*writer, *sn),
                        _ => continue,
                    };
                    if wid != writer_eid {
                        continue;
                    }
                    if let Some(exp) = expiry.get(&sn) {
                        // one worker period (50 ms) of slack
                        if rec.t_ns > exp + 50 * MS + MS {
                            return Some((sn, (rec.t_ns - exp) / 1_000_000, rec.to));
                        }
                    }
                }
            }
            None
        });
        if let Some((sn, late_ms, to)) = bad {
            let kind = if to == late.net_idx { "to-late-joiner" } else { "repair-or-first-transmission" };
            o.verdict = Some((
                format!("C29:expired-sample-sent:{kind}"),
                format!("DATA for seq {sn} left the writer {late_ms} ms after source timestamp + lifespan (one 50 ms worker period tolerated)"),
            ));
        }
    }
    o.classes = classes.into_iter().collect();
    drop(late);
    o
}

// ------------------------------------------------------------------------------------------
// C26

#[derive(Clone, Debug, Serialize, Deserialize)]
pub struct C26Case {
    /// 0: "level = %0", 1: "level <= %0", 2: "color = %0", 3: "color <= %0"
    pub expr: u8,
    pub param: i8,
    /// integer members and parameter are offset by BASES[base]: neighbouring values far from zero (an
    /// implementation comparing through a narrower or floating type merges them)
    #[serde(default)]
    pub base: u8,
    pub samples: Vec<(u8, i8)>,
    /// grouping tape: how consecutive DATA datagrams are coalesced into one RTPS message
    pub tape: Vec<u16>,
}

pub fn c26_strategy() -> BoxedStrategy<C26Case> {
    (0u8..4, -3i8..4, prop_oneof![3 => Just(0u8), 2 => 1u8..(BASES.len() as u8)], prop::collection::vec((0u8..3, -4i8..5), 3..30), prop::collection::vec(any::<u16>(), 0..40))
        .prop_map(|(expr, param, base, samples, tape)| C26Case { expr, param, base, samples, tape })
        .boxed()
}

const BASES: [i32; 7] = [0, 1 << 24, (1 << 24) + 1, i32::MAX - 10, i32::MIN + 10, 1_000_000_007, -(1 << 24) - 3];


fn color_of(v: i8) -> String {
    // strings ordered like the integers: "c0".."c9" around the parameter
    format!("c{}", (v as i32 + 5))
}

async fn c26_scenario(c: C26Case) -> FlowObs {
    let mut o = FlowObs::default();
    let f = factory();
    let pw = f.create_participant(0, QosKind::Default, NO_LISTENER, NO_STATUS).await.unwrap();
    let tw = pw.create_topic::<Filterable>("F", "Filterable", QosKind::Default, NO_LISTENER, NO_STATUS).await.unwrap();
    let pb = pw.create_publisher(QosKind::Default, NO_LISTENER, NO_STATUS).await.unwrap();
    let writer = pb
        .create_datawriter::<Filterable>(&tw, QosKind::Specific(DataWriterQos { reliability: rel(true, 100), history: hist(None), ..Default::default() }), NO_LISTENER, NO_STATUS)
        .await
        .unwrap();
    let pr = f.create_participant(0, QosKind::Default, NO_LISTENER, NO_STATUS).await.unwrap();
    let tr = pr.create_topic::<Filterable>("F", "Filterable", QosKind::Default, NO_LISTENER, NO_STATUS).await.unwrap();
    let (expr, param) = match c.expr {
        0 => ("level = %0".to_string(), (BASES[c.base as usize % BASES.len()] + c.param as i32).to_string()),
        1 => ("level <= %0".to_string(), (BASES[c.base as usize % BASES.len()] + c.param as i32).to_string()),
        2 => ("color = %0".to_string(), color_of(c.param)),
        _ => ("color <= %0".to_string(), color_of(c.param)),
    };
    let cft = match pr.create_contentfilteredtopic("FF", &tr, expr.clone(), vec![param.clone()]).await {
        Ok(t) => t,
        Err(e) => {
            o.setup_error = Some(format!("create_contentfilteredtopic: {e:?}"));
            return o;
        }
    };
    let sub = pr.create_subscriber(QosKind::Default, NO_LISTENER, NO_STATUS).await.unwrap();
    let reader = sub
        .create_datareader::<Filterable>(&cft, QosKind::Specific(DataReaderQos { reliability: rel(true, 100), history: hist(None), ..Default::default() }), NO_LISTENER, NO_STATUS)
        .await
        .unwrap();
    let matched = wait_until(20_000, 10, || async { writer.get_publication_matched_status().await.map(|s| s.current_count == 1).unwrap_or(false) }).await;
    if !matched {
        o.setup_error = Some("no match".into());
        return o;
    }
    exec::sleep_ms(100).await;
    with_world(|w| {
        w.net.tape = c.tape.iter().copied().collect();
        w.net.attack_user = true;
        w.net.attack_only_between = Some((0, 1));
        // grouping only: hold a datagram briefly, coalesce followers into it, or deliver at once
        w.net.menu = vec![Fate::Deliver(0), Fate::Deliver(5 * MS), Fate::Coalesce, Fate::Coalesce, Fate::Coalesce];
    });
    let passes = |level: i8| -> bool {
        match c.expr {
            0 => level == c.param,
            1 => level <= c.param,
            2 => color_of(level) == color_of(c.param),
            _ => color_of(level) <= color_of(c.param),
        }
    };
    let mut expected = vec![];
    let mut seq = 0;
    for (inst, level) in &c.samples {
        seq += 1;
        let s = Filterable { id: *inst, level: BASES[c.base as usize % BASES.len()] + *level as i32, color: color_of(*level), seq };
        if writer.write(s, None).await.is_err() {
            o.setup_error = Some("write failed".into());
            return o;
        }
        if passes(*level) {
            expected.push(seq);
        }
    }
    with_world(|w| {
        w.net.attack_user = false;
        w.net.tape.clear();
    });
    exec::sleep_ms(1_500).await;
    let mut got = vec![];
    if let Ok(samples) = reader.take(10_000, ANY_SAMPLE_STATE, ANY_VIEW_STATE, ANY_INSTANCE_STATE).await {
        for s in samples {
            if let Some(d) = s.data {
                got.push(d.seq);
            }
        }
    }
    got.sort();
    // was a failing sample followed by a passing one inside one coalesced message?
    let mut classes = BTreeSet::new();
    let coalesced = with_world(|w| {
        w.net
            .log
            .iter()
            .filter(|r| r.from == 0 && r.to == 1 && r.class == Class::User)
            .count()
    });
    let _ = coalesced;
    if with_world(|w| w.net.faults_applied > 0) {
        classes.insert("grouped_arrival".to_string());
    }
    if expected.len() != c.samples.len() && !expected.is_empty() {
        classes.insert("mixed_pass_fail".to_string());
    }
    let missing: Vec<u32> = expected.iter().filter(|s| !got.contains(s)).copied().collect();
    let extra: Vec<u32> = got.iter().filter(|s| !expected.contains(s)).copied().collect();
    if !extra.is_empty() {
        o.verdict = Some(("C26:failing-sample-presented".into(), format!("filter `{expr}` with %0={param}: seqs {extra:?} do not satisfy the filter but were presented")));
    } else if !missing.is_empty() {
        let grouped = with_world(|w| w.net.faults_applied > 0);
        o.verdict = Some((
            format!("C26:passing-sample-lost:{}", if grouped { "grouped-arrival" } else { "single-arrival" }),
            format!("filter `{expr}` with %0={param}: seqs {missing:?} satisfy the filter but were never presented ({} of {} samples pass)", expected.len(), c.samples.len()),
        ));
    }
    o.classes = classes.into_iter().collect();
    o
}

// ------------------------------------------------------------------------------------------

fn finish_eval(prop: &str, r: Result<FlowObs, exec::Abort>, nontrivial: impl Fn(&FlowObs) -> bool) -> CaseResult {
    let mut res = CaseResult::default();
    match r {
        Ok(o) => {
            if let Some(e) = &o.setup_error {
                res.harness_error = Some(e.clone());
            } else {
                res.verdict = o.verdict.clone();
                res.classes = o.classes.clone();
                res.nontrivial = nontrivial(&o);
                res.info = o.info.clone();
            }
        }
        Err(a) => apply_abort(prop, &mut res, a),
    }
    res.sim = sim_stats();
    res
}

pub fn c03_eval(c: &C03Case) -> CaseResult {
    finish_eval("C03", exec::run(c03_scenario(c.clone())), |o| o.classes.iter().any(|c| c.contains("while_pending")))
}
pub fn c04_eval(c: &C04Case) -> CaseResult {
    finish_eval("C04", exec::run(c04_scenario(c.clone())), |o| o.classes.iter().any(|c| c == "has_pre_samples"))
}
pub fn c27_eval(c: &C27Case) -> CaseResult {
    finish_eval("C27", exec::run(c27_scenario(c.clone())), |o| o.classes.iter().any(|c| c == "write_blocked"))
}
pub fn c29_eval(c: &C29Case) -> CaseResult {
    finish_eval("C29", exec::run(c29_scenario(c.clone())), |o| o.classes.iter().any(|c| c == "expired_at_write" || c == "repair_after_partition"))
}
pub fn c26_eval(c: &C26Case) -> CaseResult {
    finish_eval("C26", exec::run(c26_scenario(c.clone())), |o| o.classes.iter().any(|c| c == "mixed_pass_fail"))
}

pub fn main(ctx: &Ctx) {
    let limits = Limits { cpu_s: 30, wall_s: 180, as_bytes: 4 << 30 };
    let assumptions: &[&str] = &[
        "deterministic simulation (virtual clock, in-memory network); async API",
        "faults only on user-traffic datagrams; discovery traffic loss-free",
    ];
    match ctx.id.as_str() {
        "C03" => campaign(
            ctx,
            Campaign {
                total_cases: ctx.pick(800, 30_000),
                max_shrink_iters: 200,
                limits,
                meta: Meta {
                    rule: "reliable KEEP_ALL writer, 1-2 reliable KEEP_ALL readers, 1-11 writes under a user-traffic fault tape, wait_for_acknowledgments spawned, then heal after 0-1.5 s and optionally delete the reader or partition its participant while the call is pending; soundness: at the completion instant every matched alive reader holds every sample written before the call; bounded completion: 5 s after healing (101.5 s when the reader's participant silently disappears); non-trivial = a fault, reader deletion or crash happened while the call was pending; distinct = hash of the case",
                    assumptions,
                    nontrivial_floor: 100,
                },
            },
            c03_strategy(),
            c03_eval,
        ),
        "C04" => campaign(
            ctx,
            Campaign {
                total_cases: ctx.pick(800, 30_000),
                max_shrink_iters: 200,
                limits,
                meta: Meta {
                    rule: "writer TRANSIENT_LOCAL or VOLATILE with KEEP_LAST d or KEEP_ALL writes 0-9 samples over 3 instances (occasionally disposing or unregistering an instance in between), then a late reliable reader (TRANSIENT_LOCAL or VOLATILE) is created in a new participant, catch-up traffic under a fault tape, wait_for_historical_data spawned, 0-4 writes after the writer reported the match; oracle: TL reader presents the retained history (last d per instance) and all later samples, wait_for_historical_data completes and not before the retained history is available, VOLATILE reader never presents a pre-match sample, and no reader presents a sample that the KEEP_LAST writer had already replaced before the reader was created (for instances disposed/unregistered before the match only this upper bound is demanded); non-trivial = at least one sample was written before the reader existed; distinct = hash of the case",
                    assumptions,
                    nontrivial_floor: 100,
                },
            },
            c04_strategy(),
            c04_eval,
        ),
        "C27" => campaign(
            ctx,
            Campaign {
                total_cases: ctx.pick(800, 30_000),
                max_shrink_iters: 200,
                limits,
                meta: Meta {
                    rule: "RELIABLE KEEP_LAST(d in 1..3) TRANSIENT_LOCAL writer with max_blocking_time in {50,100,300,1000,2000} ms, reliable KEEP_ALL reader whose participant is partitioned for 0-4 s and whose traffic is attacked by a tape, 2-15 sequential writes over 2 instances; oracle: every write returns Ok or Timeout, Timeout within [mbt, mbt+50 ms], every Ok sample reaches the reader after healing, timed-out samples never do, a late TRANSIENT_LOCAL reader receives at most d samples per instance; non-trivial = at least one write blocked; distinct = hash of the case",
                    assumptions,
                    nontrivial_floor: 100,
                },
            },
            c27_strategy(),
            c27_eval,
        ),
        "C29" => campaign(
            ctx,
            Campaign {
                total_cases: ctx.pick(800, 30_000),
                max_shrink_iters: 200,
                limits,
                meta: Meta {
                    rule: "RELIABLE TRANSIENT_LOCAL KEEP_ALL writer with lifespan in {0.1,0.25,0.5,2} s, 1-9 write_w_timestamp with source timestamps 0-4.3 s in the past, an early reader partitioned for 0-3 s (repairs happen after expiry) and a late joiner; oracle: a sample already expired when written is never presented, and the wire monitor never sees DATA/DATA_FRAG of a sample leave the writer later than source timestamp + lifespan + one 50 ms worker period; non-trivial = a sample was expired at write time or a repair after a partition was needed; distinct = hash of the case",
                    assumptions,
                    nontrivial_floor: 100,
                },
            },
            c29_strategy(),
            c29_eval,
        ),
        "C26" => campaign(
            ctx,
            Campaign {
                total_cases: ctx.pick(800, 30_000),
                max_shrink_iters: 200,
                limits,
                meta: Meta {
                    rule: "reader on a content-filtered topic with expression `member = %0` or `member <= %0` over an int32 or string member, parameter and 3-29 samples with member values around the parameter (integers offset by 0, +-2^24(+1), 10^9+7 or to within 10 of i32::MIN/MAX), consecutive DATA datagrams coalesced into one RTPS message of several submessages per a grouping tape; oracle: presented set == samples satisfying the predicate evaluated by the harness; non-trivial = some samples pass and some fail; distinct = hash of the case",
                    assumptions,
                    nontrivial_floor: 100,
                },
            },
            c26_strategy(),
            c26_eval,
        ),
        _ => unreachable!(),
    }
}
