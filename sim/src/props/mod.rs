//! Per-property scenario generators, interpreters and oracles.

pub mod cache;
pub mod comm;
pub mod disco;
pub mod flow;
pub mod hostile;
pub mod ident;

use proptest::strategy::Strategy;
use serde::{Serialize, de::DeserializeOwned};
use vcore::{Ctx, Failure, Known, Meta, Report, fork::Limits};

use crate::case::{CaseResult, run_forked, to_outcome};

pub const SHARDS: u32 = 8;

pub fn dispatch(ctx: &Ctx) -> Option<()> {
    match ctx.id.as_str() {
        "C01" | "C02" | "C05" => comm::main(ctx),
        "C06" => hostile::main(ctx),
        "C11" => ident::main(ctx),
        "C15" | "C16" | "C17" => disco::main(ctx),
        "C03" | "C04" | "C26" | "C27" | "C29" => flow::main(ctx),
        "C18" | "C19" | "C20" | "C21" | "C22" | "C23" | "C24" | "C25" => cache::main(ctx),
        _ => return None,
    }
    Some(())
}

pub struct Campaign<'a> {
    pub total_cases: u64,
    pub max_shrink_iters: u32,
    pub limits: Limits,
    pub meta: Meta<'a>,
}

/// Generic sim campaign: shards × proptest runner × fork per case; or a replay of one saved case.
pub fn campaign<S, F>(ctx: &Ctx, c: Campaign, strategy: S, eval: F) -> !
where
    S: Strategy,
    S::Value: Serialize + DeserializeOwned + Clone,
    F: Fn(&S::Value) -> CaseResult + Copy,
{
    campaign_fixed(ctx, c, vec![], |_| vec![], strategy, eval)
}

/// Like `campaign`, with a list of constructed cases (systematic enumerations) that are evaluated
/// before the generated ones, split over the shards. `smaller` proposes simpler variants of a
/// failing constructed case (greedy minimisation).
pub fn campaign_fixed<S, F, G>(ctx: &Ctx, c: Campaign, fixed: Vec<S::Value>, smaller: G, strategy: S, eval: F) -> !
where
    S: Strategy,
    S::Value: Serialize + DeserializeOwned + Clone,
    F: Fn(&S::Value) -> CaseResult + Copy,
    G: Fn(&S::Value) -> Vec<S::Value> + Copy,
{
    let prop = ctx.id.clone();
    if let Some(path) = &ctx.replay {
        let v = vcore::load_replay(path);
        let case: S::Value = serde_json::from_value(v).unwrap_or_else(|e| {
            eprintln!("replay file does not hold a case of this property: {e}");
            std::process::exit(2)
        });
        let r = run_forked(&prop, c.limits, || eval(&case));
        println!("replay {}: {}", prop, serde_json::to_string_pretty(&r).unwrap());
        let mut report = Report::default();
        report.stats.evaluations = 1;
        if let Some(h) = r.harness_error {
            report.inconclusive.push(h);
        } else if let Some((signature, what)) = r.verdict {
            report.failures.push(Failure {
                signature,
                what,
                case: serde_json::to_value(&case).unwrap(),
                shrunk_from: None,
                shrunk_to: None,
            });
        }
        vcore::finish(ctx, c.meta, report);
    }
    let limits = c.limits;
    let total = c.total_cases;
    let shrink = c.max_shrink_iters;
    let report = vcore::run_sharded(ctx, SHARDS, |ctx| {
        let known = Known::load(&ctx.id);
        let mut report = Report::default();
        let cases = ctx.share(total) as u32;
        // regression tier: saved cases of fixed defects, replayed by the first shard only
        if ctx.shard.map(|(k, _)| k == 0).unwrap_or(true) {
            let mut replayed = 0u64;
            for (name, v) in vcore::regress_cases(&prop) {
                let Ok(case) = serde_json::from_value::<S::Value>(v) else {
                    report.inconclusive.push(format!("harness:regress-case-unreadable:{name}"));
                    continue;
                };
                let r = run_forked(&prop, limits, || eval(&case));
                replayed += 1;
                report.stats.evaluations += 1;
                if let Some(h) = r.harness_error {
                    report.inconclusive.push(h);
                } else if let Some((signature, what)) = r.verdict {
                    if known.matches(&signature) {
                        *report.stats.excluded_known.entry(signature).or_insert(0) += 1;
                    } else {
                        report.failures.push(Failure {
                            signature,
                            what: format!("regression case {name}: {what}"),
                            case: serde_json::to_value(&case).unwrap(),
                            shrunk_from: None,
                            shrunk_to: None,
                        });
                        return report;
                    }
                }
            }
            report.stats.extra.insert("regression_cases_replayed".into(), serde_json::json!(replayed));
        }
        // constructed cases (systematic enumeration), this shard's share
        {
            let (k, n) = ctx.shard.unwrap_or((0, 1));
            for (i, case) in fixed.iter().enumerate() {
                if i as u32 % n != k {
                    continue;
                }
                let r = run_forked(&prop, limits, || eval(case));
                let js = serde_json::to_value(case).unwrap();
                let key = vcore::hash_json(&js);
                let mut cl = r.classes.clone();
                cl.push("constructed_case".to_string());
                report.stats.case(key, r.nontrivial, &cl);
                if let Some(h) = r.harness_error {
                    report.inconclusive.push(h);
                    continue;
                }
                let Some((signature, what)) = r.verdict else { continue };
                if known.matches(&signature) {
                    *report.stats.excluded_known.entry(signature).or_insert(0) += 1;
                    continue;
                }
                // greedy minimisation
                let from = js.to_string().len() as u64;
                let mut cur = case.clone();
                let mut cur_sig = (signature, what);
                let mut budget = shrink;
                'outer: while budget > 0 {
                    for cand in smaller(&cur) {
                        if budget == 0 {
                            break 'outer;
                        }
                        budget -= 1;
                        let r = run_forked(&prop, limits, || eval(&cand));
                        if r.harness_error.is_some() {
                            continue;
                        }
                        if let Some((s2, w2)) = r.verdict {
                            if !known.matches(&s2) {
                                cur = cand;
                                cur_sig = (s2, w2);
                                continue 'outer;
                            }
                        }
                    }
                    break;
                }
                let cj = serde_json::to_value(&cur).unwrap();
                let to = cj.to_string().len() as u64;
                report.failures.push(Failure { signature: cur_sig.0, what: cur_sig.1, case: cj, shrunk_from: Some(from), shrunk_to: Some(to) });
                return report;
            }
            if !fixed.is_empty() {
                report.stats.extra.insert("constructed_cases".into(), serde_json::json!({"total_all_shards": fixed.len()}));
            }
        }
        let fail = vcore::pt::run_cases(
            cases,
            ctx.rng_seed("cases"),
            shrink,
            &strategy,
            &mut report.stats,
            &known,
            |case| {
                let r = run_forked(&prop, limits, || eval(case));
                let js = serde_json::to_value(case).unwrap();
                let key = vcore::hash_json(&js);
                to_outcome(r, key, || js)
            },
            |case| serde_json::to_value(case).unwrap(),
        );
        if let Some(f) = fail {
            report.failures.push(f);
        }
        report
    });
    vcore::finish(ctx, c.meta, report)
}
