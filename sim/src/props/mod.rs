//! Per-property scenario generators, interpreters and oracles.

pub mod cache;
pub mod comm;
pub mod disco;
pub mod flow;
pub mod hostile;
pub mod ident;

use proptest::strategy::Strategy;
use serde::{Serialize, de::DeserializeOwned};
use vcore::{Ctx, Failure, Known, Meta, Report, fork::Limits};

use crate::case::{CaseResult, run_forked, to_outcome};

pub const SHARDS: u32 = 8;

pub fn dispatch(ctx: &Ctx) -> Option<()> {
    match ctx.id.as_str() {
        "C01" | "C02" | "C05" => comm::main(ctx),
        "C06" => hostile::main(ctx),
        "C11" => ident::main(ctx),
        "C15" | "C16" | "C17" => disco::main(ctx),
        "C03" | "C04" | "C26" | "C27" | "C29" => flow::main(ctx),
        "C18" | "C19" | "C20" | "C21" | "C22" | "C23" | "C24" | "C25" => cache::main(ctx),
        _ => return None,
    }
    Some(())
}

pub struct Campaign<'a> {
    pub total_cases: u64,
    pub max_shrink_iters: u32,
    pub limits: Limits,
    pub meta: Meta<'a>,
}

/// Generic sim campaign: shards × proptest runner × fork per case; or a replay of one saved case.
pub fn campaign<S, F>(ctx: &Ctx, c: Campaign, strategy: S, eval: F) -> !
where
    S: Strategy,
    S::Value: Serialize + DeserializeOwned + Clone,
    F: Fn(&S::Value) -> CaseResult + Copy,
{
    let prop = ctx.id.clone();
    if let Some(path) = &ctx.replay {
        let v = vcore::load_replay(path);
        let case: S::Value = serde_json::from_value(v).unwrap_or_else(|e| {
            eprintln!("replay file does not hold a case of this property: {e}");
            std::process::exit(2)
        });
        let r = run_forked(&prop, c.limits, || eval(&case));
        println!("replay {}: {}", prop, serde_json::to_string_pretty(&r).unwrap());
        let mut report = Report::default();
        report.stats.evaluations = 1;
        if let Some(h) = r.harness_error {
            report.inconclusive.push(h);
        } else if let Some((signature, what)) = r.verdict {
            report.failures.push(Failure {
                signature,
                what,
                case: serde_json::to_value(&case).unwrap(),
                shrunk_from: None,
                shrunk_to: None,
            });
        }
        vcore::finish(ctx, c.meta, report);
    }
    let limits = c.limits;
    let total = c.total_cases;
    let shrink = c.max_shrink_iters;
    let report = vcore::run_sharded(ctx, SHARDS, |ctx| {
        let known = Known::load(&ctx.id);
        let mut report = Report::default();
        let cases = ctx.share(total) as u32;
        let fail = vcore::pt::run_cases(
            cases,
            ctx.rng_seed("cases"),
            shrink,
            &strategy,
            &mut report.stats,
            &known,
            |case| {
                let r = run_forked(&prop, limits, || eval(case));
                let js = serde_json::to_value(case).unwrap();
                let key = vcore::hash_json(&js);
                to_outcome(r, key, || js)
            },
            |case| serde_json::to_value(case).unwrap(),
        );
        if let Some(f) = fail {
            report.failures.push(f);
        }
        report
    });
    vcore::finish(ctx, c.meta, report)
}
