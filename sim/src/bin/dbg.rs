use dust_dds::builtin_topics::{DCPS_SUBSCRIPTION, SubscriptionBuiltinTopicData};
use dust_dds::infrastructure::{listener::NO_LISTENER, qos::QosKind, sample_info::*, status::NO_STATUS};
use sim::{exec, types::KeyedData, util::factory};

#[global_allocator]
static A: vcore::alloc::Counting = vcore::alloc::Counting;

fn main() {
    let frag: usize = std::env::args().nth(1).unwrap().parse().unwrap();
    exec::install_panic_hook(-1);
    let r = exec::run(async move {
        exec::with_world(|w| w.net.fragment_size = frag);
        let f = factory();
        let p0 = f.create_participant(0, QosKind::Default, NO_LISTENER, NO_STATUS).await.unwrap();
        let p1 = f.create_participant(0, QosKind::Default, NO_LISTENER, NO_STATUS).await.unwrap();
        let t0 = p0.create_topic::<KeyedData>("T", "KeyedData", QosKind::Default, NO_LISTENER, NO_STATUS).await.unwrap();
        let t1 = p1.create_topic::<KeyedData>("T", "KeyedData", QosKind::Default, NO_LISTENER, NO_STATUS).await.unwrap();
        let pb = p0.create_publisher(QosKind::Default, NO_LISTENER, NO_STATUS).await.unwrap();
        let sb = p1.create_subscriber(QosKind::Default, NO_LISTENER, NO_STATUS).await.unwrap();
        let w = pb.create_datawriter::<KeyedData>(&t0, QosKind::Default, NO_LISTENER, NO_STATUS).await.unwrap();
        let r = sb.create_datareader::<KeyedData>(&t1, QosKind::Default, NO_LISTENER, NO_STATUS).await.unwrap();
        exec::sleep_ms(2000).await;
        println!("matched {:?}", w.get_publication_matched_status().await.unwrap().current_count);
        println!("reader handle {:?}", r.get_instance_handle());
        let bs = p0.get_builtin_subscriber();
        let br = bs.lookup_datareader::<SubscriptionBuiltinTopicData>(DCPS_SUBSCRIPTION).await.unwrap().unwrap();
        for s in br.read(100, ANY_SAMPLE_STATE, ANY_VIEW_STATE, ANY_INSTANCE_STATE).await.unwrap_or_default() {
            println!("builtin sample valid={} ih={:?} state={:?}", s.sample_info.valid_data, s.sample_info.instance_handle, s.sample_info.instance_state);
        }
        sb.delete_datareader(&r).await.unwrap();
        exec::sleep_ms(3000).await;
        println!("matched after delete {:?}", w.get_publication_matched_status().await.unwrap().current_count);
        for s in br.read(100, ANY_SAMPLE_STATE, ANY_VIEW_STATE, ANY_INSTANCE_STATE).await.unwrap_or_default() {
            println!("builtin sample valid={} ih={:?} state={:?}", s.sample_info.valid_data, s.sample_info.instance_handle, s.sample_info.instance_state);
        }
    });
    println!("{:?}", r.is_ok());
}
