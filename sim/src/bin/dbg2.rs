use dust_dds::verif_hooks::*;
use dust_dds::xtypes::type_support::TypeSupport;
fn main() {
    let d = VerifSubscriptionData {
        key: [9; 16],
        participant_key: [1; 16],
        topic_name: "T".into(),
        type_name: "X".into(),
        type_information_of: None,
        reader_qos: Default::default(),
        subscriber_qos: Default::default(),
        topic_data: vec![],
        group_entity_id: [0; 4],
        unicast_locator_list: vec![],
        multicast_locator_list: vec![],
        expects_inline_qos: false,
    };
    let bytes = encode_subscription(&d);
    let dec = decode_subscription(&bytes).unwrap();
    let dynd = dec.data.create_dynamic_sample();
    println!("{:?}", instance_handle(&dynd));
}
