//! C28 — writer instance-management calls honour their documented contract (model R-WRITER).
//!
//! One participant, one publisher (autoenable on/off), one writer of a keyed or keyless type; a generated
//! sequence of register/unregister/dispose/write/lookup (+ `enable` at a generated point). The model is
//! the set of registered instances; every result is compared with what the doc comments of
//! `DataWriter` (dds/src/dds/publication/data_writer.rs) and the property statement promise.

use std::collections::BTreeSet;

use dust_dds::{
    dds_async::data_writer::DataWriterAsync,
    infrastructure::{
        error::DdsResult,
        instance::InstanceHandle,
        listener::NO_LISTENER,
        qos::{DataWriterQos, PublisherQos, QosKind},
        qos_policy::{
            EntityFactoryQosPolicy, HistoryQosPolicy, HistoryQosPolicyKind, WriterDataLifecycleQosPolicy,
        },
        status::NO_STATUS,
        time::Time,
    },
    xtypes::type_support::TypeSupport,
};
use proptest::prelude::*;
use serde::{Deserialize, Serialize};
use serde_json::json;
use sim::{
    case::{CaseResult, apply_abort, sim_stats},
    exec,
    props::{Campaign, campaign},
    types::{KeyedData, Unkeyed},
    util::factory,
};
use vcore::{Ctx, Meta, fork::Limits};

use crate::common::{Mismatch, R, call, pick_verdict};

#[derive(Clone, Debug, PartialEq, Serialize, Deserialize)]
pub enum H {
    /// no handle argument: the instance is deduced from the key
    None,
    /// the handle of the sample's own key
    Own,
    /// the handle of a different key
    Other(u8),
    /// a handle that belongs to no key of the type's generated key range
    Unknown,
}

#[derive(Clone, Debug, PartialEq, Serialize, Deserialize)]
pub enum Op {
    Register { k: u8, ts: bool },
    Unregister { k: u8, h: H, ts: bool },
    Dispose { k: u8, h: H, ts: bool },
    Write { k: u8, h: H, ts: bool },
    Lookup { k: u8 },
    Enable,
}

#[derive(Clone, Debug, Serialize, Deserialize)]
pub struct Case {
    pub keyed: bool,
    /// publisher entity_factory.autoenable_created_entities
    pub autoenable: bool,
    pub keep_all: bool,
    pub autodispose: bool,
    pub ops: Vec<Op>,
}

fn h_strategy(nkeys: u8, plain: bool) -> BoxedStrategy<H> {
    if plain {
        return Just(H::None).boxed();
    }
    prop_oneof![
        5 => Just(H::None),
        2 => Just(H::Own),
        2 => (0..nkeys).prop_map(H::Other),
        1 => Just(H::Unknown),
    ]
    .boxed()
}

pub fn strategy(thorough: bool) -> BoxedStrategy<Case> {
    let max_ops = if thorough { 60 } else { 25 };
    (
        prop_oneof![3 => Just(true), 1 => Just(false)],
        prop_oneof![3 => Just(true), 2 => Just(false)],
        any::<bool>(),
        any::<bool>(),
        1u8..=5,
        // fraction of cases that avoid the shapes of the known findings (explicit handles / unregister)
        prop_oneof![3 => Just(false), 2 => Just(true)],
        prop_oneof![7 => Just(false), 3 => Just(true)],
        // when the writer is created disabled: position of enable (None = never)
        prop_oneof![4 => (0u16..=u16::MAX).prop_map(Some), 1 => Just(None)],
    )
        .prop_flat_map(move |(keyed, autoenable, keep_all, autodispose, nkeys, plain_h, no_unreg, enable_at)| {
            let k = 0..nkeys;
            let h = h_strategy(nkeys, plain_h);
            let wh = if keyed { h.clone() } else { Just(H::None).boxed() };
            let op = prop_oneof![
                3 => (k.clone(), any::<bool>()).prop_map(|(k, ts)| Op::Register { k, ts }),
                (if no_unreg { 0 } else { 3 }) => (k.clone(), h.clone(), any::<bool>()).prop_map(|(k, h, ts)| Op::Unregister { k, h, ts }),
                2 => (k.clone(), h.clone(), any::<bool>()).prop_map(|(k, h, ts)| Op::Dispose { k, h, ts }),
                4 => (k.clone(), wh, any::<bool>()).prop_map(|(k, h, ts)| Op::Write { k, h, ts }),
                4 => k.clone().prop_map(|k| Op::Lookup { k }),
                1 => Just(Op::Enable),
            ];
            prop::collection::vec(op, 3..=max_ops).prop_map(move |mut ops| {
                if autoenable {
                    // enable() on an enabled writer is still exercised (idempotence) through Op::Enable
                } else {
                    // a disabled writer is only enabled where `enable_at` says so
                    ops.retain(|o| *o != Op::Enable);
                    if let Some(p) = enable_at {
                        let i = vcore::pt::idx(p, ops.len() + 1);
                        ops.insert(i, Op::Enable);
                    }
                }
                Case { keyed, autoenable, keep_all, autodispose, ops }
            })
        })
        .boxed()
}

// ------------------------------------------------------------------------------------------------

trait Mk: TypeSupport + 'static {
    fn mk(k: u8, seq: u32) -> Self;
}
impl Mk for KeyedData {
    fn mk(k: u8, seq: u32) -> Self {
        KeyedData { id: k, seq, blob: vec![k] }
    }
}
impl Mk for Unkeyed {
    fn mk(k: u8, seq: u32) -> Self {
        Unkeyed { seq, blob: vec![k] }
    }
}

fn handle_of<T: Mk>(k: u8) -> InstanceHandle {
    dust_dds::verif_hooks::instance_handle(&T::mk(k, 0).create_dynamic_sample()).unwrap_or(InstanceHandle::new([0; 16]))
}

const UNKNOWN_HANDLE: [u8; 16] = [0xEE, 0x5A, 0xC3, 0x11, 0x7F, 0x80, 0x01, 0xFE, 0x33, 0x44, 0x55, 0x66, 0x77, 0x88, 0x99, 0xAB];

#[derive(Default, Clone, Debug, Serialize, Deserialize)]
pub struct Out {
    pub setup_error: Option<String>,
    pub mismatches: Vec<Mismatch>,
    pub classes: Vec<String>,
    pub ops_done: usize,
    pub error_paths_checked: u32,
    pub success_paths_checked: u32,
    pub trace: Vec<String>,
}

impl Out {
    fn class(&mut self, c: &str) {
        if !self.classes.iter().any(|x| x == c) {
            self.classes.push(c.to_string());
        }
    }
}

struct Model {
    keyed: bool,
    enabled: bool,
    reg: BTreeSet<u8>,
    ever: BTreeSet<u8>,
    /// keys whose implementation state is unknown after a mismatch: no further verdicts on them
    tainted: BTreeSet<u8>,
}

impl Model {
    fn state(&self, k: u8) -> &'static str {
        if !self.enabled {
            "disabled"
        } else if !self.keyed {
            "keyless"
        } else if self.reg.contains(&k) {
            "registered"
        } else if self.ever.contains(&k) {
            "unregistered"
        } else {
            "never-registered"
        }
    }
}

/// What the contract allows as result of an operation.
enum Want {
    /// must succeed (register/lookup: with this handle option)
    Ok,
    Handle(Option<[u8; 16]>),
    /// must fail with one of these
    Err(&'static [&'static str]),
    /// not specified: anything but a hang
    Any,
}

fn want_names(w: &Want) -> String {
    match w {
        Want::Ok => "Ok".into(),
        Want::Handle(Some(_)) => "Some(handle-of-key)".into(),
        Want::Handle(None) => "None".into(),
        Want::Err(v) => v.join("|"),
        Want::Any => "any".into(),
    }
}

/// Expectation for unregister/dispose/write with handle argument `h` on key `k` (keyed, enabled writer).
/// Returns (want, sub-oracle).
fn want_modify(m: &Model, op: &str, k: u8, h: &H) -> (Want, &'static str) {
    let k_reg = m.reg.contains(&k);
    match h {
        H::None => {
            if k_reg || op == "write" {
                (Want::Ok, "registered-set")
            } else {
                (Want::Err(&["BadParameter"]), "registered-set")
            }
        }
        H::Own => {
            if k_reg {
                (Want::Ok, "registered-set")
            } else if op == "write" {
                // the key's own handle although the instance is not (or no longer) registered: the doc comment
                // can be read either way (write registers implicitly) -> not judged
                (Want::Any, "handle-arg")
            } else {
                (Want::Err(&["BadParameter"]), "registered-set")
            }
        }
        H::Other(j) if *j == k => want_modify(m, op, k, &H::Own),
        H::Other(j) => {
            if m.reg.contains(j) {
                if k_reg || op == "write" {
                    (Want::Err(&["PreconditionNotMet"]), "handle-arg")
                } else {
                    // both "unknown instance" and "handle of another instance" apply
                    (Want::Err(&["PreconditionNotMet", "BadParameter"]), "handle-arg")
                }
            } else {
                (Want::Err(&["BadParameter"]), "handle-arg")
            }
        }
        H::Unknown => (Want::Err(&["BadParameter"]), "handle-arg"),
    }
}

fn now_time() -> Time {
    let ns = exec::now_ns();
    Time::new((ns / 1_000_000_000) as i32, (ns % 1_000_000_000) as u32)
}

fn harg<T: Mk>(k: u8, h: &H) -> Option<InstanceHandle> {
    match h {
        H::None => None,
        H::Own => Some(handle_of::<T>(k)),
        H::Other(j) => Some(handle_of::<T>(*j)),
        H::Unknown => Some(InstanceHandle::new(UNKNOWN_HANDLE)),
    }
}

fn hname(h: &H, k: u8) -> &'static str {
    match h {
        H::None => "handle-none",
        H::Own => "handle-own",
        H::Other(j) if *j == k => "handle-own",
        H::Other(_) => "handle-other",
        H::Unknown => "handle-unknown",
    }
}

async fn scenario<T: Mk>(c: Case) -> Out {
    let mut out = Out::default();
    let f = factory();
    let Some(Ok(p)) = call(f.create_participant(0, QosKind::Default, NO_LISTENER, NO_STATUS)).await else {
        out.setup_error = Some("create_participant failed".into());
        return out;
    };
    let Some(Ok(topic)) = call(p.create_topic::<T>("T", "T", QosKind::Default, NO_LISTENER, NO_STATUS)).await else {
        out.setup_error = Some("create_topic failed".into());
        return out;
    };
    let pq = PublisherQos {
        entity_factory: EntityFactoryQosPolicy { autoenable_created_entities: c.autoenable },
        ..Default::default()
    };
    let Some(Ok(publ)) = call(p.create_publisher(QosKind::Specific(pq), NO_LISTENER, NO_STATUS)).await else {
        out.setup_error = Some("create_publisher failed".into());
        return out;
    };
    let wq = DataWriterQos {
        history: HistoryQosPolicy {
            kind: if c.keep_all { HistoryQosPolicyKind::KeepAll } else { HistoryQosPolicyKind::KeepLast(1) },
        },
        writer_data_lifecycle: WriterDataLifecycleQosPolicy { autodispose_unregistered_instances: c.autodispose },
        ..Default::default()
    };
    let w: DataWriterAsync<T> =
        match call(publ.create_datawriter::<T>(&topic, QosKind::Specific(wq), NO_LISTENER, NO_STATUS)).await {
            Some(Ok(w)) => w,
            _ => {
                out.setup_error = Some("create_datawriter failed".into());
                return out;
            }
        };
    let mut m = Model {
        keyed: c.keyed,
        enabled: c.autoenable,
        reg: BTreeSet::new(),
        ever: BTreeSet::new(),
        tainted: BTreeSet::new(),
    };
    out.class(if c.keyed { "keyed" } else { "keyless" });
    out.class(if c.autoenable { "autoenabled" } else { "created-disabled" });
    let mut seq = 0u32;
    for op in &c.ops {
        seq += 1;
        out.ops_done += 1;
        // ---- execute
        let (opname, k, h, got, got_handle): (&str, u8, H, R, Option<Option<[u8; 16]>>) = match op {
            Op::Enable => {
                let r = call(w.enable()).await;
                let got = crate::common::r_of(&r);
                out.trace.push(format!("enable -> {}", got.name()));
                if got != R::Ok {
                    out.mismatches.push((
                        format!("C28:enable:got-{}", got.name()),
                        format!("enable() of the writer (publisher enabled) returned {}", got.name()),
                    ));
                }
                m.enabled = true;
                continue;
            }
            Op::Register { k, ts } => {
                let r: Option<DdsResult<Option<InstanceHandle>>> = if *ts {
                    call(w.register_instance_w_timestamp(T::mk(*k, seq), now_time())).await
                } else {
                    call(w.register_instance(T::mk(*k, seq))).await
                };
                let gh = match &r {
                    Some(Ok(h)) => Some(h.map(|x| x.into())),
                    _ => None,
                };
                ("register", *k, H::None, crate::common::r_of(&r), gh)
            }
            Op::Lookup { k } => {
                let r = call(w.lookup_instance(T::mk(*k, seq))).await;
                let gh = match &r {
                    Some(Ok(h)) => Some(h.map(|x| x.into())),
                    _ => None,
                };
                ("lookup", *k, H::None, crate::common::r_of(&r), gh)
            }
            Op::Unregister { k, h, ts } => {
                let ha = harg::<T>(*k, h);
                let r = if *ts {
                    call(w.unregister_instance_w_timestamp(T::mk(*k, seq), ha, now_time())).await
                } else {
                    call(w.unregister_instance(T::mk(*k, seq), ha)).await
                };
                ("unregister", *k, h.clone(), crate::common::r_of(&r), None)
            }
            Op::Dispose { k, h, ts } => {
                let ha = harg::<T>(*k, h);
                let r = if *ts {
                    call(w.dispose_w_timestamp(T::mk(*k, seq), ha, now_time())).await
                } else {
                    call(w.dispose(T::mk(*k, seq), ha)).await
                };
                ("dispose", *k, h.clone(), crate::common::r_of(&r), None)
            }
            Op::Write { k, h, ts } => {
                let ha = harg::<T>(*k, h);
                let r = if *ts {
                    call(w.write_w_timestamp(T::mk(*k, seq), ha, now_time())).await
                } else {
                    call(w.write(T::mk(*k, seq), ha)).await
                };
                ("write", *k, h.clone(), crate::common::r_of(&r), None)
            }
        };
        let state = m.state(k);
        let shown = match got_handle {
            Some(Some(_)) => "Some".to_string(),
            Some(None) => "None".to_string(),
            None => got.name().to_string(),
        };
        out.trace.push(format!("{opname}(k={k},{}) [{state}] -> {shown}", hname(&h, k)));
        if got == R::Hang {
            out.mismatches.push((
                format!("C28:hang:{opname}"),
                format!("{opname} did not return within {} ms virtual", crate::common::CALL_TIMEOUT_MS),
            ));
            break;
        }
        // ---- expectation
        let expected_handle: [u8; 16] = handle_of::<T>(k).into();
        let (want, sub): (Want, &'static str) = if !m.enabled {
            if !m.keyed && opname == "lookup" {
                // lookup_instance on a keyless type is not pinned down (see below); both errors accepted
                (Want::Err(&["NotEnabled", "IllegalOperation"]), "not-enabled")
            } else {
                (Want::Err(&["NotEnabled"]), "not-enabled")
            }
        } else if !m.keyed {
            match opname {
                "write" => (Want::Ok, "keyless"),
                // lookup_instance: "returns None if the Service is unable to provide a handle" — not pinned down
                "lookup" => (Want::Any, "keyless"),
                _ => (Want::Err(&["IllegalOperation"]), "keyless"),
            }
        } else {
            match opname {
                "register" => (Want::Handle(Some(expected_handle)), "registered-set"),
                "lookup" => (
                    Want::Handle(if m.reg.contains(&k) { Some(expected_handle) } else { None }),
                    "registered-set",
                ),
                _ => want_modify(&m, opname, k, &h),
            }
        };
        let tainted = m.keyed && m.enabled && (m.tainted.contains(&k) || matches!(&h, H::Other(j) if m.tainted.contains(j)));
        // ---- compare
        let ok = match (&want, &got, &got_handle) {
            (Want::Any, _, _) => true,
            (Want::Ok, R::Ok, _) => true,
            (Want::Handle(wh), R::Ok, Some(gh)) => wh.is_some() == gh.is_some(),
            (Want::Err(set), R::Err(e), _) => set.contains(e),
            _ => false,
        };
        let handle_value_wrong = matches!((&want, &got_handle), (Want::Handle(Some(wh)), Some(Some(gh))) if wh != gh);
        if !tainted {
            match &want {
                Want::Err(set) => {
                    out.error_paths_checked += 1;
                    out.class(&format!("want:{}", set[0]));
                }
                Want::Handle(Some(_)) if opname == "lookup" => {
                    out.success_paths_checked += 1;
                    out.class("want:lookup-some");
                }
                Want::Handle(None) => {
                    out.success_paths_checked += 1;
                    out.class("want:lookup-none");
                }
                Want::Handle(Some(_)) => {
                    out.success_paths_checked += 1;
                    out.class(if m.reg.contains(&k) { "want:register-again-same-handle" } else { "want:register-new" });
                }
                Want::Ok => {
                    out.success_paths_checked += 1;
                    out.class(&format!("want:{opname}-ok"));
                }
                Want::Any => out.class("unspecified"),
            }
            if handle_value_wrong {
                out.mismatches.push((
                    format!("C28:handle-value:{opname}"),
                    format!("{opname} of key {k} returned a handle different from the key's instance handle"),
                ));
            } else if !ok {
                let gotname = match got_handle {
                    Some(Some(_)) => "Some",
                    Some(None) => "None",
                    None => got.name(),
                };
                let sig = if sub == "handle-arg" && got == R::Ok {
                    "C28:handle-arg:mismatching-handle-accepted".to_string()
                } else if sub == "registered-set" && state == "unregistered" && opname != "register" && opname != "write" {
                    "C28:registered-set:instance-still-known-after-unregister".to_string()
                } else if sub == "not-enabled" || sub == "keyless" {
                    format!("C28:{sub}:{opname}:got-{gotname}")
                } else {
                    format!("C28:{sub}:{opname}:{}:{state}:want-{}-got-{gotname}", hname(&h, k), want_names(&want))
                };
                out.mismatches.push((
                    sig,
                    format!(
                        "op #{} {opname}(key {k}, {}) on a {} writer, instance {state}: got {gotname}, the contract demands {} (trace: {})",
                        out.ops_done,
                        hname(&h, k),
                        if !m.enabled { "not-enabled" } else if m.keyed { "keyed enabled" } else { "keyless enabled" },
                        want_names(&want),
                        out.trace.join("; ")
                    ),
                ));
                // implementation state of this key is no longer what the model says
                m.tainted.insert(k);
            }
        }
        // ---- model update (only what the contract says happened)
        if m.enabled && m.keyed && ok && got == R::Ok {
            match opname {
                "register" | "write" => {
                    m.reg.insert(k);
                    m.ever.insert(k);
                }
                "unregister" => {
                    m.reg.remove(&k);
                }
                _ => {}
            }
        } else if m.enabled && m.keyed && !ok && got == R::Ok && matches!(opname, "register" | "write" | "unregister") {
            m.tainted.insert(k);
        }
    }
    out
}

pub fn eval(case: &Case) -> CaseResult {
    let mut res = CaseResult::default();
    let c = case.clone();
    let r = if case.keyed { exec::run(scenario::<KeyedData>(c)) } else { exec::run(scenario::<Unkeyed>(c)) };
    match r {
        Ok(out) => {
            if let Some(e) = &out.setup_error {
                res.harness_error = Some(e.clone());
            } else {
                res.verdict = pick_verdict("C28", &out.mismatches);
                res.classes = out.classes.clone();
                res.nontrivial = out.error_paths_checked >= 1 && out.ops_done >= 3;
                res.info = json!({
                    "ops_done": out.ops_done,
                    "error_paths_checked": out.error_paths_checked,
                    "success_paths_checked": out.success_paths_checked,
                    "mismatch_signatures": out.mismatches.iter().map(|m| m.0.clone()).collect::<Vec<_>>(),
                    "trace": out.trace,
                });
            }
        }
        Err(a) => apply_abort("C28", &mut res, a),
    }
    res.sim = sim_stats();
    res
}

pub fn main(ctx: &Ctx) {
    let thorough = ctx.tier == vcore::Tier::Thorough;
    campaign(
        ctx,
        Campaign {
            total_cases: ctx.pick(2_000, 24_000),
            max_shrink_iters: 200,
            limits: Limits { cpu_s: 20, wall_s: 120, as_bytes: 4 << 30 },
            meta: Meta {
                rule: "one writer of a keyed (KeyedData) or keyless (Unkeyed) type, created enabled or disabled (publisher autoenable off, enable() at a generated point or never), 3-25(60) ops register/unregister/dispose/write/lookup (plain and _w_timestamp) over 1-5 keys with handle argument none/own/other-instance/unknown; every result compared with the documented contract through the R-WRITER model (set of registered instances); non-trivial = at least one error-path expectation (NotEnabled/IllegalOperation/BadParameter/PreconditionNotMet) was checked and >= 3 ops ran; distinct = hash of the case",
                assumptions: &[
                    "deterministic simulation, single participant, no reader needed (async API; the sync API is a block_on wrapper)",
                    "expected handle = verif_hooks::instance_handle(sample) (pure function of the key, C11/C12 judge its value)",
                    "tolerated: lookup_instance on a keyless type (unspecified, also NotEnabled vs IllegalOperation on a disabled keyless writer for it); every other operation on a disabled writer must give NotEnabled ('every operation on a not-yet-enabled writer'), keyless or not; BadParameter vs PreconditionNotMet when an unregistered key is combined with the handle of another registered instance",
                    "after a mismatch on a key no further verdicts are derived for that key in the case (its implementation state is unknown); the case verdict is the first mismatch not listed as known finding",
                ],
                nontrivial_floor: 300,
            },
        },
        strategy(thorough),
        eval,
    );
}
