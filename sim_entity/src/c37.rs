//! C37 — QoS validation: inconsistent and immutable changes are rejected atomically; every accepted QoS is
//! returned by get_qos and announced to remote participants.
//!
//! One entity under test (topic / publisher / subscriber / writer / reader), created enabled or disabled
//! with a generated QoS, then a sequence of set_qos (current or default QoS with 1–3 generated policy
//! changes), get_qos, enable and (in a fraction of the cases) discovery checkpoints where a second
//! participant's builtin readers must show the accepted policies. The expected result of every call comes
//! from the DDS 1.4 consistency rules and "Changeable" column, transcribed below.

use std::fmt::Debug;

use dust_dds::{
    builtin_topics::{PublicationBuiltinTopicData, SubscriptionBuiltinTopicData},
    dds_async::{
        data_reader::DataReaderAsync, data_writer::DataWriterAsync, domain_participant::DomainParticipantAsync,
        publisher::PublisherAsync, subscriber::SubscriberAsync, topic::TopicAsync,
    },
    infrastructure::{
        error::DdsResult,
        listener::NO_LISTENER,
        qos::{DataReaderQos, DataWriterQos, DomainParticipantQos, PublisherQos, QosKind, SubscriberQos, TopicQos},
        qos_policy::{
            DataRepresentationQosPolicy, DeadlineQosPolicy, DestinationOrderQosPolicy, DestinationOrderQosPolicyKind,
            DurabilityQosPolicy, DurabilityQosPolicyKind, EntityFactoryQosPolicy, GroupDataQosPolicy,
            HistoryQosPolicy, HistoryQosPolicyKind, LatencyBudgetQosPolicy, Length, LifespanQosPolicy,
            LivelinessQosPolicy, LivelinessQosPolicyKind, OwnershipQosPolicy, OwnershipQosPolicyKind,
            OwnershipStrengthQosPolicy, PartitionQosPolicy, PresentationQosPolicy,
            PresentationQosPolicyAccessScopeKind, ReaderDataLifecycleQosPolicy, ReliabilityQosPolicy,
            ReliabilityQosPolicyKind, ResourceLimitsQosPolicy, TimeBasedFilterQosPolicy, TopicDataQosPolicy,
            TransportPriorityQosPolicy, TypeConsistencyEnforcementQosPolicy, TypeConsistencyKind, UserDataQosPolicy,
            WriterDataLifecycleQosPolicy,
        },
        sample_info::{ANY_INSTANCE_STATE, ANY_SAMPLE_STATE, ANY_VIEW_STATE},
        status::NO_STATUS,
        time::{Duration, DurationKind},
    },
};
use proptest::prelude::*;
use serde::{Deserialize, Serialize};
use serde_json::json;
use sim::{
    case::{CaseResult, apply_abort, sim_stats},
    exec,
    props::{Campaign, campaign},
    types::KeyedData,
    util::{factory, wait_until},
};
use vcore::{Ctx, Meta, fork::Limits};

use crate::common::{Mismatch, R, call, pick_verdict, r_of};

// ------------------------------------------------------------------------------------------------
// case encoding

#[derive(Clone, Copy, Debug, PartialEq, Eq, Serialize, Deserialize)]
pub enum Kind {
    Topic,
    Publisher,
    Subscriber,
    Writer,
    Reader,
}

impl Kind {
    fn name(self) -> &'static str {
        match self {
            Kind::Topic => "topic",
            Kind::Publisher => "publisher",
            Kind::Subscriber => "subscriber",
            Kind::Writer => "writer",
            Kind::Reader => "reader",
        }
    }
}

/// Duration in ticks of 1/512 s (exactly representable in every time format involved); None = infinite.
pub type Dur = Option<u32>;
/// Resource limit; None = unlimited.
pub type Lim = Option<u8>;

/// One policy change. Policies an entity kind does not have are never generated for it.
#[derive(Clone, Debug, PartialEq, Serialize, Deserialize)]
pub enum Mut {
    Durability(u8),
    Deadline(Dur),
    LatencyBudget(Dur),
    Liveliness(u8, Dur),
    Reliability(bool, Dur),
    DestinationOrder(bool),
    History(Option<u8>),
    ResourceLimits(Lim, Lim, Lim),
    TransportPriority(i32),
    Lifespan(Dur),
    UserData(Vec<u8>),
    TopicData(Vec<u8>),
    GroupData(Vec<u8>),
    Ownership(bool),
    OwnershipStrength(i32),
    WriterDataLifecycle(bool),
    TimeBasedFilter(u32),
    ReaderDataLifecycle(Dur, Dur),
    Representation(Vec<i16>),
    Presentation(u8, bool, bool),
    Partition(Vec<String>),
    EntityFactory(bool),
    TypeConsistency(bool, u8),
}

impl Mut {
    fn policy(&self) -> &'static str {
        match self {
            Mut::Durability(_) => "durability",
            Mut::Deadline(_) => "deadline",
            Mut::LatencyBudget(_) => "latency_budget",
            Mut::Liveliness(..) => "liveliness",
            Mut::Reliability(..) => "reliability",
            Mut::DestinationOrder(_) => "destination_order",
            Mut::History(_) => "history",
            Mut::ResourceLimits(..) => "resource_limits",
            Mut::TransportPriority(_) => "transport_priority",
            Mut::Lifespan(_) => "lifespan",
            Mut::UserData(_) => "user_data",
            Mut::TopicData(_) => "topic_data",
            Mut::GroupData(_) => "group_data",
            Mut::Ownership(_) => "ownership",
            Mut::OwnershipStrength(_) => "ownership_strength",
            Mut::WriterDataLifecycle(_) => "writer_data_lifecycle",
            Mut::TimeBasedFilter(_) => "time_based_filter",
            Mut::ReaderDataLifecycle(..) => "reader_data_lifecycle",
            Mut::Representation(_) => "representation",
            Mut::Presentation(..) => "presentation",
            Mut::Partition(_) => "partition",
            Mut::EntityFactory(_) => "entity_factory",
            Mut::TypeConsistency(..) => "type_consistency",
        }
    }
}

#[derive(Clone, Debug, PartialEq, Serialize, Deserialize)]
pub enum Op {
    /// set_qos(current accepted QoS, or the factory default when `from_default`, with `muts` applied)
    SetQos { from_default: bool, muts: Vec<Mut> },
    /// set_qos(QosKind::Default)
    SetDefault,
    Enable,
    /// discovery checkpoint (only in e2e cases)
    Sync,
}

#[derive(Clone, Debug, Serialize, Deserialize)]
pub struct Case {
    pub kind: Kind,
    /// factory's autoenable_created_entities when the entity under test is created
    pub autoenable: bool,
    /// None = QosKind::Default, Some(muts) = default QoS with these changes
    pub create: Option<Vec<Mut>>,
    pub ops: Vec<Op>,
    /// second participant observing the announcements
    pub e2e: bool,
}

fn dur_strategy() -> impl Strategy<Value = Dur> {
    prop_oneof![2 => Just(None), 5 => prop_oneof![Just(1u32), Just(5), Just(51), Just(512), Just(2560)].prop_map(Some)]
}
fn lim_strategy() -> impl Strategy<Value = Lim> {
    prop_oneof![2 => Just(None), 5 => (1u8..=6).prop_map(Some)]
}
fn bytes_strategy() -> impl Strategy<Value = Vec<u8>> {
    prop::collection::vec(any::<u8>(), 0..4)
}

fn mut_strategy(kind: Kind) -> BoxedStrategy<Mut> {
    let durability = (0u8..4).prop_map(Mut::Durability).boxed();
    let deadline = dur_strategy().prop_map(Mut::Deadline).boxed();
    let latency = prop_oneof![Just(Some(0u32)), dur_strategy()].prop_map(Mut::LatencyBudget).boxed();
    let liveliness = (0u8..3, dur_strategy()).prop_map(|(k, d)| Mut::Liveliness(k, d)).boxed();
    let reliability = (any::<bool>(), dur_strategy()).prop_map(|(k, d)| Mut::Reliability(k, d)).boxed();
    let dest = any::<bool>().prop_map(Mut::DestinationOrder).boxed();
    let history = prop_oneof![1 => Just(None), 4 => (1u8..=7).prop_map(Some)].prop_map(Mut::History).boxed();
    let limits = (lim_strategy(), lim_strategy(), lim_strategy()).prop_map(|(a, b, c)| Mut::ResourceLimits(a, b, c)).boxed();
    let prio = (-3i32..4).prop_map(Mut::TransportPriority).boxed();
    let lifespan = dur_strategy().prop_map(Mut::Lifespan).boxed();
    let user = bytes_strategy().prop_map(Mut::UserData).boxed();
    let topicd = bytes_strategy().prop_map(Mut::TopicData).boxed();
    let groupd = bytes_strategy().prop_map(Mut::GroupData).boxed();
    let own = any::<bool>().prop_map(Mut::Ownership).boxed();
    let strength = (0i32..5).prop_map(Mut::OwnershipStrength).boxed();
    let wdl = any::<bool>().prop_map(Mut::WriterDataLifecycle).boxed();
    let tbf = prop_oneof![Just(0u32), Just(1), Just(5), Just(51), Just(512), Just(2560)].prop_map(Mut::TimeBasedFilter).boxed();
    let rdl = (dur_strategy(), dur_strategy()).prop_map(|(a, b)| Mut::ReaderDataLifecycle(a, b)).boxed();
    let wrepr = prop_oneof![3 => Just(vec![]), 3 => Just(vec![0i16]), 3 => Just(vec![2i16]), 1 => Just(vec![0i16, 2]), 1 => Just(vec![2i16, 0])]
        .prop_map(Mut::Representation)
        .boxed();
    let pres = (0u8..2, any::<bool>(), any::<bool>()).prop_map(|(a, b, c)| Mut::Presentation(a, b, c)).boxed();
    let part = prop::collection::vec(prop_oneof![Just("A".to_string()), Just("B".to_string()), Just("A*".to_string()), Just(String::new())], 0..3)
        .prop_map(Mut::Partition)
        .boxed();
    let ef = any::<bool>().prop_map(Mut::EntityFactory).boxed();
    let tc = (any::<bool>(), 0u8..32).prop_map(|(k, b)| Mut::TypeConsistency(k, b)).boxed();
    let w = |v: Vec<(u32, BoxedStrategy<Mut>)>| proptest::strategy::Union::new_weighted(v).boxed();
    match kind {
        Kind::Topic => w(vec![
            (1, durability), (1, deadline), (1, latency), (1, liveliness), (1, reliability), (1, dest), (2, history), (2, limits),
            (1, prio), (1, lifespan), (2, topicd), (1, own), (1, wrepr),
        ]),
        Kind::Writer => w(vec![
            (1, durability), (1, deadline), (1, latency), (1, liveliness), (1, reliability), (1, dest), (2, history), (2, limits),
            (1, prio), (1, lifespan), (2, user), (1, own), (1, strength), (1, wdl), (1, wrepr),
        ]),
        Kind::Reader => w(vec![
            (1, durability), (2, deadline), (1, latency), (1, liveliness), (1, reliability), (1, dest), (2, history), (2, limits),
            (2, user), (1, own), (2, tbf), (1, rdl), (1, wrepr), (1, tc),
        ]),
        Kind::Publisher | Kind::Subscriber => w(vec![(2, pres), (3, part), (3, groupd), (1, ef)]),
    }
}

pub fn strategy(thorough: bool) -> BoxedStrategy<Case> {
    let max_ops = if thorough { 24 } else { 12 };
    (
        prop_oneof![1 => Just(Kind::Topic), 1 => Just(Kind::Publisher), 1 => Just(Kind::Subscriber), 2 => Just(Kind::Writer), 2 => Just(Kind::Reader)],
        prop_oneof![3 => Just(true), 2 => Just(false)],
        prop_oneof![4 => Just(false), 1 => Just(true)],
    )
        .prop_flat_map(move |(kind, autoenable, e2e)| {
            let m = mut_strategy(kind);
            let muts = prop::collection::vec(m.clone(), 1..=3);
            let create = prop_oneof![1 => Just(None), 3 => prop::collection::vec(m, 0..=3).prop_map(Some)];
            let can_enable = matches!(kind, Kind::Topic | Kind::Writer | Kind::Reader);
            let op = prop_oneof![
                12 => (prop_oneof![9 => Just(false), 1 => Just(true)], muts).prop_map(|(from_default, muts)| Op::SetQos { from_default, muts }),
                1 => Just(Op::SetDefault),
                (if can_enable { 2 } else { 0 }) => Just(Op::Enable),
                (if e2e { 3 } else { 0 }) => Just(Op::Sync),
            ];
            (create, prop::collection::vec(op, 1..=max_ops)).prop_map(move |(create, ops)| Case { kind, autoenable, create, ops, e2e })
        })
        .boxed()
}

// ------------------------------------------------------------------------------------------------
// QoS model: consistency and changeability per DDS 1.4 (2.2.3, table "Changeable"), XTypes 1.3 7.6.3

fn dk(d: &Dur) -> DurationKind {
    match d {
        None => DurationKind::Infinite,
        Some(t) => DurationKind::Finite(Duration::new((t / 512) as i32, (t % 512) * 1_953_125)),
    }
}
fn len(l: &Lim) -> Length {
    match l {
        None => Length::Unlimited,
        Some(v) => Length::Limited(*v as i32),
    }
}
fn durability(k: u8) -> DurabilityQosPolicy {
    DurabilityQosPolicy {
        kind: match k {
            0 => DurabilityQosPolicyKind::Volatile,
            1 => DurabilityQosPolicyKind::TransientLocal,
            2 => DurabilityQosPolicyKind::Transient,
            _ => DurabilityQosPolicyKind::Persistent,
        },
    }
}
fn liveliness(k: u8, d: &Dur) -> LivelinessQosPolicy {
    LivelinessQosPolicy {
        kind: match k {
            0 => LivelinessQosPolicyKind::Automatic,
            1 => LivelinessQosPolicyKind::ManualByParticipant,
            _ => LivelinessQosPolicyKind::ManualByTopic,
        },
        lease_duration: dk(d),
    }
}
fn reliability(r: bool, d: &Dur) -> ReliabilityQosPolicy {
    ReliabilityQosPolicy {
        kind: if r { ReliabilityQosPolicyKind::Reliable } else { ReliabilityQosPolicyKind::BestEffort },
        max_blocking_time: dk(d),
    }
}
fn dest_order(s: bool) -> DestinationOrderQosPolicy {
    DestinationOrderQosPolicy {
        kind: if s { DestinationOrderQosPolicyKind::BySourceTimestamp } else { DestinationOrderQosPolicyKind::ByReceptionTimestamp },
    }
}
fn history(h: &Option<u8>) -> HistoryQosPolicy {
    HistoryQosPolicy {
        kind: match h {
            None => HistoryQosPolicyKind::KeepAll,
            Some(d) => HistoryQosPolicyKind::KeepLast(*d as u32),
        },
    }
}
fn limits(a: &Lim, b: &Lim, c: &Lim) -> ResourceLimitsQosPolicy {
    ResourceLimitsQosPolicy { max_samples: len(a), max_instances: len(b), max_samples_per_instance: len(c) }
}
fn ownership(e: bool) -> OwnershipQosPolicy {
    OwnershipQosPolicy { kind: if e { OwnershipQosPolicyKind::Exclusive } else { OwnershipQosPolicyKind::Shared } }
}
fn presentation(a: u8, c: bool, o: bool) -> PresentationQosPolicy {
    PresentationQosPolicy {
        access_scope: if a == 0 { PresentationQosPolicyAccessScopeKind::Instance } else { PresentationQosPolicyAccessScopeKind::Topic },
        coherent_access: c,
        ordered_access: o,
    }
}
fn type_consistency(k: bool, b: u8) -> TypeConsistencyEnforcementQosPolicy {
    TypeConsistencyEnforcementQosPolicy {
        kind: if k { TypeConsistencyKind::AllowTypeCoercion } else { TypeConsistencyKind::DisallowTypeCoercion },
        ignore_sequence_bounds: b & 1 != 0,
        ignore_string_bounds: b & 2 != 0,
        ignore_member_names: b & 4 != 0,
        prevent_type_widening: b & 8 != 0,
        force_type_validation: b & 16 != 0,
    }
}

#[derive(Clone, Copy, PartialEq, Eq, Debug)]
pub enum Tri {
    No,
    Yes,
    /// the specifications leave it open (or dust-dds documents its own choice): both results accepted
    Either,
}

/// RESOURCE_LIMITS/HISTORY consistency (DDS 1.4 2.2.3.19, 2.2.3.18): depth <= max_samples_per_instance,
/// max_samples >= max_samples_per_instance. A limited max_samples with unlimited max_samples_per_instance
/// is read both ways by implementations -> Either.
fn limits_inconsistent(h: &HistoryQosPolicy, r: &ResourceLimitsQosPolicy) -> (Tri, &'static str) {
    if let (HistoryQosPolicyKind::KeepLast(d), Length::Limited(m)) = (&h.kind, &r.max_samples_per_instance) {
        if *d as i64 > *m as i64 {
            return (Tri::Yes, "depth>max_samples_per_instance");
        }
    }
    match (&r.max_samples, &r.max_samples_per_instance) {
        (Length::Limited(a), Length::Limited(b)) if a < b => (Tri::Yes, "max_samples<max_samples_per_instance"),
        (Length::Limited(_), Length::Unlimited) => (Tri::Either, "max_samples-limited-with-unlimited-per-instance"),
        _ => (Tri::No, ""),
    }
}

fn dur_lt(a: &DurationKind, b: &DurationKind) -> bool {
    match (a, b) {
        (DurationKind::Infinite, _) => false,
        (DurationKind::Finite(_), DurationKind::Infinite) => true,
        (DurationKind::Finite(x), DurationKind::Finite(y)) => x < y,
    }
}

/// DATA_REPRESENTATION is not changeable (XTypes 1.3 7.6.3.1.1); an empty list means [XCDR1], so
/// [] <-> [XCDR1] is no real change (either result accepted).
fn repr_diff(definite: &mut Vec<&'static str>, tolerated: &mut Vec<&'static str>, a: &DataRepresentationQosPolicy, b: &DataRepresentationQosPolicy) {
    let norm = |p: &DataRepresentationQosPolicy| if p.value.is_empty() { vec![0] } else { p.value.clone() };
    if norm(a) != norm(b) {
        definite.push("representation");
    } else if a != b {
        tolerated.push("representation");
    }
}

pub trait QosModel: Clone + PartialEq + Debug + Default + 'static {
    fn apply(&mut self, m: &Mut);
    /// (inconsistent?, which rule)
    fn inconsistent(&self) -> (Tri, &'static str);
    /// policies that differ and must not change once enabled; second list: differ, changeability tolerated
    fn immutable_diff(&self, other: &Self) -> (Vec<&'static str>, Vec<&'static str>);
}

macro_rules! diff {
    ($v:ident, $a:expr, $b:expr, $($f:ident),*) => { $( if $a.$f != $b.$f { $v.push(stringify!($f)); } )* };
}

impl QosModel for TopicQos {
    fn apply(&mut self, m: &Mut) {
        match m {
            Mut::Durability(k) => self.durability = durability(*k),
            Mut::Deadline(d) => self.deadline = DeadlineQosPolicy { period: dk(d) },
            Mut::LatencyBudget(d) => self.latency_budget = LatencyBudgetQosPolicy { duration: dk(d) },
            Mut::Liveliness(k, d) => self.liveliness = liveliness(*k, d),
            Mut::Reliability(r, d) => self.reliability = reliability(*r, d),
            Mut::DestinationOrder(s) => self.destination_order = dest_order(*s),
            Mut::History(h) => self.history = history(h),
            Mut::ResourceLimits(a, b, c) => self.resource_limits = limits(a, b, c),
            Mut::TransportPriority(v) => self.transport_priority = TransportPriorityQosPolicy { value: *v },
            Mut::Lifespan(d) => self.lifespan = LifespanQosPolicy { duration: dk(d) },
            Mut::TopicData(v) => self.topic_data = TopicDataQosPolicy { value: v.iter().map(|x| *x as _).collect() },
            Mut::Ownership(e) => self.ownership = ownership(*e),
            Mut::Representation(v) => self.representation = DataRepresentationQosPolicy { value: v.iter().map(|x| *x as _).collect() },
            _ => {}
        }
    }
    fn inconsistent(&self) -> (Tri, &'static str) {
        limits_inconsistent(&self.history, &self.resource_limits)
    }
    fn immutable_diff(&self, o: &Self) -> (Vec<&'static str>, Vec<&'static str>) {
        let mut v = vec![];
        diff!(v, self, o, durability, liveliness, reliability, destination_order, history, resource_limits, ownership);
        let mut t = vec![];
        repr_diff(&mut v, &mut t, &self.representation, &o.representation);
        (v, t)
    }
}

impl QosModel for DataWriterQos {
    fn apply(&mut self, m: &Mut) {
        match m {
            Mut::Durability(k) => self.durability = durability(*k),
            Mut::Deadline(d) => self.deadline = DeadlineQosPolicy { period: dk(d) },
            Mut::LatencyBudget(d) => self.latency_budget = LatencyBudgetQosPolicy { duration: dk(d) },
            Mut::Liveliness(k, d) => self.liveliness = liveliness(*k, d),
            Mut::Reliability(r, d) => self.reliability = reliability(*r, d),
            Mut::DestinationOrder(s) => self.destination_order = dest_order(*s),
            Mut::History(h) => self.history = history(h),
            Mut::ResourceLimits(a, b, c) => self.resource_limits = limits(a, b, c),
            Mut::TransportPriority(v) => self.transport_priority = TransportPriorityQosPolicy { value: *v },
            Mut::Lifespan(d) => self.lifespan = LifespanQosPolicy { duration: dk(d) },
            Mut::UserData(v) => self.user_data = UserDataQosPolicy { value: v.iter().map(|x| *x as _).collect() },
            Mut::Ownership(e) => self.ownership = ownership(*e),
            Mut::OwnershipStrength(v) => self.ownership_strength = OwnershipStrengthQosPolicy { value: *v },
            Mut::WriterDataLifecycle(a) => {
                self.writer_data_lifecycle = WriterDataLifecycleQosPolicy { autodispose_unregistered_instances: *a }
            }
            Mut::Representation(v) => self.representation = DataRepresentationQosPolicy { value: v.iter().map(|x| *x as _).collect() },
            _ => {}
        }
    }
    fn inconsistent(&self) -> (Tri, &'static str) {
        let l = limits_inconsistent(&self.history, &self.resource_limits);
        if l.0 == Tri::Yes {
            return l;
        }
        // XTypes 1.3 7.6.3.1.1: a writer offers exactly one representation (the first of its list); dust-dds
        // documents "no more than one value" as inconsistent. Both accepted.
        if self.representation.value.len() > 1 {
            return (Tri::Either, "writer-with-several-representations");
        }
        l
    }
    fn immutable_diff(&self, o: &Self) -> (Vec<&'static str>, Vec<&'static str>) {
        let mut v = vec![];
        diff!(v, self, o, durability, liveliness, reliability, destination_order, history, resource_limits, ownership);
        let mut t = vec![];
        repr_diff(&mut v, &mut t, &self.representation, &o.representation);
        (v, t)
    }
}

impl QosModel for DataReaderQos {
    fn apply(&mut self, m: &Mut) {
        match m {
            Mut::Durability(k) => self.durability = durability(*k),
            Mut::Deadline(d) => self.deadline = DeadlineQosPolicy { period: dk(d) },
            Mut::LatencyBudget(d) => self.latency_budget = LatencyBudgetQosPolicy { duration: dk(d) },
            Mut::Liveliness(k, d) => self.liveliness = liveliness(*k, d),
            Mut::Reliability(r, d) => self.reliability = reliability(*r, d),
            Mut::DestinationOrder(s) => self.destination_order = dest_order(*s),
            Mut::History(h) => self.history = history(h),
            Mut::ResourceLimits(a, b, c) => self.resource_limits = limits(a, b, c),
            Mut::UserData(v) => self.user_data = UserDataQosPolicy { value: v.iter().map(|x| *x as _).collect() },
            Mut::Ownership(e) => self.ownership = ownership(*e),
            Mut::TimeBasedFilter(t) => self.time_based_filter = TimeBasedFilterQosPolicy { minimum_separation: dk(&Some(*t)) },
            Mut::ReaderDataLifecycle(a, b) => {
                self.reader_data_lifecycle = ReaderDataLifecycleQosPolicy {
                    autopurge_nowriter_samples_delay: dk(a),
                    autopurge_disposed_samples_delay: dk(b),
                }
            }
            Mut::Representation(v) => self.representation = DataRepresentationQosPolicy { value: v.iter().map(|x| *x as _).collect() },
            Mut::TypeConsistency(k, b) => self.type_consistency = type_consistency(*k, *b),
            _ => {}
        }
    }
    fn inconsistent(&self) -> (Tri, &'static str) {
        let l = limits_inconsistent(&self.history, &self.resource_limits);
        if l.0 == Tri::Yes {
            return l;
        }
        // DDS 1.4 2.2.3.12: deadline period >= minimum_separation
        if dur_lt(&self.deadline.period, &self.time_based_filter.minimum_separation) {
            return (Tri::Yes, "deadline<minimum_separation");
        }
        l
    }
    fn immutable_diff(&self, o: &Self) -> (Vec<&'static str>, Vec<&'static str>) {
        let mut v = vec![];
        diff!(v, self, o, durability, liveliness, reliability, destination_order, history, resource_limits, ownership);
        let mut t = vec![];
        repr_diff(&mut v, &mut t, &self.representation, &o.representation);
        // XTypes 1.3 lists TYPE_CONSISTENCY_ENFORCEMENT as not changeable; DDS 1.4 does not know it -> tolerated
        diff!(t, self, o, type_consistency);
        (v, t)
    }
}

impl QosModel for PublisherQos {
    fn apply(&mut self, m: &Mut) {
        match m {
            Mut::Presentation(a, c, o) => self.presentation = presentation(*a, *c, *o),
            Mut::Partition(p) => self.partition = PartitionQosPolicy { name: p.clone() },
            Mut::GroupData(v) => self.group_data = GroupDataQosPolicy { value: v.iter().map(|x| *x as _).collect() },
            Mut::EntityFactory(a) => self.entity_factory = EntityFactoryQosPolicy { autoenable_created_entities: *a },
            _ => {}
        }
    }
    fn inconsistent(&self) -> (Tri, &'static str) {
        (Tri::No, "")
    }
    fn immutable_diff(&self, o: &Self) -> (Vec<&'static str>, Vec<&'static str>) {
        let mut v = vec![];
        diff!(v, self, o, presentation);
        (v, vec![])
    }
}

impl QosModel for SubscriberQos {
    fn apply(&mut self, m: &Mut) {
        match m {
            Mut::Presentation(a, c, o) => self.presentation = presentation(*a, *c, *o),
            Mut::Partition(p) => self.partition = PartitionQosPolicy { name: p.clone() },
            Mut::GroupData(v) => self.group_data = GroupDataQosPolicy { value: v.iter().map(|x| *x as _).collect() },
            Mut::EntityFactory(a) => self.entity_factory = EntityFactoryQosPolicy { autoenable_created_entities: *a },
            _ => {}
        }
    }
    fn inconsistent(&self) -> (Tri, &'static str) {
        (Tri::No, "")
    }
    fn immutable_diff(&self, o: &Self) -> (Vec<&'static str>, Vec<&'static str>) {
        let mut v = vec![];
        diff!(v, self, o, presentation);
        (v, vec![])
    }
}

// ------------------------------------------------------------------------------------------------
// entity access

/// What the second participant sees of the entity, reduced to "which announced policies differ from `q`".
pub trait Api {
    type Q: QosModel;
    async fn set(&self, q: QosKind<Self::Q>) -> R;
    async fn get(&self) -> Option<DdsResult<Self::Q>>;
    async fn enable(&self) -> R;
    /// None = nothing announced (yet); Some(list of policies whose announced value differs from q)
    async fn announced_diff(&self, obs: &Observer, q: &Self::Q) -> Option<Vec<&'static str>>;
}

/// The observing participant's builtin readers.
pub struct Observer {
    p2: DomainParticipantAsync,
    pubs: DataReaderAsync<PublicationBuiltinTopicData>,
    subs: DataReaderAsync<SubscriptionBuiltinTopicData>,
}

impl Observer {
    async fn publication(&self, key: [u8; 16]) -> Option<PublicationBuiltinTopicData> {
        let v = self.pubs.read(10_000, ANY_SAMPLE_STATE, ANY_VIEW_STATE, ANY_INSTANCE_STATE).await.ok()?;
        v.into_iter().filter_map(|s| s.data).filter(|d| d.key().value == key).last()
    }
    async fn subscription(&self, key: [u8; 16]) -> Option<SubscriptionBuiltinTopicData> {
        let v = self.subs.read(10_000, ANY_SAMPLE_STATE, ANY_VIEW_STATE, ANY_INSTANCE_STATE).await.ok()?;
        v.into_iter().filter_map(|s| s.data).filter(|d| d.key().value == key).last()
    }
}

macro_rules! cmp {
    ($v:ident, $d:expr, $q:expr, $($f:ident),*) => { $( if $d.$f() != &$q.$f { $v.push(stringify!($f)); } )* };
}

struct TopicE(TopicAsync);
impl Api for TopicE {
    type Q = TopicQos;
    async fn set(&self, q: QosKind<TopicQos>) -> R {
        r_of(&call(self.0.set_qos(q)).await)
    }
    async fn get(&self) -> Option<DdsResult<TopicQos>> {
        call(self.0.get_qos()).await
    }
    async fn enable(&self) -> R {
        r_of(&call(self.0.enable()).await)
    }
    async fn announced_diff(&self, obs: &Observer, q: &TopicQos) -> Option<Vec<&'static str>> {
        use dust_dds::dds_async::topic_description::TopicDescriptionAsync;
        let name = self.0.get_name();
        let handles = obs.p2.get_discovered_topics().await.ok()?;
        for h in handles {
            if let Ok(d) = obs.p2.get_discovered_topic_data(h).await {
                if d.name() == name {
                    let mut v = vec![];
                    cmp!(v, d, q, durability, deadline, latency_budget, liveliness, reliability, transport_priority, lifespan,
                        destination_order, history, resource_limits, ownership, topic_data, representation);
                    return Some(v);
                }
            }
        }
        None
    }
}

struct WriterE(DataWriterAsync<KeyedData>);
impl Api for WriterE {
    type Q = DataWriterQos;
    async fn set(&self, q: QosKind<DataWriterQos>) -> R {
        r_of(&call(self.0.set_qos(q)).await)
    }
    async fn get(&self) -> Option<DdsResult<DataWriterQos>> {
        call(self.0.get_qos()).await
    }
    async fn enable(&self) -> R {
        r_of(&call(self.0.enable()).await)
    }
    async fn announced_diff(&self, obs: &Observer, q: &DataWriterQos) -> Option<Vec<&'static str>> {
        let d = obs.publication(self.0.get_instance_handle().into()).await?;
        let mut v = vec![];
        cmp!(v, d, q, durability, deadline, latency_budget, liveliness, reliability, lifespan, user_data, ownership,
            ownership_strength, destination_order, representation);
        Some(v)
    }
}

struct ReaderE(DataReaderAsync<KeyedData>);
impl Api for ReaderE {
    type Q = DataReaderQos;
    async fn set(&self, q: QosKind<DataReaderQos>) -> R {
        r_of(&call(self.0.set_qos(q)).await)
    }
    async fn get(&self) -> Option<DdsResult<DataReaderQos>> {
        call(self.0.get_qos()).await
    }
    async fn enable(&self) -> R {
        r_of(&call(self.0.enable()).await)
    }
    async fn announced_diff(&self, obs: &Observer, q: &DataReaderQos) -> Option<Vec<&'static str>> {
        let d = obs.subscription(self.0.get_instance_handle().into()).await?;
        let mut v = vec![];
        cmp!(v, d, q, durability, deadline, latency_budget, liveliness, reliability, ownership, destination_order, user_data,
            time_based_filter, representation, type_consistency);
        Some(v)
    }
}

/// publisher under test + the helper writer through which its policies are announced
struct PublisherE(PublisherAsync, Option<DataWriterAsync<KeyedData>>);
impl Api for PublisherE {
    type Q = PublisherQos;
    async fn set(&self, q: QosKind<PublisherQos>) -> R {
        r_of(&call(self.0.set_qos(q)).await)
    }
    async fn get(&self) -> Option<DdsResult<PublisherQos>> {
        call(self.0.get_qos()).await
    }
    async fn enable(&self) -> R {
        R::Ok
    }
    async fn announced_diff(&self, obs: &Observer, q: &PublisherQos) -> Option<Vec<&'static str>> {
        let w = self.1.as_ref()?;
        let d = obs.publication(w.get_instance_handle().into()).await?;
        let mut v = vec![];
        cmp!(v, d, q, presentation, partition, group_data);
        Some(v)
    }
}

struct SubscriberE(SubscriberAsync, Option<DataReaderAsync<KeyedData>>);
impl Api for SubscriberE {
    type Q = SubscriberQos;
    async fn set(&self, q: QosKind<SubscriberQos>) -> R {
        r_of(&call(self.0.set_qos(q)).await)
    }
    async fn get(&self) -> Option<DdsResult<SubscriberQos>> {
        call(self.0.get_qos()).await
    }
    async fn enable(&self) -> R {
        R::Ok
    }
    async fn announced_diff(&self, obs: &Observer, q: &SubscriberQos) -> Option<Vec<&'static str>> {
        let r = self.1.as_ref()?;
        let d = obs.subscription(r.get_instance_handle().into()).await?;
        let mut v = vec![];
        cmp!(v, d, q, presentation, partition, group_data);
        Some(v)
    }
}

// ------------------------------------------------------------------------------------------------

#[derive(Default, Clone, Debug, Serialize, Deserialize)]
pub struct Out {
    pub setup_error: Option<String>,
    pub mismatches: Vec<Mismatch>,
    pub classes: Vec<String>,
    pub ops_done: usize,
    pub rejections_checked: u32,
    pub accepted: u32,
    pub syncs: u32,
    pub trace: Vec<String>,
}

impl Out {
    fn class(&mut self, c: &str) {
        if !self.classes.iter().any(|x| x == c) {
            self.classes.push(c.to_string());
        }
    }
    fn mismatch(&mut self, sig: String, what: String) {
        let tr = self.trace.len();
        self.mismatches.push((sig, format!("{what} (history: {})", self.trace[tr.saturating_sub(10)..].join("; "))));
    }
}

fn build<Q: QosModel>(base: &Q, muts: &[Mut]) -> Q {
    let mut q = base.clone();
    for m in muts {
        q.apply(m);
    }
    q
}

/// Allowed results of set_qos / create with value `q` given the accepted value `cur` and `enabled`.
fn allowed<Q: QosModel>(cur: Option<&Q>, q: &Q, enabled: bool) -> (Vec<&'static str>, String) {
    let (inc, rule) = q.inconsistent();
    let (imm, tol) = match cur {
        Some(c) if enabled => c.immutable_diff(q),
        _ => (vec![], vec![]),
    };
    let imm_t = if !imm.is_empty() {
        Tri::Yes
    } else if !tol.is_empty() {
        Tri::Either
    } else {
        Tri::No
    };
    let mut v: Vec<&'static str> = vec![];
    for i in [false, true] {
        for m in [false, true] {
            let i_ok = match inc {
                Tri::No => !i,
                Tri::Yes => i,
                Tri::Either => true,
            };
            let m_ok = match imm_t {
                Tri::No => !m,
                Tri::Yes => m,
                Tri::Either => true,
            };
            if !(i_ok && m_ok) {
                continue;
            }
            let outs: &[&'static str] = match (i, m) {
                (false, false) => &["Ok"],
                (true, false) => &["InconsistentPolicy"],
                (false, true) => &["ImmutablePolicy"],
                (true, true) => &["InconsistentPolicy", "ImmutablePolicy"],
            };
            for o in outs {
                if !v.contains(o) {
                    v.push(o);
                }
            }
        }
    }
    let why = format!(
        "{}{}",
        if inc != Tri::No { format!("inconsistent[{rule}{}] ", if inc == Tri::Either { " (either)" } else { "" }) } else { String::new() },
        if enabled && (!imm.is_empty() || !tol.is_empty()) {
            format!("immutable-changed[{}{}]", imm.join(","), if tol.is_empty() { String::new() } else { format!(" tolerated:{}", tol.join(",")) })
        } else {
            String::new()
        }
    );
    (v, why)
}

/// shape of a set_qos situation for signatures: which rule / which immutable policy (first one)
fn shape<Q: QosModel>(cur: Option<&Q>, q: &Q, enabled: bool) -> String {
    let (inc, rule) = q.inconsistent();
    let imm = match cur {
        Some(c) if enabled => c.immutable_diff(q).0,
        _ => vec![],
    };
    // signature shape: rule family (the exact rule is in the explanation)
    let rule = match rule {
        "depth>max_samples_per_instance" | "max_samples<max_samples_per_instance" => "history/resource_limits",
        r => r,
    };
    match (inc, imm.first()) {
        (Tri::Yes, Some(_)) => format!("inconsistent[{rule}]+immutable"),
        (Tri::Yes, None) => format!("inconsistent[{rule}]"),
        (_, Some(p)) => format!("immutable[{p}]"),
        (Tri::Either, None) => format!("open[{rule}]"),
        (Tri::No, None) => "valid".to_string(),
    }
}

struct Run<'a, E: Api> {
    kind: Kind,
    e: &'a E,
    cur: E::Q,
    enabled: bool,
    /// values accepted while enabled (oldest first), for "stale announcement" diagnosis
    announced_history: Vec<E::Q>,
    obs: Option<&'a Observer>,
    out: &'a mut Out,
}

impl<'a, E: Api> Run<'a, E> {
    async fn verify_get(&mut self, after: &str) {
        match self.e.get().await {
            Some(Ok(q)) => {
                if q != self.cur {
                    let k = self.kind.name();
                    self.out.mismatch(
                        format!("C37:get_qos:{k}:{after}"),
                        format!("get_qos of the {k} {after} differs from the last accepted QoS: got {q:?}, accepted {:?}", self.cur),
                    );
                    self.cur = q;
                }
            }
            other => {
                let r = r_of(&other);
                let k = self.kind.name();
                self.out.mismatch(format!("C37:get_qos:{k}:returned-{}", r.name()), format!("get_qos of the {k} returned {}", r.name()));
            }
        }
    }

    async fn set(&mut self, q: E::Q, as_default: bool, label: &str) {
        let k = self.kind.name();
        let (allow, why) = allowed(Some(&self.cur), &q, self.enabled);
        let sh = shape(Some(&self.cur), &q, self.enabled);
        let en = if self.enabled { "enabled" } else { "disabled" };
        let got = if as_default { self.e.set(QosKind::Default).await } else { self.e.set(QosKind::Specific(q.clone())).await };
        self.out.trace.push(format!("{label} on {en} {k} [{sh}] -> {}", got.name()));
        if allow.iter().any(|a| *a != "Ok") {
            self.out.rejections_checked += 1;
            self.out.class(&format!("{k}:{en}:{}", sh.split('[').next().unwrap_or("")));
        } else {
            self.out.class(&format!("{k}:{en}:valid"));
        }
        if got == R::Hang {
            self.out.mismatch(format!("C37:hang:set_qos:{k}"), "set_qos did not return".into());
            return;
        }
        if !allow.contains(&got.name()) {
            self.out.mismatch(
                format!("C37:set_qos:{k}:{en}:{sh}:want-{}-got-{}", allow.join("|"), got.name()),
                format!("{label} on the {en} {k}: got {}, demanded {} ({why}); requested {q:?}", got.name(), allow.join("|")),
            );
        }
        if got == R::Ok {
            self.out.accepted += 1;
            self.cur = q;
            if self.enabled {
                self.announced_history.push(self.cur.clone());
            }
            self.verify_get("after-accepted-set_qos").await;
        } else {
            self.verify_get("after-rejected-set_qos").await;
        }
    }

    async fn sync(&mut self) {
        let Some(obs) = self.obs else { return };
        if !self.enabled {
            return;
        }
        let k = self.kind.name();
        self.out.syncs += 1;
        self.out.class(&format!("{k}:e2e-checkpoint"));
        // quiescence: bounded virtual wait for the announcement to show the accepted value
        let mut last: Option<Vec<&'static str>> = None;
        let e = self.e;
        let cur = self.cur.clone();
        let ok = {
            let last_ref = &mut last;
            let mut waited = 0u64;
            loop {
                let d = e.announced_diff(obs, &cur).await;
                let done = matches!(&d, Some(v) if v.is_empty());
                *last_ref = d;
                if done {
                    break true;
                }
                if waited >= 4_000 {
                    break false;
                }
                exec::sleep_ms(250).await;
                waited += 250;
            }
        };
        self.out.trace.push(format!("checkpoint -> {}", if ok { "announced == accepted".to_string() } else { format!("{last:?}") }));
        if ok {
            return;
        }
        match last {
            None => self.out.mismatch(
                format!("C37:announce:{k}:nothing-announced"),
                format!("4 s after the last change the observing participant still has no announcement of the enabled {k}"),
            ),
            Some(diff) => {
                // does the announcement equal an older accepted value? then the change was not re-announced
                let mut stale = false;
                for old in self.announced_history.iter().rev().skip(1) {
                    if matches!(e.announced_diff(obs, old).await, Some(v) if v.is_empty()) {
                        stale = true;
                        break;
                    }
                }
                let what = if stale { "change-not-reannounced".to_string() } else { format!("wrong-value[{}]", diff[0]) };
                self.out.mismatch(
                    format!("C37:announce:{k}:{what}"),
                    format!(
                        "4 s after the last accepted set_qos the observing participant's builtin data of the {k} differs from get_qos in {:?}{}; accepted {:?}",
                        diff,
                        if stale { " and equals an earlier accepted QoS" } else { "" },
                        self.cur
                    ),
                );
            }
        }
    }

    async fn ops(&mut self, ops: &[Op]) {
        for op in ops {
            self.out.ops_done += 1;
            match op {
                Op::SetQos { from_default, muts } => {
                    let base = if *from_default { E::Q::default() } else { self.cur.clone() };
                    let q = build(&base, muts);
                    let label = format!("set_qos({}{})", if *from_default { "default+" } else { "current+" }, muts.iter().map(|m| m.policy()).collect::<Vec<_>>().join("+"));
                    self.set(q, false, &label).await;
                }
                Op::SetDefault => {
                    let q = E::Q::default();
                    // on an enabled entity whose immutable policies differ from the default the documented result
                    // ("cannot modify the immutable QoS") is not pinned down: skipped
                    let (imm, tol) = self.cur.immutable_diff(&q);
                    if self.enabled && (!imm.is_empty() || !tol.is_empty()) {
                        self.out.class("set-default-skipped");
                        continue;
                    }
                    self.set(q, true, "set_qos(QosKind::Default)").await;
                }
                Op::Enable => {
                    let r = self.e.enable().await;
                    let k = self.kind.name();
                    self.out.trace.push(format!("enable -> {}", r.name()));
                    if r != R::Ok {
                        self.out.mismatch(format!("C37:enable:{k}:got-{}", r.name()), format!("enable of the {k} returned {}", r.name()));
                    } else if !self.enabled {
                        self.enabled = true;
                        self.announced_history.push(self.cur.clone());
                        self.out.class(&format!("{k}:enabled-later"));
                    }
                    self.verify_get("after-enable").await;
                }
                Op::Sync => self.sync().await,
            }
        }
        self.sync().await;
    }
}

/// Creation with a generated QoS: inconsistent -> InconsistentPolicy and nothing created.
fn check_create<Q: QosModel>(out: &mut Out, kind: Kind, q: &Q, got: &R) -> bool {
    let k = kind.name();
    let (allow, why) = allowed::<Q>(None, q, false);
    let sh = shape::<Q>(None, q, false);
    out.trace.push(format!("create {k} [{sh}] -> {}", got.name()));
    if allow.iter().any(|a| *a != "Ok") {
        out.rejections_checked += 1;
        out.class(&format!("{k}:create:{}", sh.split('[').next().unwrap_or("")));
    }
    if !allow.contains(&got.name()) {
        out.mismatch(
            format!("C37:create:{k}:{sh}:want-{}-got-{}", allow.join("|"), got.name()),
            format!("creating the {k}: got {}, demanded {} ({why}); requested {q:?}", got.name(), allow.join("|")),
        );
    }
    *got == R::Ok
}

async fn scenario(c: Case) -> Out {
    let mut out = Out::default();
    let f = factory();
    macro_rules! setup {
        ($e:expr, $what:expr) => {
            match call($e).await {
                Some(Ok(v)) => v,
                _ => {
                    out.setup_error = Some(format!("{} failed", $what));
                    return out;
                }
            }
        };
    }
    let p1 = setup!(f.create_participant(0, QosKind::Default, NO_LISTENER, NO_STATUS), "create_participant");
    exec::with_world(|w| w.net.log_enabled = false);
    let observer = if c.e2e {
        let p2 = setup!(f.create_participant(0, QosKind::Default, NO_LISTENER, NO_STATUS), "create_participant 2");
        let bs = p2.get_builtin_subscriber();
        let pubs = match call(bs.lookup_datareader::<PublicationBuiltinTopicData>("DCPSPublication")).await {
            Some(Ok(Some(r))) => r,
            _ => {
                out.setup_error = Some("builtin DCPSPublication reader not found".into());
                return out;
            }
        };
        let subs = match call(bs.lookup_datareader::<SubscriptionBuiltinTopicData>("DCPSSubscription")).await {
            Some(Ok(Some(r))) => r,
            _ => {
                out.setup_error = Some("builtin DCPSSubscription reader not found".into());
                return out;
            }
        };
        let h1 = p1.get_instance_handle();
        let seen = wait_until(20_000, 50, || async { p2.get_discovered_participants().await.map(|v| v.contains(&h1)).unwrap_or(false) }).await;
        if !seen {
            out.setup_error = Some("participants did not discover each other within 20 s".into());
            return out;
        }
        Some(Observer { p2, pubs, subs })
    } else {
        None
    };
    let obs = observer.as_ref();
    out.class(if c.e2e { "e2e" } else { "local-only" });
    let kind = c.kind;
    let part_level = matches!(kind, Kind::Topic | Kind::Publisher | Kind::Subscriber);
    if part_level && !c.autoenable {
        let q = DomainParticipantQos { entity_factory: EntityFactoryQosPolicy { autoenable_created_entities: false }, ..Default::default() };
        setup!(p1.set_qos(QosKind::Specific(q)), "participant set_qos");
    }
    let helper_topic = |name: &'static str| p1.create_topic::<KeyedData>(name, "KeyedData", QosKind::Default, NO_LISTENER, NO_STATUS);
    match kind {
        Kind::Topic => {
            let cq = c.create.as_ref().map(|m| build(&TopicQos::default(), m));
            let mut r = call(p1.create_topic::<KeyedData>(
                "UT",
                "KeyedData",
                cq.clone().map(QosKind::Specific).unwrap_or(QosKind::Default),
                NO_LISTENER,
                NO_STATUS,
            ))
            .await;
            let mut cur = cq.clone().unwrap_or_default();
            if !check_create(&mut out, kind, &cur, &r_of(&r)) {
                if matches!(r, Some(Ok(_))) {
                    // created although it should not: go on with what exists
                } else {
                    r = call(p1.create_topic::<KeyedData>("UT", "KeyedData", QosKind::Default, NO_LISTENER, NO_STATUS)).await;
                    cur = TopicQos::default();
                }
            }
            let Some(Ok(t)) = r else {
                out.setup_error = Some("create_topic with default QoS failed".into());
                return out;
            };
            let e = TopicE(t);
            let mut run = Run { kind, e: &e, cur: cur.clone(), enabled: c.autoenable, announced_history: if c.autoenable { vec![cur] } else { vec![] }, obs, out: &mut out };
            run.verify_get("after-create").await;
            run.ops(&c.ops).await;
        }
        Kind::Publisher => {
            let cq = c.create.as_ref().map(|m| build(&PublisherQos::default(), m));
            let r = call(p1.create_publisher(cq.clone().map(QosKind::Specific).unwrap_or(QosKind::Default), NO_LISTENER, NO_STATUS)).await;
            let cur = cq.unwrap_or_default();
            check_create(&mut out, kind, &cur, &r_of(&r));
            let Some(Ok(p)) = r else {
                out.setup_error = Some("create_publisher failed".into());
                return out;
            };
            // helper writer through which the publisher's policies reach the network
            let mut w = None;
            if c.e2e && c.autoenable {
                let t = setup!(helper_topic("HT"), "helper topic");
                let hw = setup!(p.create_datawriter::<KeyedData>(&t, QosKind::Default, NO_LISTENER, NO_STATUS), "helper writer");
                setup!(hw.enable(), "helper writer enable");
                w = Some(hw);
            }
            let e = PublisherE(p, w);
            let mut run = Run { kind, e: &e, cur: cur.clone(), enabled: c.autoenable, announced_history: if c.autoenable { vec![cur] } else { vec![] }, obs, out: &mut out };
            run.verify_get("after-create").await;
            run.ops(&c.ops).await;
        }
        Kind::Subscriber => {
            let cq = c.create.as_ref().map(|m| build(&SubscriberQos::default(), m));
            let r = call(p1.create_subscriber(cq.clone().map(QosKind::Specific).unwrap_or(QosKind::Default), NO_LISTENER, NO_STATUS)).await;
            let cur = cq.unwrap_or_default();
            check_create(&mut out, kind, &cur, &r_of(&r));
            let Some(Ok(s)) = r else {
                out.setup_error = Some("create_subscriber failed".into());
                return out;
            };
            let mut rd = None;
            if c.e2e && c.autoenable {
                let t = setup!(helper_topic("HT"), "helper topic");
                let hr = setup!(s.create_datareader::<KeyedData>(&t, QosKind::Default, NO_LISTENER, NO_STATUS), "helper reader");
                setup!(hr.enable(), "helper reader enable");
                rd = Some(hr);
            }
            let e = SubscriberE(s, rd);
            let mut run = Run { kind, e: &e, cur: cur.clone(), enabled: c.autoenable, announced_history: if c.autoenable { vec![cur] } else { vec![] }, obs, out: &mut out };
            run.verify_get("after-create").await;
            run.ops(&c.ops).await;
        }
        Kind::Writer => {
            let t = setup!(helper_topic("HT"), "helper topic");
            let pq = PublisherQos { entity_factory: EntityFactoryQosPolicy { autoenable_created_entities: c.autoenable }, ..Default::default() };
            let p = setup!(p1.create_publisher(QosKind::Specific(pq), NO_LISTENER, NO_STATUS), "create_publisher");
            let cq = c.create.as_ref().map(|m| build(&DataWriterQos::default(), m));
            let mut r = call(p.create_datawriter::<KeyedData>(&t, cq.clone().map(QosKind::Specific).unwrap_or(QosKind::Default), NO_LISTENER, NO_STATUS)).await;
            let mut cur = cq.unwrap_or_default();
            if !check_create(&mut out, kind, &cur, &r_of(&r)) && !matches!(r, Some(Ok(_))) {
                r = call(p.create_datawriter::<KeyedData>(&t, QosKind::Default, NO_LISTENER, NO_STATUS)).await;
                cur = DataWriterQos::default();
            }
            let Some(Ok(w)) = r else {
                out.setup_error = Some("create_datawriter with default QoS failed".into());
                return out;
            };
            let e = WriterE(w);
            let mut run = Run { kind, e: &e, cur: cur.clone(), enabled: c.autoenable, announced_history: if c.autoenable { vec![cur] } else { vec![] }, obs, out: &mut out };
            run.verify_get("after-create").await;
            run.ops(&c.ops).await;
        }
        Kind::Reader => {
            let t = setup!(helper_topic("HT"), "helper topic");
            let sq = SubscriberQos { entity_factory: EntityFactoryQosPolicy { autoenable_created_entities: c.autoenable }, ..Default::default() };
            let s = setup!(p1.create_subscriber(QosKind::Specific(sq), NO_LISTENER, NO_STATUS), "create_subscriber");
            let cq = c.create.as_ref().map(|m| build(&DataReaderQos::default(), m));
            let mut r = call(s.create_datareader::<KeyedData>(&t, cq.clone().map(QosKind::Specific).unwrap_or(QosKind::Default), NO_LISTENER, NO_STATUS)).await;
            let mut cur = cq.unwrap_or_default();
            if !check_create(&mut out, kind, &cur, &r_of(&r)) && !matches!(r, Some(Ok(_))) {
                r = call(s.create_datareader::<KeyedData>(&t, QosKind::Default, NO_LISTENER, NO_STATUS)).await;
                cur = DataReaderQos::default();
            }
            let Some(Ok(rd)) = r else {
                out.setup_error = Some("create_datareader with default QoS failed".into());
                return out;
            };
            let e = ReaderE(rd);
            let mut run = Run { kind, e: &e, cur: cur.clone(), enabled: c.autoenable, announced_history: if c.autoenable { vec![cur] } else { vec![] }, obs, out: &mut out };
            run.verify_get("after-create").await;
            run.ops(&c.ops).await;
        }
    }
    out
}

pub fn eval(case: &Case) -> CaseResult {
    let mut res = CaseResult::default();
    match exec::run(scenario(case.clone())) {
        Ok(out) => {
            if let Some(e) = &out.setup_error {
                res.harness_error = Some(e.clone());
            } else {
                res.verdict = pick_verdict("C37", &out.mismatches);
                res.classes = out.classes.clone();
                res.nontrivial = out.rejections_checked >= 1 || out.syncs >= 1;
                let mut sigs: Vec<String> = out.mismatches.iter().map(|m| m.0.clone()).collect();
                sigs.dedup();
                res.info = json!({
                    "ops_done": out.ops_done, "rejections_checked": out.rejections_checked, "accepted": out.accepted,
                    "checkpoints": out.syncs, "mismatch_signatures": sigs, "trace": out.trace,
                });
            }
        }
        Err(a) => apply_abort("C37", &mut res, a),
    }
    res.sim = sim_stats();
    res
}

pub fn main(ctx: &Ctx) {
    let thorough = ctx.tier == vcore::Tier::Thorough;
    campaign(
        ctx,
        Campaign {
            total_cases: ctx.pick(1_500, 16_000),
            max_shrink_iters: 200,
            limits: Limits { cpu_s: 30, wall_s: 120, as_bytes: 4 << 30 },
            meta: Meta {
                rule: "one entity under test (topic, publisher, subscriber, writer, reader), created with a generated QoS (default or default + 0-3 policy changes) by a factory with autoenable on/off, then 1-12(24) ops: set_qos(current or default QoS + 1-3 generated policy changes over the entity's whole policy set, incl. depth>max_samples_per_instance, max_samples<max_samples_per_instance, deadline<minimum_separation, several writer representations), set_qos(Default), enable, and in 20% of the cases (second participant) discovery checkpoints; expected result from the DDS 1.4 consistency rules and Changeable column; get_qos compared with the last accepted value after every call; at checkpoints the observer's DCPSPublication/DCPSSubscription/discovered-topic data must equal the accepted QoS within 4 s virtual; non-trivial = at least one rejection (InconsistentPolicy/ImmutablePolicy) was due or one discovery checkpoint ran; distinct = hash of the case",
                assumptions: &[
                    "deterministic simulation, async API; durations are multiples of 1/512 s so that every time representation holds them exactly",
                    "immutable once enabled (DDS 1.4 table + XTypes 1.3): durability, liveliness, reliability, destination_order, history, resource_limits, ownership, presentation, data representation; everything else changeable",
                    "tolerated: limited max_samples with unlimited max_samples_per_instance (Ok or InconsistentPolicy); writer with more than one data representation (Ok or InconsistentPolicy, dust-dds documents the latter); changing TYPE_CONSISTENCY_ENFORCEMENT on an enabled reader (Ok or ImmutablePolicy); both error codes when a value is inconsistent and changes an immutable policy; set_qos(Default) on an enabled entity whose immutable policies differ from the default is skipped",
                    "publishers/subscribers cannot be enabled later (PublisherAsync/SubscriberAsync::enable are todo!()): they are enabled at creation or never; their policies are observed through a helper writer/reader",
                    "the case verdict is the first mismatch whose signature is not a listed known finding",
                ],
                nontrivial_floor: 300,
            },
        },
        strategy(thorough),
        eval,
    );
}
