//! Small helpers shared by the four properties.

use std::future::Future;

use dust_dds::infrastructure::error::{DdsError, DdsResult};
use sim::util::{Timed, timeout};

/// Virtual-time bound for one API call: the DDS worker answers a mail in zero virtual time, so
/// any call that needs more than this is "hangs the participant".
pub const CALL_TIMEOUT_MS: u64 = 5_000;

/// Outcome of one API call, reduced to what the oracles compare.
#[derive(Clone, Debug, PartialEq, Eq)]
pub enum R {
    Ok,
    Err(&'static str),
    Hang,
}

impl R {
    pub fn name(&self) -> &'static str {
        match self {
            R::Ok => "Ok",
            R::Err(e) => e,
            R::Hang => "Hang",
        }
    }
    pub fn is_ok(&self) -> bool {
        *self == R::Ok
    }
}

pub fn err_name(e: &DdsError) -> &'static str {
    match e {
        DdsError::Error(_) => "Error",
        DdsError::Unsupported => "Unsupported",
        DdsError::BadParameter => "BadParameter",
        DdsError::PreconditionNotMet(_) => "PreconditionNotMet",
        DdsError::OutOfResources => "OutOfResources",
        DdsError::NotEnabled => "NotEnabled",
        DdsError::ImmutablePolicy => "ImmutablePolicy",
        DdsError::InconsistentPolicy => "InconsistentPolicy",
        DdsError::AlreadyDeleted => "AlreadyDeleted",
        DdsError::Timeout => "Timeout",
        DdsError::NoData => "NoData",
        DdsError::IllegalOperation => "IllegalOperation",
    }
}

/// Await an API future under the call timeout. `None` = the call never completed.
pub async fn call<T>(f: impl Future<Output = DdsResult<T>>) -> Option<DdsResult<T>> {
    match timeout(CALL_TIMEOUT_MS, f).await {
        Timed::Done(r) => Some(r),
        Timed::TimedOut => None,
    }
}

pub fn r_of<T>(r: &Option<DdsResult<T>>) -> R {
    match r {
        None => R::Hang,
        Some(Ok(_)) => R::Ok,
        Some(Err(e)) => R::Err(err_name(e)),
    }
}

/// One oracle mismatch: (signature, explanation).
pub type Mismatch = (String, String);

/// Picks the verdict of a case from all mismatches seen: the first one whose signature is not a listed
/// known finding, otherwise the first one. Lets a case keep checking past a known deviation.
pub fn pick_verdict(prop: &str, all: &[Mismatch]) -> Option<Mismatch> {
    if all.is_empty() {
        return None;
    }
    let known = vcore::Known::load(prop);
    all.iter().find(|m| !known.matches(&m.0)).or(all.first()).cloned()
}
