pub fn main(_ctx: &vcore::Ctx) {
    eprintln!("not built yet");
    std::process::exit(2);
}
