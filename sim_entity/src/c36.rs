//! C36 — entity deletion follows the DDS preconditions (model R-ENTITY).
//!
//! 1–2 participants in one domain; a generated history of create / delete / operate over the entity tree
//! participant → {publishers → writers, subscribers → readers, topics, content-filtered topics}, including
//! deletes of non-empty parents, of topics in use, through the wrong parent, of already deleted entities,
//! operations on deleted handles, `delete_contained_entities` and `delete_participant`. Every result is
//! compared with the model; "changes nothing" is verified by probing the survivors after every refused
//! deletion and by a final sweep over every entity ever created.

use dust_dds::{
    dds_async::{
        content_filtered_topic::ContentFilteredTopicAsync, data_reader::DataReaderAsync,
        data_writer::DataWriterAsync, domain_participant::DomainParticipantAsync, publisher::PublisherAsync,
        subscriber::SubscriberAsync, topic::TopicAsync,
    },
    infrastructure::{
        listener::NO_LISTENER,
        qos::QosKind,
        sample_info::{ANY_INSTANCE_STATE, ANY_SAMPLE_STATE, ANY_VIEW_STATE},
        status::NO_STATUS,
    },
};
use proptest::prelude::*;
use serde::{Deserialize, Serialize};
use serde_json::json;
use sim::{
    case::{CaseResult, apply_abort, sim_stats},
    exec,
    props::{Campaign, campaign},
    types::KeyedData,
    util::factory,
};
use vcore::{Ctx, Meta, fork::Limits, pt::idx};

use crate::common::{Mismatch, R, call, pick_verdict, r_of};

#[derive(Clone, Copy, Debug, PartialEq, Eq, Serialize, Deserialize)]
pub enum K {
    Pub,
    Sub,
    Topic,
    Cft,
    Writer,
    Reader,
}

impl K {
    fn name(self) -> &'static str {
        match self {
            K::Pub => "publisher",
            K::Sub => "subscriber",
            K::Topic => "topic",
            K::Cft => "contentfilteredtopic",
            K::Writer => "writer",
            K::Reader => "reader",
        }
    }
}

#[derive(Clone, Debug, PartialEq, Serialize, Deserialize)]
pub enum Op {
    /// `a` selects the parent (publisher/subscriber, among all ever created), `b` the (related) topic
    Create { p: u8, kind: K, a: u16, b: u16 },
    /// `sel` selects among all entities of the kind ever created in participant `p` (live or deleted);
    /// `wrong_parent`: call the delete operation on another parent (`via` selects it): another
    /// publisher/subscriber of the participant, resp. the other participant
    Delete { p: u8, kind: K, sel: u16, wrong_parent: bool, via: u16 },
    /// get_qos (+ write / take / create a child) on a live or deleted entity
    Operate { p: u8, kind: K, sel: u16 },
    DeleteContained { p: u8 },
    DeleteParticipant { p: u8 },
    ParticipantGetQos { p: u8 },
}

#[derive(Clone, Debug, Serialize, Deserialize)]
pub struct Case {
    pub participants: u8,
    /// re-use the names of deleted topics for new topics
    pub reuse_topic_names: bool,
    /// publishers and subscribers are created with autoenable_created_entities = false: their writers and
    /// readers exist without being enabled. The deletion preconditions do not depend on that (a topic used by
    /// a not-yet-enabled endpoint is in use); write/take on such endpoints are not probed.
    #[serde(default)]
    pub autoenable_off: bool,
    pub ops: Vec<Op>,
}

fn kind_strategy() -> impl Strategy<Value = K> {
    prop_oneof![
        3 => Just(K::Pub),
        3 => Just(K::Sub),
        3 => Just(K::Topic),
        1 => Just(K::Cft),
        4 => Just(K::Writer),
        4 => Just(K::Reader),
    ]
}

pub fn strategy(thorough: bool) -> BoxedStrategy<Case> {
    let max_ops = if thorough { 80 } else { 40 };
    (prop_oneof![4 => Just(1u8), 1 => Just(2u8)], prop_oneof![5 => Just(false), 1 => Just(true)], prop_oneof![3 => Just(false), 1 => Just(true)])
        .prop_flat_map(move |(participants, reuse_topic_names, autoenable_off)| {
            let p = 0..participants;
            let op = prop_oneof![
                20 => (p.clone(), kind_strategy(), any::<u16>(), any::<u16>()).prop_map(|(p, kind, a, b)| Op::Create { p, kind, a, b }),
                16 => (p.clone(), kind_strategy(), any::<u16>(), prop_oneof![5 => Just(false), 1 => Just(true)], any::<u16>())
                    .prop_map(|(p, kind, sel, wrong_parent, via)| Op::Delete { p, kind, sel, wrong_parent, via }),
                8 => (p.clone(), kind_strategy(), any::<u16>()).prop_map(|(p, kind, sel)| Op::Operate { p, kind, sel }),
                1 => p.clone().prop_map(|p| Op::DeleteContained { p }),
                1 => p.clone().prop_map(|p| Op::DeleteParticipant { p }),
                1 => p.clone().prop_map(|p| Op::ParticipantGetQos { p }),
            ];
            prop::collection::vec(op, 3..=max_ops).prop_map(move |ops| Case { participants, reuse_topic_names, autoenable_off, ops })
        })
        .boxed()
}

// ------------------------------------------------------------------------------------------------

#[derive(Clone)]
enum Obj {
    Pub(PublisherAsync),
    Sub(SubscriberAsync),
    Topic(TopicAsync),
    Cft(ContentFilteredTopicAsync),
    Writer(DataWriterAsync<KeyedData>),
    Reader(DataReaderAsync<KeyedData>),
}

struct Ent {
    kind: K,
    alive: bool,
    /// index of the parent publisher/subscriber (writers/readers)
    parent: Option<usize>,
    /// index of the topic (writers/readers) or related topic (cft)
    topic: Option<usize>,
    name: String,
    obj: Obj,
}

struct PM {
    alive: bool,
    obj: DomainParticipantAsync,
    ents: Vec<Ent>,
    topic_names_used: u32,
    /// how content-filtered topics of this participant went away (shape of delete_participant verdicts)
    cft_deleted_explicitly: bool,
    cft_deleted_by_contained: bool,
}

impl PM {
    fn of_kind(&self, k: K) -> Vec<usize> {
        self.ents.iter().enumerate().filter(|(_, e)| e.kind == k).map(|(i, _)| i).collect()
    }
    fn has_alive_children(&self, i: usize) -> bool {
        self.ents.iter().any(|e| e.alive && e.parent == Some(i))
    }
    fn topic_in_use(&self, i: usize) -> bool {
        self.ents.iter().any(|e| e.alive && e.topic == Some(i) && matches!(e.kind, K::Writer | K::Reader))
    }
    fn topic_has_cft(&self, i: usize) -> bool {
        self.ents.iter().any(|e| e.alive && e.topic == Some(i) && e.kind == K::Cft)
    }
    fn is_empty(&self) -> bool {
        !self.ents.iter().any(|e| e.alive)
    }
    fn emptied_shape(&self) -> &'static str {
        match (self.ents.is_empty(), self.cft_deleted_explicitly, self.cft_deleted_by_contained) {
            (true, _, _) => "never-used",
            (_, false, false) => "emptied",
            (_, true, _) => "emptied-had-cft-deleted-explicitly",
            (_, false, true) => "emptied-had-cft-removed-by-delete-contained",
        }
    }
    /// a live topic with the same name as (dead) topic `i` exists: the old object is aliased by name
    fn aliased(&self, i: usize) -> bool {
        let e = &self.ents[i];
        e.kind == K::Topic && !e.alive && self.ents.iter().any(|o| o.alive && o.kind == K::Topic && o.name == e.name)
    }
}

#[derive(Default, Clone, Debug, Serialize, Deserialize)]
pub struct Out {
    pub setup_error: Option<String>,
    pub mismatches: Vec<Mismatch>,
    pub classes: Vec<String>,
    pub ops_done: usize,
    pub checks: u32,
    pub refused_deletes: u32,
    pub deleted_handle_ops: u32,
    pub trace: Vec<String>,
}

impl Out {
    fn class(&mut self, c: &str) {
        if !self.classes.iter().any(|x| x == c) {
            self.classes.push(c.to_string());
        }
    }
}

struct Env {
    ps: Vec<PM>,
    out: Out,
    seq: u32,
    stop: bool,
    reuse: bool,
    autoenable_off: bool,
}

const AD: &[&str] = &["AlreadyDeleted"];
const PNM: &[&str] = &["PreconditionNotMet"];
const PNM_OR_AD: &[&str] = &["PreconditionNotMet", "AlreadyDeleted"];
const ANY_ERR: &[&str] = &[
    "AlreadyDeleted",
    "PreconditionNotMet",
    "BadParameter",
    "Error",
    "IllegalOperation",
    "NotEnabled",
    "Unsupported",
    "OutOfResources",
];

/// allowed results: `ok` and/or a set of error names
#[derive(Clone, Copy)]
struct Want {
    ok: bool,
    errs: &'static [&'static str],
}
const OK: Want = Want { ok: true, errs: &[] };
fn err(errs: &'static [&'static str]) -> Want {
    Want { ok: false, errs }
}

impl Want {
    fn allows(&self, r: &R) -> bool {
        match r {
            R::Ok => self.ok,
            R::Err(e) => self.errs.contains(e) || (*e == "NoData" && self.ok),
            R::Hang => false,
        }
    }
    fn show(&self) -> String {
        let mut v: Vec<&str> = vec![];
        if self.ok {
            v.push("Ok");
        }
        v.extend(self.errs.iter().copied());
        v.join("|")
    }
}

impl Env {
    /// Compare and record. `sub` = sub-oracle, `shape` = stable shape of the situation.
    fn check(&mut self, sub: &str, shape: &str, what: &str, want: Want, got: &R) -> bool {
        self.out.checks += 1;
        self.out.trace.push(format!("{what} -> {}", got.name()));
        if *got == R::Hang {
            self.out.mismatches.push((format!("C36:hang:{sub}:{shape}"), format!("{what} did not return")));
            self.stop = true;
            return false;
        }
        if want.allows(got) {
            return true;
        }
        let tr = self.out.trace.len();
        self.out.mismatches.push((
            format!("C36:{sub}:{shape}:want-{}-got-{}", want.show(), got.name()),
            format!(
                "op #{}: {what}: got {}, demanded {} (history: {})",
                self.out.ops_done,
                got.name(),
                want.show(),
                self.out.trace[tr.saturating_sub(12)..].join("; ")
            ),
        ));
        false
    }

    async fn probe(&mut self, p: usize, i: usize, sub: &str, shape_prefix: &str) {
        // get_qos (and a data operation) on entity i; expectation from the model
        let pm_alive = self.ps[p].alive;
        let e_alive = self.ps[p].ents[i].alive && pm_alive;
        let aliased = self.ps[p].aliased(i) && pm_alive;
        let kind = self.ps[p].ents[i].kind;
        let obj = self.ps[p].ents[i].obj.clone();
        let want = if e_alive { OK } else { err(AD) };
        let state = if e_alive {
            "live"
        } else if aliased {
            "deleted-topic-whose-name-was-reused"
        } else if !pm_alive {
            "participant-deleted"
        } else {
            "deleted"
        };
        if !e_alive {
            self.out.deleted_handle_ops += 1;
            self.out.class("op-on-deleted-entity");
        }
        let label = format!("{} #{i} of participant {p} ({state})", kind.name());
        let shape = format!("{shape_prefix}{}:{state}", kind.name());
        // the sub-oracle names what is judged, not which op of the history triggered the probe
        let sub = if !e_alive { "deleted-entity" } else if sub == "unchanged-after-refusal" { sub } else { "live-entity" };
        match obj {
            Obj::Pub(x) => {
                let r = r_of(&call(x.get_qos()).await);
                self.check(sub, &format!("{shape}:get_qos"), &format!("get_qos on {label}"), want, &r);
                let r = r_of(&call(x.get_default_datawriter_qos()).await);
                self.check(sub, &format!("{shape}:get_default_datawriter_qos"), &format!("get_default_datawriter_qos on {label}"), want, &r);
            }
            Obj::Sub(x) => {
                let r = r_of(&call(x.get_qos()).await);
                self.check(sub, &format!("{shape}:get_qos"), &format!("get_qos on {label}"), want, &r);
            }
            Obj::Topic(x) => {
                let r = r_of(&call(x.get_qos()).await);
                self.check(sub, &format!("{shape}:get_qos"), &format!("get_qos on {label}"), want, &r);
            }
            Obj::Cft(_) => {}
            Obj::Writer(x) => {
                let r = r_of(&call(x.get_qos()).await);
                self.check(sub, &format!("{shape}:get_qos"), &format!("get_qos on {label}"), want, &r);
                if !self.autoenable_off {
                    self.seq += 1;
                    let s = KeyedData { id: (self.seq % 251) as u8, seq: self.seq, blob: vec![1, 2, 3] };
                    let r = r_of(&call(x.write(s, None)).await);
                    self.check(sub, &format!("{shape}:write"), &format!("write on {label}"), want, &r);
                }
            }
            Obj::Reader(x) => {
                let r = r_of(&call(x.get_qos()).await);
                self.check(sub, &format!("{shape}:get_qos"), &format!("get_qos on {label}"), want, &r);
                if !self.autoenable_off {
                    let r = r_of(&call(x.take(8, ANY_SAMPLE_STATE, ANY_VIEW_STATE, ANY_INSTANCE_STATE)).await);
                    self.check(sub, &format!("{shape}:take"), &format!("take on {label}"), want, &r);
                }
            }
        }
    }

    /// After a refused deletion: the target and everything below it must still work.
    async fn probe_survivors(&mut self, p: usize, i: usize) {
        self.probe(p, i, "unchanged-after-refusal", "").await;
        let kids: Vec<usize> = self.ps[p]
            .ents
            .iter()
            .enumerate()
            .filter(|(_, e)| e.alive && (e.parent == Some(i) || (e.topic == Some(i) && e.kind != K::Cft)))
            .map(|(j, _)| j)
            .collect();
        for j in kids {
            self.probe(p, j, "unchanged-after-refusal", "child-").await;
        }
    }

    async fn create(&mut self, p: usize, kind: K, a: u16, b: u16) {
        let pm_alive = self.ps[p].alive;
        let part = self.ps[p].obj.clone();
        match kind {
            K::Pub => {
                let qos = if self.autoenable_off {
                    QosKind::Specific(dust_dds::infrastructure::qos::PublisherQos {
                        entity_factory: dust_dds::infrastructure::qos_policy::EntityFactoryQosPolicy { autoenable_created_entities: false },
                        ..Default::default()
                    })
                } else {
                    QosKind::Default
                };
                let r = call(part.create_publisher(qos, NO_LISTENER, NO_STATUS)).await;
                let got = r_of(&r);
                let want = if pm_alive { OK } else { err(AD) };
                let state = if pm_alive { "live-participant" } else { "deleted-participant" };
                self.check("create", &format!("publisher:{state}"), &format!("create_publisher on participant {p}"), want, &got);
                if let Some(Ok(x)) = r {
                    self.ps[p].ents.push(Ent { kind, alive: true, parent: None, topic: None, name: String::new(), obj: Obj::Pub(x) });
                }
            }
            K::Sub => {
                let qos = if self.autoenable_off {
                    QosKind::Specific(dust_dds::infrastructure::qos::SubscriberQos {
                        entity_factory: dust_dds::infrastructure::qos_policy::EntityFactoryQosPolicy { autoenable_created_entities: false },
                        ..Default::default()
                    })
                } else {
                    QosKind::Default
                };
                let r = call(part.create_subscriber(qos, NO_LISTENER, NO_STATUS)).await;
                let got = r_of(&r);
                let want = if pm_alive { OK } else { err(AD) };
                let state = if pm_alive { "live-participant" } else { "deleted-participant" };
                self.check("create", &format!("subscriber:{state}"), &format!("create_subscriber on participant {p}"), want, &got);
                if let Some(Ok(x)) = r {
                    self.ps[p].ents.push(Ent { kind, alive: true, parent: None, topic: None, name: String::new(), obj: Obj::Sub(x) });
                }
            }
            K::Topic => {
                // names: T<n>; with reuse the lowest-numbered name whose topic is not alive
                let name = if self.ps[p].ents.iter().any(|e| e.kind == K::Topic) && self.reuse_names() {
                    let mut n = 0;
                    loop {
                        let cand = format!("T{n}");
                        if !self.ps[p].ents.iter().any(|e| e.kind == K::Topic && e.alive && e.name == cand) {
                            break cand;
                        }
                        n += 1;
                    }
                } else {
                    let n = self.ps[p].topic_names_used;
                    format!("T{n}")
                };
                self.ps[p].topic_names_used += 1;
                let r = call(part.create_topic::<KeyedData>(&name, "KeyedData", QosKind::Default, NO_LISTENER, NO_STATUS)).await;
                let got = r_of(&r);
                let want = if pm_alive { OK } else { err(AD) };
                let state = if pm_alive { "live-participant" } else { "deleted-participant" };
                self.check("create", &format!("topic:{state}"), &format!("create_topic {name} on participant {p}"), want, &got);
                if let Some(Ok(x)) = r {
                    self.ps[p].ents.push(Ent { kind, alive: true, parent: None, topic: None, name, obj: Obj::Topic(x) });
                }
            }
            K::Cft => {
                let topics = self.ps[p].of_kind(K::Topic);
                if topics.is_empty() {
                    return;
                }
                let t = topics[idx(b, topics.len())];
                let t_alive = self.ps[p].ents[t].alive && pm_alive;
                if self.ps[p].aliased(t) {
                    return;
                }
                let Obj::Topic(tobj) = self.ps[p].ents[t].obj.clone() else { return };
                let name = format!("F{}", self.ps[p].ents.len());
                let r = call(part.create_contentfilteredtopic(&name, &tobj, "id = %0".to_string(), vec!["1".to_string()])).await;
                let got = r_of(&r);
                let want = if t_alive { OK } else { err(ANY_ERR) };
                let state = if !pm_alive { "deleted-participant" } else if t_alive { "live-topic" } else { "deleted-topic" };
                self.check("create", &format!("contentfilteredtopic:{state}"), &format!("create_contentfilteredtopic on topic #{t} of participant {p}"), want, &got);
                if let Some(Ok(x)) = r {
                    self.ps[p].ents.push(Ent { kind, alive: true, parent: None, topic: Some(t), name, obj: Obj::Cft(x) });
                }
            }
            K::Writer | K::Reader => {
                let pk = if kind == K::Writer { K::Pub } else { K::Sub };
                let parents = self.ps[p].of_kind(pk);
                let topics = self.ps[p].of_kind(K::Topic);
                if parents.is_empty() || topics.is_empty() {
                    return;
                }
                let pa = parents[idx(a, parents.len())];
                let t = topics[idx(b, topics.len())];
                if self.ps[p].aliased(t) {
                    // creating through a deleted topic object whose name lives again: not specified, skip
                    return;
                }
                let pa_alive = self.ps[p].ents[pa].alive && pm_alive;
                let t_alive = self.ps[p].ents[t].alive && pm_alive;
                let want = if pa_alive && t_alive {
                    OK
                } else if !pa_alive && t_alive {
                    err(AD)
                } else {
                    // deleted topic passed as argument: some error, which one is not documented
                    err(ANY_ERR)
                };
                let state = match (pm_alive, pa_alive, t_alive) {
                    (false, _, _) => "deleted-participant",
                    (_, true, true) => "live-parent-live-topic",
                    (_, false, true) => "deleted-parent",
                    (_, true, false) => "deleted-topic",
                    _ => "deleted-parent-deleted-topic",
                };
                if !pa_alive || !t_alive {
                    self.out.deleted_handle_ops += 1;
                    self.out.class("op-on-deleted-entity");
                }
                let Obj::Topic(tobj) = self.ps[p].ents[t].obj.clone() else { return };
                match self.ps[p].ents[pa].obj.clone() {
                    Obj::Pub(x) => {
                        let r = call(x.create_datawriter::<KeyedData>(&tobj, QosKind::Default, NO_LISTENER, NO_STATUS)).await;
                        let got = r_of(&r);
                        self.check("create", &format!("writer:{state}"), &format!("create_datawriter on publisher #{pa} topic #{t} of participant {p}"), want, &got);
                        if let Some(Ok(w)) = r {
                            self.ps[p].ents.push(Ent { kind, alive: true, parent: Some(pa), topic: Some(t), name: String::new(), obj: Obj::Writer(w) });
                        }
                    }
                    Obj::Sub(x) => {
                        let r = call(x.create_datareader::<KeyedData>(&tobj, QosKind::Default, NO_LISTENER, NO_STATUS)).await;
                        let got = r_of(&r);
                        self.check("create", &format!("reader:{state}"), &format!("create_datareader on subscriber #{pa} topic #{t} of participant {p}"), want, &got);
                        if let Some(Ok(w)) = r {
                            self.ps[p].ents.push(Ent { kind, alive: true, parent: Some(pa), topic: Some(t), name: String::new(), obj: Obj::Reader(w) });
                        }
                    }
                    _ => {}
                }
            }
        }
    }

    fn reuse_names(&self) -> bool {
        self.reuse
    }

    async fn delete(&mut self, p: usize, kind: K, sel: u16, wrong_parent: bool, via: u16) {
        let all = self.ps[p].of_kind(kind);
        if all.is_empty() {
            return;
        }
        let i = all[idx(sel, all.len())];
        let pm_alive = self.ps[p].alive;
        let e_alive = self.ps[p].ents[i].alive && pm_alive;
        if kind == K::Topic && self.ps[p].aliased(i) {
            // deleting through a stale topic object whose name is in use again would delete the new topic
            // (topics are addressed by name): covered by the probe of aliased objects, not exercised here
            return;
        }
        let obj = self.ps[p].ents[i].obj.clone();
        if !e_alive {
            self.out.deleted_handle_ops += 1;
            self.out.class("delete-of-deleted-entity");
        }
        let label = format!("{} #{i} of participant {p}", kind.name());
        match kind {
            K::Pub | K::Sub | K::Topic | K::Cft => {
                // parent = participant; wrong parent = the other participant
                let other = if wrong_parent && self.ps.len() > 1 && kind != K::Cft { Some(1 - p) } else { None };
                let caller = other.unwrap_or(p);
                let caller_obj = self.ps[caller].obj.clone();
                let caller_alive = self.ps[caller].alive;
                let (want, state): (Want, &str) = if other.is_some() {
                    self.out.class("delete-through-wrong-parent");
                    if caller_alive && e_alive {
                        (err(PNM), "wrong-participant")
                    } else {
                        (err(PNM_OR_AD), "wrong-participant-something-deleted")
                    }
                } else if !e_alive {
                    (err(AD), if pm_alive { "already-deleted" } else { "participant-deleted" })
                } else {
                    match kind {
                        K::Pub | K::Sub if self.ps[p].has_alive_children(i) => (err(PNM), "has-children"),
                        K::Topic if self.ps[p].topic_in_use(i) => (err(PNM), "in-use"),
                        // DDS 1.4 also forbids deleting a topic a ContentFilteredTopic relates to; the doc comment
                        // of delete_topic only names readers and writers -> either result accepted
                        K::Topic if self.ps[p].topic_has_cft(i) => (Want { ok: true, errs: PNM }, "related-to-cft"),
                        _ => (OK, "deletable"),
                    }
                };
                let r = match &obj {
                    Obj::Pub(x) => r_of(&call(caller_obj.delete_publisher(x)).await),
                    Obj::Sub(x) => r_of(&call(caller_obj.delete_subscriber(x)).await),
                    Obj::Topic(x) => r_of(&call(caller_obj.delete_topic(x)).await),
                    Obj::Cft(x) => r_of(&call(caller_obj.delete_contentfilteredtopic(x)).await),
                    _ => return,
                };
                let what = format!("delete_{} of {label} called on participant {caller}", kind.name());
                let ok = self.check("delete", &format!("{}:{state}", kind.name()), &what, want, &r);
                if r == R::Ok && e_alive {
                    self.ps[p].ents[i].alive = false;
                    if kind == K::Cft {
                        self.ps[p].cft_deleted_explicitly = true;
                    }
                    self.out.class("deleted");
                } else if ok && e_alive && !r.is_ok() {
                    self.out.refused_deletes += 1;
                    self.out.class(&format!("refused:{state}"));
                    self.probe_survivors(p, i).await;
                }
            }
            K::Writer | K::Reader => {
                let pa = self.ps[p].ents[i].parent.unwrap();
                let pk = if kind == K::Writer { K::Pub } else { K::Sub };
                let others: Vec<usize> = self.ps[p].of_kind(pk).into_iter().filter(|x| *x != pa).collect();
                let via_i = if wrong_parent && !others.is_empty() { Some(others[idx(via, others.len())]) } else { None };
                let caller = via_i.unwrap_or(pa);
                let caller_alive = self.ps[p].ents[caller].alive && pm_alive;
                let (want, state): (Want, &str) = if via_i.is_some() {
                    self.out.class("delete-through-wrong-parent");
                    if caller_alive && e_alive {
                        (err(PNM), "wrong-parent")
                    } else {
                        (err(PNM_OR_AD), "wrong-parent-something-deleted")
                    }
                } else if !e_alive {
                    (err(AD), if pm_alive { "already-deleted" } else { "participant-deleted" })
                } else {
                    (OK, "deletable")
                };
                let r = match (&self.ps[p].ents[caller].obj, &obj) {
                    (Obj::Pub(c), Obj::Writer(w)) => r_of(&call(c.delete_datawriter(w)).await),
                    (Obj::Sub(c), Obj::Reader(w)) => r_of(&call(c.delete_datareader(w)).await),
                    _ => return,
                };
                let what = format!("delete_data{} of {label} called on {} #{caller}", kind.name(), pk.name());
                let ok = self.check("delete", &format!("{}:{state}", kind.name()), &what, want, &r);
                if r == R::Ok && e_alive {
                    self.ps[p].ents[i].alive = false;
                    self.out.class("deleted");
                } else if ok && e_alive && !r.is_ok() {
                    self.out.refused_deletes += 1;
                    self.out.class(&format!("refused:{state}"));
                    self.probe_survivors(p, i).await;
                }
            }
        }
    }
}

impl Env {
    fn new(ps: Vec<PM>, reuse: bool, autoenable_off: bool) -> Self {
        Env { ps, out: Out::default(), seq: 0, stop: false, reuse, autoenable_off }
    }
}

async fn scenario(c: Case) -> Out {
    let f = factory();
    let mut ps = vec![];
    for _ in 0..c.participants.clamp(1, 2) {
        let Some(Ok(p)) = call(f.create_participant(0, QosKind::Default, NO_LISTENER, NO_STATUS)).await else {
            return Out { setup_error: Some("create_participant failed".into()), ..Default::default() };
        };
        ps.push(PM { alive: true, obj: p, ents: vec![], topic_names_used: 0, cft_deleted_explicitly: false, cft_deleted_by_contained: false });
    }
    exec::with_world(|w| w.net.log_enabled = false);
    let mut env = Env::new(ps, c.reuse_topic_names, c.autoenable_off);
    if c.autoenable_off {
        env.out.class("endpoints_created_not_enabled");
    }
    env.out.class(if c.participants > 1 { "two-participants" } else { "one-participant" });
    for op in &c.ops {
        if env.stop {
            break;
        }
        env.out.ops_done += 1;
        match op {
            Op::Create { p, kind, a, b } => {
                let p = (*p as usize) % env.ps.len();
                env.create(p, *kind, *a, *b).await;
            }
            Op::Delete { p, kind, sel, wrong_parent, via } => {
                let p = (*p as usize) % env.ps.len();
                env.delete(p, *kind, *sel, *wrong_parent, *via).await;
            }
            Op::Operate { p, kind, sel } => {
                let p = (*p as usize) % env.ps.len();
                let all = env.ps[p].of_kind(*kind);
                if !all.is_empty() {
                    let i = all[idx(*sel, all.len())];
                    env.probe(p, i, "operate", "").await;
                }
            }
            Op::ParticipantGetQos { p } => {
                let p = (*p as usize) % env.ps.len();
                let alive = env.ps[p].alive;
                let r = r_of(&call(env.ps[p].obj.get_qos()).await);
                let (want, state) = if alive { (OK, "live") } else { (err(AD), "deleted") };
                env.check("operate", &format!("participant:{state}:get_qos"), &format!("get_qos on participant {p}"), want, &r);
            }
            Op::DeleteContained { p } => {
                let p = (*p as usize) % env.ps.len();
                let alive = env.ps[p].alive;
                let r = r_of(&call(env.ps[p].obj.delete_contained_entities()).await);
                let (want, state) = if alive { (OK, "live") } else { (err(AD), "deleted-participant") };
                let n = env.ps[p].ents.iter().filter(|e| e.alive).count();
                env.check("delete-contained", state, &format!("delete_contained_entities on participant {p} holding {n} entities"), want, &r);
                if r == R::Ok && alive {
                    env.out.class(if n > 0 { "delete-contained-nonempty" } else { "delete-contained-empty" });
                    if env.ps[p].ents.iter().any(|e| e.alive && e.kind == K::Cft) {
                        env.ps[p].cft_deleted_by_contained = true;
                    }
                    for e in env.ps[p].ents.iter_mut() {
                        e.alive = false;
                    }
                }
            }
            Op::DeleteParticipant { p } => {
                let p = (*p as usize) % env.ps.len();
                let alive = env.ps[p].alive;
                let empty = env.ps[p].is_empty();
                let r = r_of(&call(f.delete_participant(&env.ps[p].obj)).await);
                let (want, state) = if !alive {
                    (err(AD), "already-deleted")
                } else if empty {
                    (OK, env.ps[p].emptied_shape())
                } else {
                    (err(PNM), "has-entities")
                };
                let ok = env.check("delete-participant", state, &format!("delete_participant of participant {p}"), want, &r);
                if r == R::Ok && alive {
                    env.ps[p].alive = false;
                    env.out.class("participant-deleted");
                } else if ok && alive && !empty {
                    env.out.refused_deletes += 1;
                    env.out.class("refused:participant-has-entities");
                    let r = r_of(&call(env.ps[p].obj.get_qos()).await);
                    env.check("unchanged-after-refusal", "participant:get_qos", &format!("get_qos on participant {p} after refused deletion"), OK, &r);
                    let kids: Vec<usize> = (0..env.ps[p].ents.len()).filter(|j| env.ps[p].ents[*j].alive).collect();
                    for j in kids {
                        env.probe(p, j, "unchanged-after-refusal", "child-").await;
                    }
                }
            }
        }
    }
    // ---- final sweep: every entity ever created answers as the model says
    if !env.stop {
        for p in 0..env.ps.len() {
            for i in 0..env.ps[p].ents.len() {
                if env.stop {
                    break;
                }
                env.probe(p, i, "final-sweep", "").await;
            }
        }
    }
    // ---- and an emptied participant is deletable
    if !env.stop {
        for p in 0..env.ps.len() {
            if env.ps[p].alive {
                let n = env.ps[p].ents.iter().filter(|e| e.alive).count();
                let r = r_of(&call(env.ps[p].obj.delete_contained_entities()).await);
                env.check("delete-contained", "live", &format!("final delete_contained_entities on participant {p} holding {n} entities"), OK, &r);
                if r == R::Ok {
                    if env.ps[p].ents.iter().any(|e| e.alive && e.kind == K::Cft) {
                        env.ps[p].cft_deleted_by_contained = true;
                    }
                    for e in env.ps[p].ents.iter_mut() {
                        e.alive = false;
                    }
                    let shape = env.ps[p].emptied_shape();
                    let r = r_of(&call(f.delete_participant(&env.ps[p].obj)).await);
                    env.check("delete-participant", shape, &format!("final delete_participant of participant {p}"), OK, &r);
                }
            }
        }
    }
    env.out
}

pub fn eval(case: &Case) -> CaseResult {
    let mut res = CaseResult::default();
    match exec::run(scenario(case.clone())) {
        Ok(out) => {
            if let Some(e) = &out.setup_error {
                res.harness_error = Some(e.clone());
            } else {
                res.verdict = pick_verdict("C36", &out.mismatches);
                res.classes = out.classes.clone();
                res.nontrivial = out.refused_deletes >= 1 || out.deleted_handle_ops >= 1;
                let mut sigs: Vec<String> = out.mismatches.iter().map(|m| m.0.clone()).collect();
                sigs.dedup();
                res.info = json!({
                    "ops_done": out.ops_done, "checks": out.checks, "refused_deletes": out.refused_deletes,
                    "deleted_handle_ops": out.deleted_handle_ops, "mismatch_signatures": sigs,
                });
            }
        }
        Err(a) => apply_abort("C36", &mut res, a),
    }
    res.sim = sim_stats();
    res
}

pub fn main(ctx: &Ctx) {
    let thorough = ctx.tier == vcore::Tier::Thorough;
    campaign(
        ctx,
        Campaign {
            total_cases: ctx.pick(1_500, 20_000),
            max_shrink_iters: 200,
            limits: Limits { cpu_s: 30, wall_s: 120, as_bytes: 4 << 30 },
            meta: Meta {
                rule: "1-2 participants (20% two, same domain), 3-40(80) ops: create publisher/subscriber/topic/content-filtered topic/writer/reader (parents and topics selected among live AND deleted ones), delete (any entity ever created, 1 in 6 through the wrong parent), operate (get_qos, write, take, get_default_datawriter_qos on live and deleted handles), delete_contained_entities, factory.delete_participant; results compared with the R-ENTITY tree model; after every refused deletion the target and its children are probed, at the end every entity ever created is probed and each live participant is emptied and deleted; non-trivial = at least one deletion was due to be refused or one operation addressed a deleted entity; distinct = hash of the case",
                assumptions: &[
                    "deterministic simulation, async API; entities of two participants match through simulated discovery",
                    "never called (todo!() in the async API): Publisher/Subscriber::delete_contained_entities, lookup_datawriter, Publisher/Subscriber::enable",
                    "tolerated: error code when a deleted topic is passed to create_datawriter/create_datareader/create_contentfilteredtopic (any error); AlreadyDeleted or PreconditionNotMet when a wrong-parent deletion also involves a deleted entity; delete_topic of a topic a content-filtered topic relates to (Ok or PreconditionNotMet)",
                    "topic names are unique per participant unless reuse_topic_names (1 case in 6), where a stale topic object is only probed, never used to delete or create",
                    "after the first mismatch the case goes on; the verdict is the first mismatch whose signature is not a listed known finding",
                ],
                nontrivial_floor: 300,
            },
        },
        strategy(thorough),
        eval,
    );
}
