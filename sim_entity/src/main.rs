//! E-SIM entity family: C28 (writer instance API), C35 (handle uniqueness / creation never panics),
//! C36 (deletion preconditions), C37 (QoS validation). Built on the `sim` library (virtual-time
//! executor, in-memory network, fork-per-case campaign driver).

mod c28;
mod c35;
mod c36;
mod c37;
mod common;
mod driver;

#[global_allocator]
static A: vcore::alloc::Counting = vcore::alloc::Counting;

fn main() {
    let ctx = vcore::Ctx::from_args();
    match ctx.id.as_str() {
        "C28" => c28::main(&ctx),
        "C35" => c35::main(&ctx),
        "C36" => c36::main(&ctx),
        "C37" => c37::main(&ctx),
        other => {
            eprintln!("sim_entity: unknown property id {other}");
            std::process::exit(2);
        }
    }
}
