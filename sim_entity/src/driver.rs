//! Campaign driver = `sim::props::campaign` plus a list of *fixed* cases that every run evaluates
//! (spread over the shards) before the generated ones. Needed by C35 whose expensive long-churn
//! histories (66 000 create/delete cycles) must be present exactly once per entity kind per run
//! instead of with some probability.

use proptest::strategy::Strategy;
use serde::{Serialize, de::DeserializeOwned};
use sim::{
    case::{CaseResult, run_forked, to_outcome},
    props::{Campaign, SHARDS, campaign},
};
use vcore::{Ctx, Failure, Known, Report};

/// `minimise(case, still_fails)` returns a smaller case with the same signature (or the case itself).
pub type Minimise<T> = fn(&T, &dyn Fn(&T) -> bool) -> T;

pub fn campaign_with_fixed<S, F>(
    ctx: &Ctx,
    c: Campaign,
    fixed: Vec<S::Value>,
    minimise: Minimise<S::Value>,
    strategy: S,
    eval: F,
) -> !
where
    S: Strategy,
    S::Value: Serialize + DeserializeOwned + Clone,
    F: Fn(&S::Value) -> CaseResult + Copy,
{
    if ctx.replay.is_some() || fixed.is_empty() {
        campaign(ctx, c, strategy, eval);
    }
    let prop = ctx.id.clone();
    let limits = c.limits;
    let total = c.total_cases;
    let shrink = c.max_shrink_iters;
    let report = vcore::run_sharded(ctx, SHARDS, |ctx| {
        let known = Known::load(&ctx.id);
        let mut report = Report::default();
        let (k, n) = (ctx.shard_index(), ctx.shard_count());
        // ---- fixed cases of this shard
        for (i, case) in fixed.iter().enumerate() {
            if i as u64 % n != k {
                continue;
            }
            let run = |case: &S::Value| run_forked(&prop, limits, || eval(case));
            let r = run(case);
            let js = serde_json::to_value(case).unwrap();
            let key = vcore::hash_json(&js);
            let o = to_outcome(r, key, || js.clone());
            report.stats.case(o.key, o.nontrivial, &o.classes);
            report.stats.class("fixed_case");
            if let Some(s) = &o.sample {
                if o.nontrivial {
                    report.stats.sample(s.clone());
                }
            }
            if let Some((sig, what)) = o.verdict {
                if known.matches(&sig) {
                    *report.stats.excluded_known.entry(sig).or_insert(0) += 1;
                } else if sig.starts_with("harness:") {
                    report.failures.push(Failure { signature: sig, what, case: js.clone(), shrunk_from: None, shrunk_to: None });
                } else {
                    let from = js.to_string().len() as u64;
                    let small = minimise(case, &|c2: &S::Value| {
                        let r2 = run(c2);
                        r2.harness_error.is_none() && r2.verdict.as_ref().map(|v| v.0 == sig).unwrap_or(false)
                    });
                    let r3 = run(&small);
                    let (signature, what) = r3.verdict.unwrap_or((sig, what));
                    let case = serde_json::to_value(&small).unwrap();
                    let to = case.to_string().len() as u64;
                    report.failures.push(Failure {
                        signature,
                        what,
                        case,
                        shrunk_from: Some(from),
                        shrunk_to: Some(to),
                    });
                }
            }
        }
        // ---- generated cases
        let cases = ctx.share(total) as u32;
        let fail = vcore::pt::run_cases(
            cases,
            ctx.rng_seed("cases"),
            shrink,
            &strategy,
            &mut report.stats,
            &known,
            |case| {
                let r = run_forked(&prop, limits, || eval(case));
                let js = serde_json::to_value(case).unwrap();
                let key = vcore::hash_json(&js);
                to_outcome(r, key, || js)
            },
            |case| serde_json::to_value(case).unwrap(),
        );
        if let Some(f) = fail {
            report.failures.push(f);
        }
        report
    });
    vcore::finish(ctx, c.meta, report)
}
