//! C35 — entity handles stay unique and entity creation never panics.
//!
//! One participant; a generated history of create/delete over publishers, subscribers, topics, writers and
//! readers, including long churn runs (create/delete cycles that drive the per-kind id counters past 2^8
//! resp. 2^16 while a few early entities stay alive). Oracle: the instance handles (for writers/readers
//! = RTPS GUIDs) of all simultaneously existing entities are pairwise distinct; every creation returns
//! Ok or Err; nothing panics or hangs; the participant still answers afterwards.

use std::{cell::Cell, collections::BTreeMap};

use dust_dds::{
    dds_async::{
        data_reader::DataReaderAsync, data_writer::DataWriterAsync, domain_participant::DomainParticipantAsync,
        publisher::PublisherAsync, subscriber::SubscriberAsync, topic::TopicAsync,
    },
    infrastructure::{listener::NO_LISTENER, qos::QosKind, status::NO_STATUS},
};
use proptest::prelude::*;
use serde::{Deserialize, Serialize};
use serde_json::json;
use sim::{
    case::{CaseResult, apply_abort, is_repo_location, normalize_loc, normalize_msg, sim_stats},
    exec::{self, Abort},
    props::Campaign,
    types::KeyedData,
    util::factory,
};
use vcore::{Ctx, Meta, fork::Limits, pt::idx};

use crate::{
    common::{R, call, r_of},
    driver::campaign_with_fixed,
};

#[derive(Clone, Copy, Debug, PartialEq, Eq, PartialOrd, Ord, Serialize, Deserialize)]
pub enum Kind {
    Publisher,
    Subscriber,
    Topic,
    Writer,
    Reader,
}

impl Kind {
    fn name(self) -> &'static str {
        match self {
            Kind::Publisher => "publisher",
            Kind::Subscriber => "subscriber",
            Kind::Topic => "topic",
            Kind::Writer => "writer",
            Kind::Reader => "reader",
        }
    }
    /// number of creations after which the implementation's id space of this kind has been used up once
    fn id_space(self) -> u64 {
        match self {
            Kind::Publisher | Kind::Subscriber => 1 << 8,
            _ => 1 << 16,
        }
    }
}

const KINDS: [Kind; 5] = [Kind::Publisher, Kind::Subscriber, Kind::Topic, Kind::Writer, Kind::Reader];

#[derive(Clone, Debug, PartialEq, Serialize, Deserialize)]
pub enum Op {
    /// create one entity; `a` selects the parent publisher/subscriber, `b` the topic (writers/readers)
    Create { kind: Kind, a: u16, b: u16 },
    /// delete the selected live entity of the kind (no-op when none)
    Delete { kind: Kind, sel: u16 },
    /// `cycles` times: create an entity and delete it at once, except every `keep_every`-th (0 = none)
    /// which stays alive
    Churn { kind: Kind, cycles: u32, keep_every: u32 },
}

#[derive(Clone, Debug, Serialize, Deserialize)]
pub struct Case {
    /// participant entity_factory.autoenable_created_entities: when false every entity is created
    /// disabled (nothing is announced through discovery, which makes long churn runs much cheaper)
    pub autoenable: bool,
    pub ops: Vec<Op>,
}

fn kind_strategy() -> impl Strategy<Value = Kind> {
    (0usize..5).prop_map(|i| KINDS[i])
}

/// Random histories. `long` = fraction (per mille) of cases that contain a churn run past the 8-bit
/// id space of publishers/subscribers.
pub fn strategy(thorough: bool) -> BoxedStrategy<Case> {
    let max_ops = if thorough { 120 } else { 50 };
    let short_op = prop_oneof![
        6 => (kind_strategy(), any::<u16>(), any::<u16>()).prop_map(|(kind, a, b)| Op::Create { kind, a, b }),
        3 => (kind_strategy(), any::<u16>()).prop_map(|(kind, sel)| Op::Delete { kind, sel }),
        1 => (kind_strategy(), 1u32..40, 0u32..6).prop_map(|(kind, cycles, keep_every)| Op::Churn { kind, cycles, keep_every }),
    ];
    let short = (prop::collection::vec(short_op.clone(), 1..=max_ops), prop_oneof![4 => Just(true), 1 => Just(false)]).prop_map(|(ops, autoenable)| Case { autoenable, ops });
    // publishers / subscribers past 256 creations with random deletions: cheap, in every tier
    let long8 = (
        prop::collection::vec(short_op.clone(), 0..10),
        prop_oneof![Just(Kind::Publisher), Just(Kind::Subscriber)],
        300u32..420,
        prop_oneof![Just(0u32), 1u32..8, 20u32..200],
        prop::collection::vec(short_op, 0..10),
        prop_oneof![4 => Just(true), 1 => Just(false)],
    )
        .prop_map(|(mut pre, kind, cycles, keep_every, post, autoenable)| {
            pre.push(Op::Churn { kind, cycles, keep_every });
            pre.extend(post);
            Case { autoenable, ops: pre }
        });
    if thorough {
        // thorough additionally draws 16-bit churn cases for every kind at random
        let long16 = (
            prop_oneof![Just(Kind::Topic), Just(Kind::Writer), Just(Kind::Reader)],
            66_000u32..70_000,
            prop_oneof![Just(0u32), 1_000u32..30_000],
            prop::collection::vec((kind_strategy(), any::<u16>(), any::<u16>()).prop_map(|(kind, a, b)| Op::Create { kind, a, b }), 0..6),
            any::<bool>(),
        )
            .prop_map(|(kind, cycles, keep_every, mut pre, autoenable)| {
                pre.push(Op::Churn { kind, cycles, keep_every });
                Case { autoenable, ops: pre }
            });
        prop_oneof![898 => short, 100 => long8, 2 => long16].boxed()
    } else {
        prop_oneof![9 => short, 1 => long8].boxed()
    }
}

/// The dedicated long-churn cases every run evaluates: one per kind, first entity kept alive so that a
/// wrapped counter collides with it.
pub fn fixed_cases(thorough: bool) -> Vec<Case> {
    let mut v = vec![];
    for kind in KINDS {
        let cycles = match kind {
            Kind::Publisher | Kind::Subscriber => 600,
            _ => 66_000,
        };
        // 16-bit kinds: created disabled in the quick tier (an enabled 66 000-cycle churn costs ~10 s because
        // the builtin discovery writers keep one instance record per entity ever announced)
        let cheap = cycles > 1000;
        v.push(Case { autoenable: !cheap, ops: vec![Op::Churn { kind, cycles, keep_every: cycles / 3 }] });
        if thorough {
            v.push(Case { autoenable: true, ops: vec![Op::Churn { kind, cycles, keep_every: cycles / 3 }] });
            v.push(Case { autoenable: false, ops: vec![Op::Churn { kind, cycles: cycles * 2 + 17, keep_every: 0 }] });
            v.push(Case {
                autoenable: true,
                ops: vec![
                    Op::Create { kind, a: 0, b: 0 },
                    Op::Churn { kind, cycles: cycles + 5, keep_every: 7 * cycles / 10 },
                    Op::Create { kind, a: 1, b: 1 },
                ],
            });
        }
    }
    v
}

/// Minimise a failing fixed case: fewest churn cycles that still fail with the same signature.
fn minimise(case: &Case, still_fails: &dyn Fn(&Case) -> bool) -> Case {
    let mut best = case.clone();
    // drop ops other than the longest churn
    if let Some((i, _)) = best.ops.iter().enumerate().filter(|(_, o)| matches!(o, Op::Churn { .. })).max_by_key(|(_, o)| match o {
        Op::Churn { cycles, .. } => *cycles,
        _ => 0,
    }) {
        let only = Case { autoenable: best.autoenable, ops: vec![best.ops[i].clone()] };
        if best.ops.len() > 1 && still_fails(&only) {
            best = only;
        }
    }
    if best.ops.len() == 1 {
        if let Op::Churn { kind, cycles, keep_every } = best.ops[0].clone() {
            let autoenable = best.autoenable;
            let mk = |c: u32| Case { autoenable, ops: vec![Op::Churn { kind, cycles: c, keep_every: if keep_every == 0 { 0 } else { c.max(1) } }] };
            // keep_every = c keeps exactly the first entity alive
            let (mut lo, mut hi) = (0u32, cycles);
            if still_fails(&mk(hi)) {
                while lo + 1 < hi {
                    let mid = lo + (hi - lo) / 2;
                    if still_fails(&mk(mid)) {
                        hi = mid;
                    } else {
                        lo = mid;
                    }
                }
                best = mk(hi);
            }
        }
    }
    best
}

// ------------------------------------------------------------------------------------------------

thread_local! {
    /// what the scenario was doing when a panic unwound into the executor
    static DURING: Cell<&'static str> = const { Cell::new("setup") };
}

#[derive(Default, Clone, Debug, Serialize, Deserialize)]
pub struct Out {
    pub setup_error: Option<String>,
    pub verdict: Option<(String, String)>,
    pub created: BTreeMap<String, u64>,
    pub create_errors: BTreeMap<String, u64>,
    pub deleted: u64,
    pub delete_errors: u64,
    pub max_alive: usize,
    pub alive_at_end: usize,
}

struct Live {
    pubs: Vec<(PublisherAsync, [u8; 16])>,
    subs: Vec<(SubscriberAsync, [u8; 16])>,
    topics: Vec<(TopicAsync, [u8; 16])>,
    writers: Vec<(DataWriterAsync<KeyedData>, PublisherAsync, [u8; 16])>,
    readers: Vec<(DataReaderAsync<KeyedData>, SubscriberAsync, [u8; 16])>,
    handles: BTreeMap<[u8; 16], Kind>,
    topic_seq: u64,
}

struct Env {
    p: DomainParticipantAsync,
    live: Live,
    out: Out,
}

enum Made {
    Ok([u8; 16]),
    Err,
    Stop,
}

impl Env {
    fn fail(&mut self, sig: String, what: String) {
        if self.out.verdict.is_none() {
            self.out.verdict = Some((sig, what));
        }
    }

    fn note_handle(&mut self, kind: Kind, h: [u8; 16]) -> bool {
        *self.out.created.entry(kind.name().into()).or_insert(0) += 1;
        if let Some(other) = self.live.handles.get(&h) {
            let other = *other;
            let n = self.out.created[kind.name()];
            self.fail(
                format!("C35:duplicate-handle:{}-vs-{}", kind.name(), other.name()),
                format!(
                    "creation #{n} of a {} returned instance handle {:02x?} which a live {} already has ({} entities alive)",
                    kind.name(),
                    h,
                    other.name(),
                    self.live.handles.len()
                ),
            );
            return false;
        }
        self.live.handles.insert(h, kind);
        self.out.max_alive = self.out.max_alive.max(self.live.handles.len());
        true
    }

    fn hang(&mut self, what: &str, kind: Kind) {
        self.fail(
            format!("C35:hang:{what}-{}", kind.name()),
            format!("{what} of a {} did not return within {} ms virtual", kind.name(), crate::common::CALL_TIMEOUT_MS),
        );
    }

    /// Creates one entity. Parents/topics that do not exist yet are created first.
    async fn create(&mut self, kind: Kind, a: u16, b: u16) -> Made {
        match kind {
            Kind::Publisher => {
                DURING.set("create-publisher");
                let r = call(self.p.create_publisher(QosKind::Default, NO_LISTENER, NO_STATUS)).await;
                match r {
                    None => {
                        self.hang("create", kind);
                        Made::Stop
                    }
                    Some(Ok(e)) => {
                        let h: [u8; 16] = e.get_instance_handle().into();
                        let fresh = self.note_handle(kind, h);
                        self.live.pubs.push((e, h));
                        if fresh { Made::Ok(h) } else { Made::Stop }
                    }
                    Some(Err(_)) => {
                        *self.out.create_errors.entry(kind.name().into()).or_insert(0) += 1;
                        Made::Err
                    }
                }
            }
            Kind::Subscriber => {
                DURING.set("create-subscriber");
                let r = call(self.p.create_subscriber(QosKind::Default, NO_LISTENER, NO_STATUS)).await;
                match r {
                    None => {
                        self.hang("create", kind);
                        Made::Stop
                    }
                    Some(Ok(e)) => {
                        let h: [u8; 16] = e.get_instance_handle().into();
                        let fresh = self.note_handle(kind, h);
                        self.live.subs.push((e, h));
                        if fresh { Made::Ok(h) } else { Made::Stop }
                    }
                    Some(Err(_)) => {
                        *self.out.create_errors.entry(kind.name().into()).or_insert(0) += 1;
                        Made::Err
                    }
                }
            }
            Kind::Topic => {
                DURING.set("create-topic");
                self.live.topic_seq += 1;
                let name = format!("t{}", self.live.topic_seq);
                let r = call(self.p.create_topic::<KeyedData>(&name, "KeyedData", QosKind::Default, NO_LISTENER, NO_STATUS)).await;
                match r {
                    None => {
                        self.hang("create", kind);
                        Made::Stop
                    }
                    Some(Ok(e)) => {
                        let h: [u8; 16] = e.get_instance_handle().into();
                        let fresh = self.note_handle(kind, h);
                        self.live.topics.push((e, h));
                        if fresh { Made::Ok(h) } else { Made::Stop }
                    }
                    Some(Err(_)) => {
                        *self.out.create_errors.entry(kind.name().into()).or_insert(0) += 1;
                        Made::Err
                    }
                }
            }
            Kind::Writer => {
                if self.live.pubs.is_empty() {
                    if let Made::Stop = Box::pin(self.create(Kind::Publisher, 0, 0)).await {
                        return Made::Stop;
                    }
                }
                if self.live.topics.is_empty() {
                    if let Made::Stop = Box::pin(self.create(Kind::Topic, 0, 0)).await {
                        return Made::Stop;
                    }
                }
                if self.live.pubs.is_empty() || self.live.topics.is_empty() {
                    return Made::Err;
                }
                let publ = self.live.pubs[idx(a, self.live.pubs.len())].0.clone();
                let topic = self.live.topics[idx(b, self.live.topics.len())].0.clone();
                DURING.set("create-writer");
                let r = call(publ.create_datawriter::<KeyedData>(&topic, QosKind::Default, NO_LISTENER, NO_STATUS)).await;
                match r {
                    None => {
                        self.hang("create", kind);
                        Made::Stop
                    }
                    Some(Ok(e)) => {
                        let h: [u8; 16] = e.get_instance_handle().into();
                        let fresh = self.note_handle(kind, h);
                        self.live.writers.push((e, publ, h));
                        if fresh { Made::Ok(h) } else { Made::Stop }
                    }
                    Some(Err(_)) => {
                        *self.out.create_errors.entry(kind.name().into()).or_insert(0) += 1;
                        Made::Err
                    }
                }
            }
            Kind::Reader => {
                if self.live.subs.is_empty() {
                    if let Made::Stop = Box::pin(self.create(Kind::Subscriber, 0, 0)).await {
                        return Made::Stop;
                    }
                }
                if self.live.topics.is_empty() {
                    if let Made::Stop = Box::pin(self.create(Kind::Topic, 0, 0)).await {
                        return Made::Stop;
                    }
                }
                if self.live.subs.is_empty() || self.live.topics.is_empty() {
                    return Made::Err;
                }
                let sub = self.live.subs[idx(a, self.live.subs.len())].0.clone();
                let topic = self.live.topics[idx(b, self.live.topics.len())].0.clone();
                DURING.set("create-reader");
                let r = call(sub.create_datareader::<KeyedData>(&topic, QosKind::Default, NO_LISTENER, NO_STATUS)).await;
                match r {
                    None => {
                        self.hang("create", kind);
                        Made::Stop
                    }
                    Some(Ok(e)) => {
                        let h: [u8; 16] = e.get_instance_handle().into();
                        let fresh = self.note_handle(kind, h);
                        self.live.readers.push((e, sub, h));
                        if fresh { Made::Ok(h) } else { Made::Stop }
                    }
                    Some(Err(_)) => {
                        *self.out.create_errors.entry(kind.name().into()).or_insert(0) += 1;
                        Made::Err
                    }
                }
            }
        }
    }

    /// Deletes the live entity with handle `h`. An error leaves it alive in the model (C36 judges codes).
    async fn delete(&mut self, kind: Kind, h: [u8; 16]) -> bool {
        let r: R = match kind {
            Kind::Publisher => {
                DURING.set("delete-publisher");
                let Some(i) = self.live.pubs.iter().position(|e| e.1 == h) else { return true };
                let r = r_of(&call(self.p.delete_publisher(&self.live.pubs[i].0)).await);
                if r == R::Ok {
                    self.live.pubs.remove(i);
                }
                r
            }
            Kind::Subscriber => {
                DURING.set("delete-subscriber");
                let Some(i) = self.live.subs.iter().position(|e| e.1 == h) else { return true };
                let r = r_of(&call(self.p.delete_subscriber(&self.live.subs[i].0)).await);
                if r == R::Ok {
                    self.live.subs.remove(i);
                }
                r
            }
            Kind::Topic => {
                DURING.set("delete-topic");
                let Some(i) = self.live.topics.iter().position(|e| e.1 == h) else { return true };
                let r = r_of(&call(self.p.delete_topic(&self.live.topics[i].0)).await);
                if r == R::Ok {
                    self.live.topics.remove(i);
                }
                r
            }
            Kind::Writer => {
                DURING.set("delete-writer");
                let Some(i) = self.live.writers.iter().position(|e| e.2 == h) else { return true };
                let r = r_of(&call(self.live.writers[i].1.delete_datawriter(&self.live.writers[i].0)).await);
                if r == R::Ok {
                    self.live.writers.remove(i);
                }
                r
            }
            Kind::Reader => {
                DURING.set("delete-reader");
                let Some(i) = self.live.readers.iter().position(|e| e.2 == h) else { return true };
                let r = r_of(&call(self.live.readers[i].1.delete_datareader(&self.live.readers[i].0)).await);
                if r == R::Ok {
                    self.live.readers.remove(i);
                }
                r
            }
        };
        match r {
            R::Ok => {
                self.live.handles.remove(&h);
                self.out.deleted += 1;
                true
            }
            R::Err(_) => {
                self.out.delete_errors += 1;
                true
            }
            R::Hang => {
                self.hang("delete", kind);
                false
            }
        }
    }

    fn pick(&self, kind: Kind, sel: u16) -> Option<[u8; 16]> {
        match kind {
            Kind::Publisher => (!self.live.pubs.is_empty()).then(|| self.live.pubs[idx(sel, self.live.pubs.len())].1),
            Kind::Subscriber => (!self.live.subs.is_empty()).then(|| self.live.subs[idx(sel, self.live.subs.len())].1),
            Kind::Topic => (!self.live.topics.is_empty()).then(|| self.live.topics[idx(sel, self.live.topics.len())].1),
            Kind::Writer => (!self.live.writers.is_empty()).then(|| self.live.writers[idx(sel, self.live.writers.len())].2),
            Kind::Reader => (!self.live.readers.is_empty()).then(|| self.live.readers[idx(sel, self.live.readers.len())].2),
        }
    }
}

async fn scenario(c: Case) -> Out {
    DURING.set("setup");
    let f = factory();
    let Some(Ok(p)) = call(f.create_participant(0, QosKind::Default, NO_LISTENER, NO_STATUS)).await else {
        return Out { setup_error: Some("create_participant failed".into()), ..Default::default() };
    };
    if !c.autoenable {
        let q = dust_dds::infrastructure::qos::DomainParticipantQos {
            entity_factory: dust_dds::infrastructure::qos_policy::EntityFactoryQosPolicy { autoenable_created_entities: false },
            ..Default::default()
        };
        if !matches!(call(p.set_qos(QosKind::Specific(q))).await, Some(Ok(()))) {
            return Out { setup_error: Some("participant set_qos failed".into()), ..Default::default() };
        }
    }
    // the wire log is not needed here and would only grow
    exec::with_world(|w| w.net.log_enabled = false);
    let mut env = Env {
        p,
        live: Live {
            pubs: vec![],
            subs: vec![],
            topics: vec![],
            writers: vec![],
            readers: vec![],
            handles: BTreeMap::new(),
            topic_seq: 0,
        },
        out: Out::default(),
    };
    'ops: for op in &c.ops {
        match op {
            Op::Create { kind, a, b } => {
                if let Made::Stop = env.create(*kind, *a, *b).await {
                    break 'ops;
                }
            }
            Op::Delete { kind, sel } => {
                if let Some(h) = env.pick(*kind, *sel) {
                    if !env.delete(*kind, h).await {
                        break 'ops;
                    }
                }
            }
            Op::Churn { kind, cycles, keep_every } => {
                for i in 0..*cycles {
                    match env.create(*kind, i as u16, (i / 7) as u16).await {
                        Made::Stop => break 'ops,
                        Made::Err => {}
                        Made::Ok(h) => {
                            let keep = *keep_every > 0 && i % *keep_every == 0;
                            if !keep && !env.delete(*kind, h).await {
                                break 'ops;
                            }
                        }
                    }
                }
            }
        }
    }
    // ---- the participant must still answer
    if env.out.verdict.is_none() {
        DURING.set("liveness-probe");
        let r = r_of(&call(env.p.get_qos()).await);
        if r != R::Ok {
            env.fail(
                format!("C35:liveness:get_qos-{}", r.name()),
                format!("after the history the participant's get_qos returned {}", r.name()),
            );
        }
        let r = r_of(&call(env.p.get_default_topic_qos()).await);
        if r == R::Hang {
            env.fail("C35:liveness:get_default_topic_qos-Hang".into(), "participant stopped answering".into());
        }
    }
    env.out.alive_at_end = env.live.handles.len();
    env.out
}

pub fn eval(case: &Case) -> CaseResult {
    let mut res = CaseResult::default();
    // planned number of creations per kind: non-trivial when a counter is driven past its id space
    let mut planned: BTreeMap<Kind, u64> = BTreeMap::new();
    for op in &case.ops {
        match op {
            Op::Create { kind, .. } => *planned.entry(*kind).or_insert(0) += 1,
            Op::Churn { kind, cycles, .. } => *planned.entry(*kind).or_insert(0) += *cycles as u64,
            Op::Delete { .. } => {}
        }
    }
    let mut wraps = false;
    for (k, n) in &planned {
        if *n >= k.id_space() {
            res.class(format!("wrap:{}", k.name()));
            wraps = true;
        }
    }
    if !wraps {
        res.class("no-wrap");
    }
    res.class(if case.autoenable { "entities-enabled" } else { "entities-created-disabled" });
    res.nontrivial = wraps;
    match exec::run(scenario(case.clone())) {
        Ok(out) => {
            if let Some(e) = &out.setup_error {
                res.harness_error = Some(e.clone());
            } else {
                res.verdict = out.verdict.clone();
                if out.create_errors.values().sum::<u64>() > 0 {
                    res.class("creation-returned-error");
                }
                if out.delete_errors > 0 {
                    res.class("delete-refused");
                }
                res.info = json!({
                    "created": out.created, "create_errors": out.create_errors, "deleted": out.deleted,
                    "delete_errors": out.delete_errors, "max_alive": out.max_alive, "alive_at_end": out.alive_at_end,
                });
            }
        }
        Err(Abort::Panic(p)) if is_repo_location(&p.location) || p.dds_task => {
            let during = DURING.get();
            let mut sig = format!("C35:panic:{during}:{}:{}", normalize_loc(&p.location), normalize_msg(&p.message));
            if p.message.contains("with overflow") {
                sig.push_str(":profile=overflow-checks");
            }
            res.fail(
                sig,
                format!(
                    "panic in {} during {during} at {}: {}",
                    if p.dds_task { "the DDS worker" } else { "an API call" },
                    p.location,
                    p.message
                ),
            );
        }
        Err(a) => apply_abort("C35", &mut res, a),
    }
    res.sim = sim_stats();
    res
}

pub fn main(ctx: &Ctx) {
    let thorough = ctx.tier == vcore::Tier::Thorough;
    campaign_with_fixed(
        ctx,
        Campaign {
            total_cases: ctx.pick(1_200, 12_000),
            max_shrink_iters: 300,
            limits: Limits { cpu_s: 120, wall_s: 400, as_bytes: 4 << 30 },
            meta: Meta {
                rule: "one participant; generated create/delete histories over publishers, subscribers, topics, writers, readers (1-50(120) ops incl. short churn runs), 10% of the generated cases with a churn run of 300-420 publisher or subscriber creations with random deletions, plus fixed cases evaluated in every run: per entity kind one churn of 600 (publisher, subscriber) resp. 66 000 (topic, writer, reader) create/delete cycles with early entities kept alive (thorough: 3 fixed shapes per kind and generated 66 000-70 000-cycle cases for every kind); oracle: handle of every created entity distinct from all live ones, no panic/hang, participant answers afterwards; non-trivial = the history creates at least as many entities of one kind as its id space holds (256 publishers/subscribers, 65 536 topics/writers/readers), i.e. the id counter is driven to its last value or beyond; distinct = hash of the case",
                assumptions: &[
                    "deterministic simulation, single participant, async API",
                    "get_instance_handle of writers/readers is their RTPS GUID (prefix + entity id)",
                    "creation returning an error is accepted (the statement allows it); deletion results are C36's business and only steer the model",
                    "harness binaries are built with overflow-checks (like every debug build of dust-dds); findings that need them carry profile=overflow-checks in the signature",
                ],
                nontrivial_floor: ctx.pick(50, 600),
            },
        },
        fixed_cases(thorough),
        minimise,
        strategy(thorough),
        eval,
    );
}
