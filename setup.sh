#!/bin/bash
# Builds every harness engine from files on disk only (offline).
set -e
cd "$(dirname "$0")"
export CARGO_NET_OFFLINE=true
export VERIF_ROOT="$(pwd)"
cargo build --release --workspace 2>&1 | tail -3
# E-GEN: build dust_dds once into the shared target dir used for generated crates
./target/release/gen SETUP quick 2>&1 | tail -2 || true
# E-FUZZ: build the libFuzzer targets (nightly toolchain, offline)
(cd fuzz && cp -n /repo/Cargo.lock Cargo.lock; cargo +nightly fuzz build -O -s none --target-dir /verif/target-fuzz 2>&1 | tail -3) || true
