#!/bin/bash
# Builds every harness engine from files on disk only (offline).
set -e
cd "$(dirname "$0")"
export CARGO_NET_OFFLINE=true
cargo build --release --workspace 2>&1 | tail -3
