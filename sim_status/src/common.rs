//! Shared plumbing of the sim_status engine: the DDS runtime used by these scenarios, recording
//! listeners for the three listener levels, verdict selection and small helpers.

use std::{
    future::Future,
    pin::Pin,
    sync::{Arc, Mutex},
    task::{Context, Poll},
};

use dust_dds::{
    configuration::DustDdsConfiguration,
    dds_async::{
        data_reader::DataReaderAsync, data_reader_listener::DataReaderListener,
        data_writer::DataWriterAsync, data_writer_listener::DataWriterListener,
        domain_participant_factory::DomainParticipantFactoryAsync,
        domain_participant_listener::DomainParticipantListener,
        publisher_listener::PublisherListener, subscriber::SubscriberAsync,
        subscriber_listener::SubscriberListener, topic::TopicAsync,
    },
    infrastructure::{
        status::{
            InconsistentTopicStatus, OfferedDeadlineMissedStatus, OfferedIncompatibleQosStatus,
            PublicationMatchedStatus, RequestedDeadlineMissedStatus,
            RequestedIncompatibleQosStatus, SampleRejectedStatus, StatusKind,
            SubscriptionMatchedStatus,
        },
        time::Time,
    },
    runtime::{DdsRuntime, Timer},
};
use serde::{Deserialize, Serialize};
use sim::{
    case::CaseResult,
    exec::{self, SimClock, SimSpawner, with_world},
    net::SimTransport,
};

pub const MS: u64 = 1_000_000;
/// 5^9 ns: explicit timestamps on this grid survive the RTPS 2^-32 s fraction conversion exactly
pub const TICK: u64 = 1_953_125;
pub const POKE_NS: u64 = 50 * MS;

// ------------------------------------------------------------------------------------------
// DDS runtime: the sim executor's clock and spawner, plus a timer that (a) records every requested
// delay into `World::dds_delays` exactly like sim's own timer and (b) gives a zero delay one clock
// quantum (1 ns). Without (b) the DDS worker, which sleeps exactly until `last + period` and then
// tests `now - last > period`, would request `delay(0)` forever at one virtual instant (on a real
// clock this is a sub-microsecond spin); the recorded value stays the requested one.

#[derive(Clone)]
pub struct QTimer;

pub struct QSleep {
    ns: u64,
    inner: Option<exec::Sleep>,
}

impl Future for QSleep {
    type Output = ();
    fn poll(mut self: Pin<&mut Self>, cx: &mut Context<'_>) -> Poll<()> {
        if self.inner.is_none() {
            let ns = self.ns;
            with_world(|w| w.dds_delays.push((w.now_ns, ns)));
            self.inner = Some(exec::sleep_ns(ns.max(1)));
        }
        Pin::new(self.inner.as_mut().unwrap()).poll(cx)
    }
}

impl Timer for QTimer {
    fn delay(&mut self, d: core::time::Duration) -> impl Future<Output = ()> + Send {
        QSleep { ns: d.as_nanos().min((u64::MAX / 4) as u128) as u64, inner: None }
    }
}

pub struct QRuntime;
impl DdsRuntime for QRuntime {
    type ClockHandle = SimClock;
    type TimerHandle = QTimer;
    type SpawnerHandle = SimSpawner;
    fn timer(&self) -> QTimer {
        QTimer
    }
    fn clock(&self) -> SimClock {
        SimClock
    }
    fn spawner(&self) -> SimSpawner {
        SimSpawner
    }
}

pub type Factory = DomainParticipantFactoryAsync<SimTransport>;

/// The one factory (and DDS worker) of this process; only ever called in a forked child.
pub fn factory() -> &'static Factory {
    factory_with(Default::default())
}

pub fn factory_with(cfg: DustDdsConfiguration) -> &'static Factory {
    use std::sync::OnceLock;
    struct P(&'static Factory);
    unsafe impl Sync for P {}
    unsafe impl Send for P {}
    static F: OnceLock<P> = OnceLock::new();
    F.get_or_init(|| {
        P(Box::leak(Box::new(DomainParticipantFactoryAsync::new(
            QRuntime,
            [1, 2, 3, 4],
            [5, 6, 7, 8],
            SimTransport,
            cfg,
        ))))
    })
    .0
}

/// A scenario of this engine needs well under 10^5 executor polls (a 100 s lease expiry with 50 ms announcements ~ 8*10^3); a
/// worker that keeps re-running at one virtual instant is reported as a livelock after 10^5.
pub fn limit_steps() {
    with_world(|w| w.step_limit = 100_000);
}

pub fn time_of_ns(ns: u64) -> Time {
    Time::new((ns / 1_000_000_000) as i32, (ns % 1_000_000_000) as u32)
}

// ------------------------------------------------------------------------------------------
// status kinds as a serialisable enum (index = bit in our masks)

#[derive(Clone, Copy, Debug, PartialEq, Eq, PartialOrd, Ord, Serialize, Deserialize)]
pub enum St {
    DataAvailable,
    DataOnReaders,
    SubscriptionMatched,
    RequestedIncompatibleQos,
    RequestedDeadlineMissed,
    SampleRejected,
    PublicationMatched,
    OfferedIncompatibleQos,
    OfferedDeadlineMissed,
    InconsistentTopic,
}

impl St {
    pub const ALL: [St; 10] = [
        St::DataAvailable,
        St::DataOnReaders,
        St::SubscriptionMatched,
        St::RequestedIncompatibleQos,
        St::RequestedDeadlineMissed,
        St::SampleRejected,
        St::PublicationMatched,
        St::OfferedIncompatibleQos,
        St::OfferedDeadlineMissed,
        St::InconsistentTopic,
    ];
    pub fn bit(self) -> u16 {
        1 << (self as u16)
    }
    pub fn kind(self) -> StatusKind {
        match self {
            St::DataAvailable => StatusKind::DataAvailable,
            St::DataOnReaders => StatusKind::DataOnReaders,
            St::SubscriptionMatched => StatusKind::SubscriptionMatched,
            St::RequestedIncompatibleQos => StatusKind::RequestedIncompatibleQos,
            St::RequestedDeadlineMissed => StatusKind::RequestedDeadlineMissed,
            St::SampleRejected => StatusKind::SampleRejected,
            St::PublicationMatched => StatusKind::PublicationMatched,
            St::OfferedIncompatibleQos => StatusKind::OfferedIncompatibleQos,
            St::OfferedDeadlineMissed => StatusKind::OfferedDeadlineMissed,
            St::InconsistentTopic => StatusKind::InconsistentTopic,
        }
    }
    pub fn name(self) -> &'static str {
        match self {
            St::DataAvailable => "DataAvailable",
            St::DataOnReaders => "DataOnReaders",
            St::SubscriptionMatched => "SubscriptionMatched",
            St::RequestedIncompatibleQos => "RequestedIncompatibleQos",
            St::RequestedDeadlineMissed => "RequestedDeadlineMissed",
            St::SampleRejected => "SampleRejected",
            St::PublicationMatched => "PublicationMatched",
            St::OfferedIncompatibleQos => "OfferedIncompatibleQos",
            St::OfferedDeadlineMissed => "OfferedDeadlineMissed",
            St::InconsistentTopic => "InconsistentTopic",
        }
    }
}

pub fn mask_kinds(mask: u16) -> Vec<StatusKind> {
    St::ALL.iter().filter(|s| mask & s.bit() != 0).map(|s| s.kind()).collect()
}

// ------------------------------------------------------------------------------------------
// recording listeners

#[derive(Clone, Debug, Serialize, Deserialize)]
pub struct Call {
    /// 0 = the entity's own listener, 1 = publisher/subscriber, 2 = participant, 3 = topic
    pub level: u8,
    pub status: St,
    /// instance handle of the entity the callback names
    pub entity: [u8; 16],
    pub t_ns: u64,
    pub total: i32,
    pub total_change: i32,
    pub current: i32,
    pub current_change: i32,
}

pub type Log = Arc<Mutex<Vec<Call>>>;

#[derive(Clone)]
pub struct Rec {
    pub level: u8,
    pub log: Log,
}

impl Rec {
    pub fn new(level: u8, log: &Log) -> Self {
        Rec { level, log: log.clone() }
    }
    fn push(&self, status: St, entity: [u8; 16], c: (i32, i32, i32, i32)) {
        self.log.lock().unwrap().push(Call {
            level: self.level,
            status,
            entity,
            t_ns: exec::now_ns(),
            total: c.0,
            total_change: c.1,
            current: c.2,
            current_change: c.3,
        });
    }
}

macro_rules! reader_callbacks {
    ($foo:ty) => {
        fn on_data_available(&mut self, r: DataReaderAsync<$foo>) -> impl Future<Output = ()> + Send {
            self.push(St::DataAvailable, r.get_instance_handle().into(), (0, 0, 0, 0));
            core::future::ready(())
        }
        fn on_sample_rejected(&mut self, r: DataReaderAsync<$foo>, s: SampleRejectedStatus) -> impl Future<Output = ()> + Send {
            self.push(St::SampleRejected, r.get_instance_handle().into(), (s.total_count, s.total_count_change, 0, 0));
            core::future::ready(())
        }
        fn on_requested_deadline_missed(&mut self, r: DataReaderAsync<$foo>, s: RequestedDeadlineMissedStatus) -> impl Future<Output = ()> + Send {
            self.push(St::RequestedDeadlineMissed, r.get_instance_handle().into(), (s.total_count, s.total_count_change, 0, 0));
            core::future::ready(())
        }
        fn on_requested_incompatible_qos(&mut self, r: DataReaderAsync<$foo>, s: RequestedIncompatibleQosStatus) -> impl Future<Output = ()> + Send {
            self.push(St::RequestedIncompatibleQos, r.get_instance_handle().into(), (s.total_count, s.total_count_change, 0, 0));
            core::future::ready(())
        }
        fn on_subscription_matched(&mut self, r: DataReaderAsync<$foo>, s: SubscriptionMatchedStatus) -> impl Future<Output = ()> + Send {
            self.push(
                St::SubscriptionMatched,
                r.get_instance_handle().into(),
                (s.total_count, s.total_count_change, s.current_count, s.current_count_change),
            );
            core::future::ready(())
        }
    };
}

macro_rules! writer_callbacks {
    ($foo:ty) => {
        fn on_offered_deadline_missed(&mut self, w: DataWriterAsync<$foo>, s: OfferedDeadlineMissedStatus) -> impl Future<Output = ()> + Send {
            self.push(St::OfferedDeadlineMissed, w.get_instance_handle().into(), (s.total_count, s.total_count_change, 0, 0));
            core::future::ready(())
        }
        fn on_offered_incompatible_qos(&mut self, w: DataWriterAsync<$foo>, s: OfferedIncompatibleQosStatus) -> impl Future<Output = ()> + Send {
            self.push(St::OfferedIncompatibleQos, w.get_instance_handle().into(), (s.total_count, s.total_count_change, 0, 0));
            core::future::ready(())
        }
        fn on_publication_matched(&mut self, w: DataWriterAsync<$foo>, s: PublicationMatchedStatus) -> impl Future<Output = ()> + Send {
            self.push(
                St::PublicationMatched,
                w.get_instance_handle().into(),
                (s.total_count, s.total_count_change, s.current_count, s.current_count_change),
            );
            core::future::ready(())
        }
    };
}

impl<Foo: 'static> DataReaderListener<Foo> for Rec {
    reader_callbacks!(Foo);
}

impl<Foo: 'static> DataWriterListener<Foo> for Rec {
    writer_callbacks!(Foo);
}

impl SubscriberListener for Rec {
    fn on_data_on_readers(&mut self, s: SubscriberAsync) -> impl Future<Output = ()> + Send {
        self.push(St::DataOnReaders, s.get_instance_handle().into(), (0, 0, 0, 0));
        core::future::ready(())
    }
    reader_callbacks!(());
}

impl PublisherListener for Rec {
    writer_callbacks!(());
}

impl DomainParticipantListener for Rec {
    fn on_inconsistent_topic(&mut self, t: TopicAsync, s: InconsistentTopicStatus) -> impl Future<Output = ()> + Send {
        self.push(St::InconsistentTopic, t.get_instance_handle().into(), (s.total_count, s.total_count_change, 0, 0));
        core::future::ready(())
    }
    reader_callbacks!(());
    writer_callbacks!(());
}

impl dust_dds::dds_async::topic_listener::TopicListener for Rec {
    fn on_inconsistent_topic(&mut self, t: TopicAsync, s: InconsistentTopicStatus) -> impl Future<Output = ()> + Send {
        self.push(St::InconsistentTopic, t.get_instance_handle().into(), (s.total_count, s.total_count_change, 0, 0));
        core::future::ready(())
    }
}

// ------------------------------------------------------------------------------------------
// verdict selection: a case may trip several sub-oracles; report the first one (in the oracle's
// priority order) that is not a listed known finding, so known findings do not mask others.

pub fn choose_verdict(prop: &str, res: &mut CaseResult, failures: Vec<(String, String)>) {
    if failures.is_empty() {
        return;
    }
    let known = vcore::Known::load(prop);
    let pick = failures.iter().find(|f| !known.matches(&f.0)).unwrap_or(&failures[0]).clone();
    let others: Vec<&str> = failures.iter().map(|f| f.0.as_str()).filter(|s| *s != pick.0).collect();
    let mut what = pick.1;
    if !others.is_empty() {
        let mut o: Vec<&str> = others;
        o.sort();
        o.dedup();
        what.push_str(&format!(" [also failing in this case: {}]", o.join(", ")));
    }
    res.verdict = Some((pick.0, what));
}
