//! C31: the DDS worker never asks the timer for more than one poke period (50 ms), and a blocked
//! write with a finite max_blocking_time returns Timeout within max_blocking_time + 50 ms.
//!
//! Observation: every duration dust-dds passes to `Timer::delay` (recorded with its virtual instant).
//! Scenarios: a writer (participant A) and a reader (participant B) with generated deadline, lifespan,
//! history depth, max_blocking_time and participant announcement interval; operations are writes
//! (optionally with a source timestamp in the past), disposes, mail-free pauses placed around the
//! deadline / lifespan / lease instants, and partitioning of the reader's participant (so that
//! reliable KEEP_LAST writes block because acknowledgements never arrive).

use dust_dds::{
    configuration::DustDdsConfigurationBuilder,
    infrastructure::{
        error::DdsError,
        listener::NO_LISTENER,
        qos::{DataReaderQos, DataWriterQos, QosKind},
        qos_policy::{
            DeadlineQosPolicy, HistoryQosPolicy, HistoryQosPolicyKind, LifespanQosPolicy,
            ReliabilityQosPolicy, ReliabilityQosPolicyKind,
        },
        status::NO_STATUS,
        time::DurationKind,
    },
};
use proptest::prelude::*;
use serde::{Deserialize, Serialize};
use serde_json::json;
use sim::{
    case::{CaseResult, apply_abort, sim_stats},
    exec::{self, with_world},
    props::{Campaign, campaign},
    types::KeyedData,
    util::{Timed, dk_ms, timeout, wait_until},
};
use vcore::{Ctx, Meta, fork::Limits};

use crate::common::{MS, POKE_NS, TICK, choose_verdict, factory_with, time_of_ns};

const LEASE_MS: u64 = 100_000;
/// executor step slack on top of the bounds of the statement
const EPS_NS: u64 = MS;

#[derive(Clone, Debug, Serialize, Deserialize)]
pub enum Op {
    /// back_ms: source timestamp that many ms in the past (write_w_timestamp); None = write()
    Write { inst: u8, back_ms: Option<u32> },
    Dispose { inst: u8 },
    /// mail-free pause of the application
    Pause { ms: u32 },
    /// connect / disconnect the reader's participant from the network
    Partition { connected: bool },
}

#[derive(Clone, Debug, Serialize, Deserialize)]
pub struct C31Case {
    pub ann_ms: u32,
    /// offered / requested deadline in units of 100 ms
    pub w_deadline: Option<u16>,
    pub r_deadline: Option<u16>,
    pub lifespan_ms: Option<u32>,
    /// KEEP_LAST depth of the writer (None = KEEP_ALL)
    pub depth: Option<u8>,
    pub mbt_ms: u32,
    pub ops: Vec<Op>,
}

pub fn strategy(thorough: bool) -> BoxedStrategy<C31Case> {
    let max_ops = if thorough { 24 } else { 12 };
    let ann = prop_oneof![
        3 => Just(5_000u32),
        1 => Just(50u32),
        1 => Just(70u32),
        1 => Just(120u32),
        1 => Just(1_000u32),
        1 => Just(30_000u32),
    ];
    let deadline = prop::option::weighted(0.6, 2u16..=20);
    let lifespan = prop::option::weighted(0.4, prop_oneof![Just(40u32), Just(100), Just(250), 30u32..1500]);
    let depth = prop::option::weighted(0.7, 1u8..=2);
    let mbt = prop_oneof![Just(50u32), Just(100), Just(175), Just(500), Just(2000), 50u32..2000];
    (ann, deadline, any::<bool>(), 0u16..4, lifespan, depth, mbt)
        .prop_flat_map(move |(ann_ms, w_deadline, r_has, r_extra, lifespan_ms, depth, mbt_ms)| {
            let r_deadline = match (w_deadline, r_has) {
                (Some(p), true) => Some((p + r_extra).min(20)),
                _ => None,
            };
            // pauses placed around the instants at which something becomes due
            let mut marks: Vec<u32> = vec![1, 10, 49, 50, 51, 100, 700];
            for p in [w_deadline, r_deadline].into_iter().flatten() {
                let p = p as u32 * 100;
                marks.extend([p - 51, p - 1, p, p + 1, p + 49, p + 60, 2 * p + 10, 3 * p + 30]);
            }
            if let Some(l) = lifespan_ms {
                marks.extend([l.saturating_sub(1).max(1), l, l + 1, l + 60]);
            }
            marks.extend([mbt_ms, mbt_ms + 60, ann_ms.min(6_000) + 10]);
            let pause = prop_oneof![
                6 => prop::sample::select(marks).prop_map(|ms| Op::Pause { ms }),
                2 => (1u32..3_000).prop_map(|ms| Op::Pause { ms }),
            ];
            let back = {
                let mut b: Vec<u32> = vec![1, 30, 1_000, 10_000];
                if let Some(p) = w_deadline {
                    let p = p as u32 * 100;
                    b.extend([p - 1, p, p + 1, 2 * p + 5, 3 * p]);
                }
                if let Some(l) = lifespan_ms {
                    b.extend([l.saturating_sub(1).max(1), l, l + 1]);
                }
                prop::option::weighted(0.35, prop::sample::select(b))
            };
            let op = prop_oneof![
                8 => (0u8..2, back).prop_map(|(inst, back_ms)| Op::Write { inst, back_ms }),
                1 => (0u8..2).prop_map(|inst| Op::Dispose { inst }),
                6 => pause,
                2 => any::<bool>().prop_map(|connected| Op::Partition { connected }),
            ];
            // rare: a partition that outlasts the 100 s participant lease
            let lease = prop::bool::weighted(0.03);
            (
                Just((ann_ms, w_deadline, r_deadline, lifespan_ms, depth, mbt_ms)),
                prop::collection::vec(op, 1..=max_ops),
                lease,
                // 40 % of the cases use no source timestamps in the past at all, so that the other routes to an
                // overdue event are explored without the (known) effect of old timestamps
                prop::bool::weighted(0.6),
            )
        })
        .prop_map(|((ann_ms, w_deadline, r_deadline, lifespan_ms, depth, mbt_ms), mut ops, lease, allow_past)| {
            if !allow_past {
                for op in ops.iter_mut() {
                    if let Op::Write { back_ms, .. } = op {
                        *back_ms = None;
                    }
                }
            }
            if lease {
                let at = ops.len() / 2;
                ops.insert(at, Op::Partition { connected: false });
                ops.insert(at + 1, Op::Pause { ms: LEASE_MS as u32 + 20 });
                ops.insert(at + 2, Op::Pause { ms: 40 });
            }
            C31Case { ann_ms, w_deadline, r_deadline, lifespan_ms, depth, mbt_ms, ops }
        })
        .boxed()
}

#[derive(Clone, Debug, Serialize, Deserialize)]
pub struct WriteRec {
    pub op: usize,
    pub start_ns: u64,
    pub end_ns: u64,
    /// "ok", "timeout", "never" (harness gave up after max_blocking_time + 5 s) or another error
    pub result: String,
}

#[derive(Clone, Debug, Default, Serialize, Deserialize)]
pub struct Hist {
    pub setup_error: Option<String>,
    pub t_start: u64,
    pub writes: Vec<WriteRec>,
    pub delays: Vec<(u64, u64)>,
}

async fn scenario(c: C31Case) -> Hist {
    let mut h = Hist::default();
    crate::common::limit_steps();
    let cfg = DustDdsConfigurationBuilder::new()
        .participant_announcement_interval(core::time::Duration::from_millis(c.ann_ms as u64))
        .build()
        .unwrap();
    let f = factory_with(cfg);
    h.t_start = exec::now_ns();
    let rel = ReliabilityQosPolicy { kind: ReliabilityQosPolicyKind::Reliable, max_blocking_time: dk_ms(c.mbt_ms as u64) };
    let dl = |d: Option<u16>| DeadlineQosPolicy { period: d.map(|p| dk_ms(p as u64 * 100)).unwrap_or(DurationKind::Infinite) };
    let pa = f.create_participant(0, QosKind::Default, NO_LISTENER, NO_STATUS).await.unwrap();
    let ta = pa.create_topic::<KeyedData>("T", "KeyedData", QosKind::Default, NO_LISTENER, NO_STATUS).await.unwrap();
    let publ = pa.create_publisher(QosKind::Default, NO_LISTENER, NO_STATUS).await.unwrap();
    let wq = DataWriterQos {
        reliability: rel.clone(),
        history: HistoryQosPolicy { kind: c.depth.map(|d| HistoryQosPolicyKind::KeepLast(d as u32)).unwrap_or(HistoryQosPolicyKind::KeepAll) },
        deadline: dl(c.w_deadline),
        lifespan: LifespanQosPolicy { duration: c.lifespan_ms.map(|l| dk_ms(l as u64)).unwrap_or(DurationKind::Infinite) },
        ..Default::default()
    };
    let writer = match publ.create_datawriter::<KeyedData>(&ta, QosKind::Specific(wq), NO_LISTENER, NO_STATUS).await {
        Ok(w) => w,
        Err(e) => {
            h.setup_error = Some(format!("create_datawriter: {e:?}"));
            return h;
        }
    };
    let pb = f.create_participant(0, QosKind::Default, NO_LISTENER, NO_STATUS).await.unwrap();
    let tb = pb.create_topic::<KeyedData>("T", "KeyedData", QosKind::Default, NO_LISTENER, NO_STATUS).await.unwrap();
    let sub = pb.create_subscriber(QosKind::Default, NO_LISTENER, NO_STATUS).await.unwrap();
    let rq = DataReaderQos {
        reliability: rel,
        history: HistoryQosPolicy { kind: HistoryQosPolicyKind::KeepAll },
        deadline: dl(c.r_deadline),
        ..Default::default()
    };
    let reader = match sub.create_datareader::<KeyedData>(&tb, QosKind::Specific(rq), NO_LISTENER, NO_STATUS).await {
        Ok(r) => r,
        Err(e) => {
            h.setup_error = Some(format!("create_datareader: {e:?}"));
            return h;
        }
    };
    let matched = wait_until(20_000, 10, || async {
        writer.get_publication_matched_status().await.map(|s| s.current_count == 1).unwrap_or(false)
            && reader.get_subscription_matched_status().await.map(|s| s.current_count == 1).unwrap_or(false)
    })
    .await;
    if !matched {
        h.setup_error = Some("writer and reader did not match within 20 s".into());
        return h;
    }
    let mut seq = 0u32;
    for (i, op) in c.ops.iter().enumerate() {
        match op {
            Op::Pause { ms } => exec::sleep_ms(*ms as u64).await,
            Op::Partition { connected } => with_world(|w| w.net.endpoints[1].connected = *connected),
            Op::Dispose { inst } => {
                let _ = timeout(c.mbt_ms as u64 + 5_000, writer.dispose(KeyedData { id: *inst, seq: 0, blob: vec![] }, None)).await;
            }
            Op::Write { inst, back_ms } => {
                seq += 1;
                let data = KeyedData { id: *inst, seq, blob: vec![1, 2, 3] };
                let start = exec::now_ns();
                let r = match back_ms {
                    None => timeout(c.mbt_ms as u64 + 5_000, writer.write(data, None)).await,
                    Some(b) => {
                        let ts = (start - *b as u64 * MS) / TICK * TICK;
                        timeout(c.mbt_ms as u64 + 5_000, writer.write_w_timestamp(data, None, time_of_ns(ts))).await
                    }
                };
                let result = match r {
                    Timed::Done(Ok(())) => "ok".to_string(),
                    Timed::Done(Err(DdsError::Timeout)) => "timeout".to_string(),
                    Timed::Done(Err(e)) => format!("{e:?}"),
                    Timed::TimedOut => "never".to_string(),
                };
                h.writes.push(WriteRec { op: i, start_ns: start, end_ns: exec::now_ns(), result });
            }
        }
    }
    // a few more worker iterations after the last operation
    exec::sleep_ms(120).await;
    h.delays = with_world(|w| w.dds_delays.clone());
    drop((pa, pb, ta, tb, publ, sub, reader));
    h
}

fn oracle(c: &C31Case, h: &Hist, res: &mut CaseResult) {
    if let Some(e) = &h.setup_error {
        res.harness_error = Some(e.clone());
        return;
    }
    let rel = |t: u64| (t as i64 - h.t_start as i64) / MS as i64;
    let mut fails: Vec<(String, String)> = vec![];
    // ---- every requested delay is at most one poke period
    if let Some((t, d)) = h.delays.iter().filter(|d| d.1 > POKE_NS).min_by_key(|d| d.0) {
        let huge = *d >= 1_000_000_000_000_000_000;
        let n = h.delays.iter().filter(|d| d.1 > POKE_NS).count();
        fails.push((
            format!("C31:oversleep:{}", if huge { "negative-time-until" } else { "above-poke-period" }),
            format!(
                "at {} ms after start the DDS worker asked the timer for a delay of {} (poke period is 50 ms){}; {} such requests in this case; QoS: offered deadline {:?} x100 ms, requested deadline {:?} x100 ms, lifespan {:?} ms, history depth {:?}, announcement interval {} ms",
                rel(*t),
                if huge { format!("{:.3e} s", *d as f64 / 1e9) } else { format!("{} ms", d / MS) },
                if huge { " - a negative time-until-next-event converted to an unsigned duration" } else { "" },
                n,
                c.w_deadline, c.r_deadline, c.lifespan_ms, c.depth, c.ann_ms
            ),
        ));
    }
    // ---- blocked writes
    let mbt = c.mbt_ms as u64 * MS;
    let mut blocked = false;
    let mut abandoned = false;
    for w in &h.writes {
        let dur = w.end_ns - w.start_ns;
        if dur > 0 {
            blocked = true;
        }
        let what = |s: &str| format!("write (op #{}) started at {} ms with max_blocking_time {} ms {s}", w.op, rel(w.start_ns), c.mbt_ms);
        // a write that is late because the worker was in an over-long sleep is the oversleep finding, not a second one
        let asleep = h.delays.iter().any(|d| d.1 > POKE_NS && d.0 <= w.start_ns + mbt + POKE_NS && d.0.saturating_add(d.1) > w.start_ns + mbt + POKE_NS);
        if asleep && dur > mbt + POKE_NS + EPS_NS {
            res.class("write_late_because_worker_overslept");
            abandoned |= w.result == "never";
            continue;
        }
        if abandoned && w.result.contains("Another writer already waiting") {
            // the harness gave up on an earlier write that the sleeping worker never timed out; that write is
            // still pending inside dust-dds and makes this one fail - part of the oversleep finding
            res.class("write_refused_behind_abandoned_write");
            continue;
        }
        match w.result.as_str() {
            "never" => {
                abandoned = true;
                fails.push(("C31:blocked-write:never-returned".into(), what("had not returned 5 s after max_blocking_time")))
            }
            "timeout" => {
                if dur < mbt {
                    fails.push(("C31:blocked-write:timeout-too-early".into(), what(&format!("returned Timeout after only {} ms", dur / MS))));
                } else if dur > mbt + POKE_NS + EPS_NS {
                    fails.push(("C31:blocked-write:timeout-too-late".into(), what(&format!("returned Timeout after {} ms (> max_blocking_time + 50 ms)", dur / MS))));
                }
            }
            "ok" => {
                if dur > mbt + POKE_NS + EPS_NS {
                    fails.push(("C31:blocked-write:returned-late".into(), what(&format!("returned Ok after {} ms (> max_blocking_time + 50 ms)", dur / MS))));
                }
            }
            other => fails.push((
                "C31:blocked-write:unexpected-error".into(),
                what(&format!("failed with {}", other.chars().take(80).collect::<String>())),
            )),
        }
    }
    // ---- classification: which events can be overdue when the worker computes its next sleep
    let mut overdue = false;
    let mut wrote = false;
    let mut connected = true;
    let mut disconnected_ms = 0u64;
    for op in &c.ops {
        match op {
            Op::Write { back_ms, .. } => {
                wrote = true;
                if let (Some(b), Some(p)) = (back_ms, c.w_deadline) {
                    if *b as u64 >= p as u64 * 100 {
                        res.class("write_timestamp_older_than_deadline");
                        overdue = true;
                    }
                }
                if let (Some(b), Some(l)) = (back_ms, c.lifespan_ms) {
                    if *b >= l {
                        res.class("write_timestamp_older_than_lifespan");
                        overdue = true;
                    }
                }
            }
            Op::Pause { ms } => {
                if wrote {
                    for p in [c.w_deadline, c.r_deadline].into_iter().flatten() {
                        if *ms as u64 >= p as u64 * 100 {
                            res.class("pause_crosses_deadline");
                            overdue = true;
                        }
                    }
                    if let Some(l) = c.lifespan_ms {
                        if *ms >= l {
                            res.class("pause_crosses_lifespan");
                            overdue = true;
                        }
                    }
                }
                if *ms >= c.ann_ms {
                    res.class("pause_crosses_announcement");
                }
                if !connected {
                    disconnected_ms += *ms as u64;
                    if disconnected_ms >= LEASE_MS {
                        res.class("lease_expiry");
                        overdue = true;
                    }
                }
            }
            Op::Partition { connected: c2 } => {
                connected = *c2;
                if connected {
                    disconnected_ms = 0;
                } else {
                    res.class("partition");
                }
            }
            Op::Dispose { .. } => {}
        }
    }
    if blocked {
        res.class("write_blocked");
    }
    if h.writes.iter().any(|w| w.result == "timeout") {
        res.class("write_timeout");
    }
    if !c.ops.iter().any(|o| matches!(o, Op::Write { back_ms: Some(_), .. })) {
        res.class("no_past_timestamps");
    }
    res.nontrivial = overdue || blocked;
    res.info = json!({
        "delays": h.delays.len(),
        "max_delay_ms": h.delays.iter().map(|d| d.1).max().unwrap_or(0) / MS,
        "writes": h.writes.iter().map(|w| json!({"op": w.op, "start_ms": rel(w.start_ns), "dur_ms": (w.end_ns - w.start_ns) / MS, "result": w.result})).collect::<Vec<_>>(),
    });
    choose_verdict("C31", res, fails);
}

pub fn eval(case: &C31Case) -> CaseResult {
    let mut res = CaseResult::default();
    match exec::run(scenario(case.clone())) {
        Ok(h) => oracle(case, &h, &mut res),
        Err(a) => apply_abort("C31", &mut res, a),
    }
    res.sim = sim_stats();
    res
}

pub fn main(ctx: &Ctx) {
    let thorough = ctx.tier == vcore::Tier::Thorough;
    campaign(
        ctx,
        Campaign {
            total_cases: ctx.pick(1_000, 10_000),
            max_shrink_iters: 100,
            limits: Limits { cpu_s: 30, wall_s: 120, as_bytes: 4 << 30 },
            meta: Meta {
                rule: "writer + reader in two participants; generated offered/requested deadline (200 ms..2 s), writer lifespan, KEEP_LAST depth 1-2 or KEEP_ALL, max_blocking_time 50 ms..2 s, announcement interval 50 ms..30 s; ops: write / write_w_timestamp in the past / dispose / mail-free pauses around the deadline, lifespan, announcement and lease instants / partition of the reader participant (reliable KEEP_LAST writes block); every Timer::delay request of dust-dds is recorded; non-trivial = the scenario makes some time_until_* event due or overdue (source timestamp older than deadline or lifespan, pause crossing a deadline / lifespan / lease instant) or a write blocked; distinct = hash of the case",
                assumptions: &[
                    "every duration requested from the runtime timer by dust-dds is a worker sleep (the worker is the only user of Timer::delay in these scenarios)",
                    "a write's blocking time is measured in virtual time from the call to its return; 1 ms slack on top of max_blocking_time + 50 ms",
                    "Timer::delay(0) takes 1 ns of virtual time in this engine (see sim_status/src/common.rs); the recorded value is the requested one",
                ],
                nontrivial_floor: 100,
            },
        },
        strategy(thorough),
        eval,
    );
}
