pub fn main(_ctx: &vcore::Ctx) {
    std::process::exit(2)
}
