//! C30: offered / requested deadline-missed counts against the simulated clock.
//!
//! One writer (participant A, offered deadline Pw) and one reader (participant B, requested deadline
//! Pr >= Pw) on a perfect network. The scenario is a timeline on a 25 ms grid of writes (1-3
//! instances, bursts, gaps of 0.3P..3.7P) and observation points. The oracle computes, from the
//! write instants alone, the interval [lo, hi] of admissible total_count values at every observation:
//! a deadline boundary `last_sample + m*P` certainly counts once it lies at least 75 ms in the past
//! (one 50 ms worker tick + slack) and no sample arrived before then; a boundary closer than 75 ms to
//! the observation or to the next sample may or may not have been counted (tolerance for the worker
//! tick granularity); everything else must not be counted.

use std::collections::BTreeMap;

use dust_dds::infrastructure::{
    listener::NO_LISTENER,
    qos::{DataReaderQos, DataWriterQos, QosKind},
    qos_policy::{
        DeadlineQosPolicy, HistoryQosPolicy, HistoryQosPolicyKind, ReliabilityQosPolicy,
        ReliabilityQosPolicyKind,
    },
    status::{NO_STATUS, StatusKind},
};
use proptest::prelude::*;
use serde::{Deserialize, Serialize};
use serde_json::json;
use sim::{
    case::{CaseResult, apply_abort, sim_stats},
    exec,
    props::{Campaign, campaign},
    types::KeyedData,
    util::{dk_ms, wait_until},
};
use vcore::{Ctx, Meta, fork::Limits};

use crate::common::{Call, Log, MS, Rec, St, choose_verdict, factory};

const GRID_MS: u64 = 25;
/// detection latency tolerated after a boundary: one poke period + slack
const D_NS: u64 = 75 * MS;

#[derive(Clone, Debug, Serialize, Deserialize)]
pub enum Step {
    Write { inst: u8 },
    /// advance virtual time by `ticks` * 25 ms
    Wait { ticks: u16 },
    Observe,
}

#[derive(Clone, Debug, Serialize, Deserialize)]
pub struct C30Case {
    /// offered deadline in units of 100 ms (2..=20)
    pub pw: u16,
    /// requested deadline in units of 100 ms (>= pw)
    pub pr: u16,
    pub reliable: bool,
    pub writer_listener: bool,
    pub reader_listener: bool,
    pub steps: Vec<Step>,
}

const FRACS: [f64; 12] = [0.0, 0.3, 0.5, 0.75, 0.9, 1.25, 1.5, 2.25, 2.5, 3.25, 3.5, 3.7];

pub fn strategy(thorough: bool) -> BoxedStrategy<C30Case> {
    let max_blocks = if thorough { 14 } else { 8 };
    (2u16..=20, 0u8..4, 0u16..6, 1u8..=3)
        .prop_flat_map(move |(pw, mode, k, n_inst)| {
            let pr = match mode {
                0 | 1 => pw,
                2 => (pw + k + 1).min(20),
                _ => {
                    if pw * 2 <= 20 {
                        pw * 2
                    } else {
                        pw
                    }
                }
            };
            // one block: write(s) to an instance, then one or two waits expressed as fractions of Pw or Pr,
            // each optionally followed by an observation
            let wait = (0usize..FRACS.len(), any::<bool>(), prop::option::weighted(0.25, 1u16..(4 * 4 * pr)))
                .prop_map(move |(f, use_pr, raw)| {
                    let p_ticks = (if use_pr { pr } else { pw }) as f64 * 4.0;
                    match raw {
                        Some(t) => t,
                        None => (FRACS[f] * p_ticks).round() as u16,
                    }
                });
            let block = (0..n_inst, 0u8..6, wait.clone(), prop::bool::weighted(0.85), prop::option::weighted(0.4, (wait, prop::bool::weighted(0.85))))
                .prop_map(|(inst, burst, w1, o1, second)| {
                    let mut v = vec![Step::Write { inst }];
                    // a burst: more samples of the same instance 25 ms apart (well within any period)
                    if burst >= 4 {
                        for _ in 0..(burst - 3) {
                            v.push(Step::Wait { ticks: 1 });
                            v.push(Step::Write { inst });
                        }
                    }
                    if w1 > 0 {
                        v.push(Step::Wait { ticks: w1 });
                    }
                    if o1 {
                        v.push(Step::Observe);
                    }
                    if let Some((w2, o2)) = second {
                        if w2 > 0 {
                            v.push(Step::Wait { ticks: w2 });
                        }
                        if o2 {
                            v.push(Step::Observe);
                        }
                    }
                    v
                });
            (
                Just(pw),
                Just(pr),
                any::<bool>(),
                any::<bool>(),
                prop::bool::weighted(0.75),
                prop::collection::vec(block, 1..=max_blocks),
            )
        })
        .prop_map(|(pw, pr, reliable, writer_listener, reader_listener, blocks)| {
            let mut steps: Vec<Step> = blocks.into_iter().flatten().collect();
            // bound the virtual length of a case (40 s)
            let mut total = 0u32;
            steps.retain(|s| match s {
                Step::Wait { ticks } => {
                    total += *ticks as u32;
                    total <= 1600
                }
                _ => true,
            });
            C30Case { pw, pr, reliable, writer_listener, reader_listener, steps }
        })
        .boxed()
}

// ------------------------------------------------------------------------------------------

#[derive(Clone, Debug, Default, Serialize, Deserialize)]
pub struct WObs {
    pub t_ns: u64,
    pub trig_before: bool,
    pub total: i32,
    pub change: i32,
    pub trig_after: bool,
    /// number of writer listener callbacks logged when the status was read
    pub calls: usize,
    /// reader side: listener callbacks so far and the last cumulative count; status condition trigger
    pub r_calls: usize,
    pub r_last_total: i32,
    pub r_trig: bool,
}

#[derive(Clone, Debug, Default, Serialize, Deserialize)]
pub struct Hist {
    pub setup_error: Option<String>,
    /// (instance, instant the write call returned)
    pub writes: Vec<(u8, u64)>,
    pub obs: Vec<WObs>,
    pub wcalls: Vec<Call>,
    pub rcalls: Vec<Call>,
    pub end_ns: u64,
}

async fn scenario(c: C30Case) -> Hist {
    let mut h = Hist::default();
    crate::common::limit_steps();
    let f = factory();
    let rel = |r: bool| ReliabilityQosPolicy {
        kind: if r { ReliabilityQosPolicyKind::Reliable } else { ReliabilityQosPolicyKind::BestEffort },
        max_blocking_time: dk_ms(100),
    };
    let wlog: Log = Default::default();
    let rlog: Log = Default::default();
    let pa = f.create_participant(0, QosKind::Default, NO_LISTENER, NO_STATUS).await.unwrap();
    let ta = pa.create_topic::<KeyedData>("T", "KeyedData", QosKind::Default, NO_LISTENER, NO_STATUS).await.unwrap();
    let publ = pa.create_publisher(QosKind::Default, NO_LISTENER, NO_STATUS).await.unwrap();
    let wq = DataWriterQos {
        reliability: rel(c.reliable),
        history: HistoryQosPolicy { kind: HistoryQosPolicyKind::KeepAll },
        deadline: DeadlineQosPolicy { period: dk_ms(c.pw as u64 * 100) },
        ..Default::default()
    };
    let writer = if c.writer_listener {
        publ.create_datawriter::<KeyedData>(&ta, QosKind::Specific(wq), Some(Rec::new(0, &wlog)), &[StatusKind::OfferedDeadlineMissed]).await
    } else {
        publ.create_datawriter::<KeyedData>(&ta, QosKind::Specific(wq), NO_LISTENER, NO_STATUS).await
    };
    let writer = match writer {
        Ok(w) => w,
        Err(e) => {
            h.setup_error = Some(format!("create_datawriter: {e:?}"));
            return h;
        }
    };
    let pb = f.create_participant(0, QosKind::Default, NO_LISTENER, NO_STATUS).await.unwrap();
    let tb = pb.create_topic::<KeyedData>("T", "KeyedData", QosKind::Default, NO_LISTENER, NO_STATUS).await.unwrap();
    let sub = pb.create_subscriber(QosKind::Default, NO_LISTENER, NO_STATUS).await.unwrap();
    let rq = DataReaderQos {
        reliability: rel(c.reliable),
        history: HistoryQosPolicy { kind: HistoryQosPolicyKind::KeepAll },
        deadline: DeadlineQosPolicy { period: dk_ms(c.pr as u64 * 100) },
        ..Default::default()
    };
    let reader = if c.reader_listener {
        sub.create_datareader::<KeyedData>(
            &tb,
            QosKind::Specific(rq),
            Some(Rec::new(0, &rlog)),
            &[StatusKind::RequestedDeadlineMissed, StatusKind::DataAvailable],
        )
        .await
    } else {
        sub.create_datareader::<KeyedData>(&tb, QosKind::Specific(rq), NO_LISTENER, NO_STATUS).await
    };
    let reader = match reader {
        Ok(r) => r,
        Err(e) => {
            h.setup_error = Some(format!("create_datareader: {e:?}"));
            return h;
        }
    };
    let matched = wait_until(20_000, 10, || async {
        writer.get_publication_matched_status().await.map(|s| s.current_count == 1).unwrap_or(false)
            && reader.get_subscription_matched_status().await.map(|s| s.current_count == 1).unwrap_or(false)
    })
    .await;
    if !matched {
        h.setup_error = Some("writer and reader (offered deadline <= requested deadline) did not match within 20 s".into());
        return h;
    }
    let wcond = writer.get_statuscondition();
    let rcond = reader.get_statuscondition();
    wcond.set_enabled_statuses(&[StatusKind::OfferedDeadlineMissed]).await.unwrap();
    rcond.set_enabled_statuses(&[StatusKind::RequestedDeadlineMissed]).await.unwrap();
    // align to the grid so that instants are easy to read in explanations
    exec::sleep_ms(100).await;
    let mut seq = 0u32;
    for st in &c.steps {
        match st {
            Step::Write { inst } => {
                seq += 1;
                let r = writer.write(KeyedData { id: *inst, seq, blob: vec![] }, None).await;
                if let Err(e) = r {
                    h.setup_error = Some(format!("write failed unexpectedly: {e:?}"));
                    return h;
                }
                h.writes.push((*inst, exec::now_ns()));
            }
            Step::Wait { ticks } => exec::sleep_ms(*ticks as u64 * GRID_MS).await,
            Step::Observe => {
                let mut o = WObs { t_ns: exec::now_ns(), ..Default::default() };
                o.trig_before = wcond.get_trigger_value().await.unwrap_or(false);
                match writer.get_offered_deadline_missed_status().await {
                    Ok(s) => {
                        o.total = s.total_count;
                        o.change = s.total_count_change;
                    }
                    Err(e) => {
                        h.setup_error = Some(format!("get_offered_deadline_missed_status: {e:?}"));
                        return h;
                    }
                }
                o.trig_after = wcond.get_trigger_value().await.unwrap_or(true);
                o.calls = wlog.lock().unwrap().iter().filter(|c| c.status == St::OfferedDeadlineMissed).count();
                o.r_trig = rcond.get_trigger_value().await.unwrap_or(false);
                let rl = rlog.lock().unwrap();
                let misses: Vec<&Call> = rl.iter().filter(|c| c.status == St::RequestedDeadlineMissed).collect();
                o.r_calls = misses.len();
                o.r_last_total = misses.last().map(|c| c.total).unwrap_or(0);
                h.obs.push(o);
            }
        }
    }
    h.end_ns = exec::now_ns();
    // let the listener tasks of the current instant run before the logs are collected
    exec::sleep_ms(1).await;
    h.wcalls = wlog.lock().unwrap().clone();
    h.rcalls = rlog.lock().unwrap().clone();
    drop((pa, pb, ta, tb, publ, sub));
    h
}

/// Admissible interval of the cumulative miss count at instant `t` for period `p`, given the sample
/// instants per instance; the boolean tells whether some gap (closed or still open at t) exceeds 2p.
fn bounds(samples: &BTreeMap<u8, Vec<u64>>, p: u64, t: u64) -> (i64, i64, bool) {
    let (mut lo, mut hi, mut big) = (0i64, 0i64, false);
    for times in samples.values() {
        let times: Vec<u64> = times.iter().copied().filter(|x| *x <= t).collect();
        for (j, w) in times.iter().enumerate() {
            let next = times.get(j + 1).copied();
            let end = next.unwrap_or(t);
            if end - w > 2 * p {
                big = true;
            }
            let mut b = w + p;
            while b <= end {
                match next {
                    Some(n) => {
                        if n >= b + D_NS {
                            lo += 1;
                            hi += 1;
                        } else {
                            hi += 1;
                        }
                    }
                    None => {
                        if b + D_NS <= t {
                            lo += 1;
                            hi += 1;
                        } else {
                            hi += 1;
                        }
                    }
                }
                b += p;
            }
        }
    }
    (lo, hi, big)
}

fn oracle(c: &C30Case, h: &Hist, res: &mut CaseResult) {
    if let Some(e) = &h.setup_error {
        res.harness_error = Some(e.clone());
        return;
    }
    let pw = c.pw as u64 * 100 * MS;
    let pr = c.pr as u64 * 100 * MS;
    let mut samples: BTreeMap<u8, Vec<u64>> = BTreeMap::new();
    for (i, t) in &h.writes {
        samples.entry(*i).or_default().push(*t);
    }
    // assumption check (perfect network): every sample reached the reader at the instant it was written
    if c.reader_listener {
        let arrivals: Vec<u64> = h.rcalls.iter().filter(|c| c.status == St::DataAvailable).map(|c| c.t_ns).collect();
        let writes: Vec<u64> = h.writes.iter().map(|w| w.1).collect();
        if arrivals != writes {
            res.harness_error = Some(format!(
                "assumption violated: on_data_available instants {:?} differ from write instants {:?}",
                arrivals.iter().map(|t| t / MS).collect::<Vec<_>>(),
                writes.iter().map(|t| t / MS).collect::<Vec<_>>()
            ));
            return;
        }
    }
    let t0 = h.writes.first().map(|w| w.1).unwrap_or(h.end_ns);
    let rel = |t: u64| (t as i64 - t0 as i64) / MS as i64;
    let mut fails_w: Vec<(String, String)> = vec![];
    let mut fails_r: Vec<(String, String)> = vec![];
    let mut prev_total = 0i32;
    let mut prev_calls = 0usize;
    let (mut exact, mut ambiguous, mut big_seen, mut exact_after_big) = (0u32, 0u32, false, false);
    let mut expected_misses = 0i64;
    let desc = |side: &str, p: u64| format!("{side} deadline {} ms, samples (instance@ms since first write): {:?}", p / MS, h.writes.iter().map(|w| format!("{}@{}", w.0, rel(w.1))).collect::<Vec<_>>());
    for o in &h.obs {
        let (lo, hi, big) = bounds(&samples, pw, o.t_ns);
        let (rlo, rhi, rbig) = bounds(&samples, pr, o.t_ns);
        big_seen |= big || rbig;
        if lo == hi && rlo == rhi {
            exact += 1;
            if big || rbig {
                exact_after_big = true;
            }
        } else {
            ambiguous += 1;
        }
        expected_misses = expected_misses.max(hi).max(rhi);
        // ---- writer: total_count
        if (o.total as i64) > hi {
            fails_w.push((
                "C30:writer-total-count:over".into(),
                format!("at {} ms offered_deadline_missed.total_count = {} but at most {} deadline periods had elapsed without a sample ({})", rel(o.t_ns), o.total, hi, desc("offered", pw)),
            ));
        } else if (o.total as i64) < lo {
            fails_w.push((
                "C30:writer-total-count:under".into(),
                format!("at {} ms offered_deadline_missed.total_count = {} but at least {} full deadline periods had elapsed without a sample ({})", rel(o.t_ns), o.total, lo, desc("offered", pw)),
            ));
        }
        // ---- writer: total_count_change = change since the last listener call or read
        let reference = if c.writer_listener && o.calls > prev_calls {
            h.wcalls.iter().filter(|c| c.status == St::OfferedDeadlineMissed).nth(o.calls - 1).map(|c| c.total).unwrap_or(prev_total)
        } else {
            prev_total
        };
        if o.change != o.total - reference {
            fails_w.push((
                "C30:writer-total-count-change:inconsistent".into(),
                format!(
                    "at {} ms get_offered_deadline_missed_status returned total_count {} with total_count_change {}, but the count was {} when the status was last read or the listener last called",
                    rel(o.t_ns), o.total, o.change, reference
                ),
            ));
        }
        // ---- writer: every increase signalled
        if c.writer_listener {
            if o.calls as i32 != o.total {
                fails_w.push((
                    format!("C30:writer-listener:{}", if (o.calls as i32) < o.total { "missing-callback" } else { "extra-callback" }),
                    format!("at {} ms total_count is {} but on_offered_deadline_missed had been called {} times (mask enables the status on the writer's own listener)", rel(o.t_ns), o.total, o.calls),
                ));
            }
        } else {
            let changed = o.total > prev_total;
            if o.trig_before != changed {
                fails_w.push((
                    format!("C30:writer-condition:{}", if changed { "trigger-false-after-miss" } else { "trigger-true-without-change" }),
                    format!(
                        "at {} ms the writer's status condition (OFFERED_DEADLINE_MISSED enabled) had trigger value {} but total_count went {} -> {} since the status was last read",
                        rel(o.t_ns), o.trig_before, prev_total, o.total
                    ),
                ));
            }
            if o.trig_after {
                fails_w.push((
                    "C30:writer-condition:trigger-not-cleared-by-read".into(),
                    format!("at {} ms the trigger value stayed true right after get_offered_deadline_missed_status", rel(o.t_ns)),
                ));
            }
        }
        prev_total = o.total;
        prev_calls = o.calls;
        // ---- reader
        if c.reader_listener {
            if (o.r_last_total as i64) > rhi {
                fails_r.push((
                    "C30:reader-total-count:over".into(),
                    format!("at {} ms the last on_requested_deadline_missed reported total_count = {} ({} callbacks) but at most {} deadline periods had elapsed without a sample ({})", rel(o.t_ns), o.r_last_total, o.r_calls, rhi, desc("requested", pr)),
                ));
            } else if (o.r_last_total as i64) < rlo {
                fails_r.push((
                    "C30:reader-total-count:under".into(),
                    format!("at {} ms on_requested_deadline_missed had reported total_count = {} ({} callbacks) but at least {} full deadline periods had elapsed without a sample ({})", rel(o.t_ns), o.r_last_total, o.r_calls, rlo, desc("requested", pr)),
                ));
            }
        } else if rlo > 0 && !o.r_trig {
            fails_r.push((
                "C30:reader-condition:trigger-false-after-miss".into(),
                format!("at {} ms at least {} requested deadline periods had elapsed without a sample but the reader's status condition (REQUESTED_DEADLINE_MISSED enabled, never read) is not triggered ({})", rel(o.t_ns), rlo, desc("requested", pr)),
            ));
        } else if rhi == 0 && o.r_trig {
            fails_r.push((
                "C30:reader-condition:trigger-true-without-miss".into(),
                format!("at {} ms no requested deadline period had elapsed without a sample but the reader's status condition (only REQUESTED_DEADLINE_MISSED enabled) is triggered ({})", rel(o.t_ns), desc("requested", pr)),
            ));
        }
    }
    // ---- listener callbacks: cumulative count goes up by one per callback, change is 1
    let seq_check = |calls: &[Call], st: St, side: &str, out: &mut Vec<(String, String)>| {
        let mut last = 0;
        for c in calls.iter().filter(|c| c.status == st) {
            if c.total != last + 1 {
                out.push((
                    format!("C30:{side}-listener:count-sequence"),
                    format!("{} callback at {} ms carries total_count {} after {} (each increase must be signalled by exactly one callback)", st.name(), rel(c.t_ns), c.total, last),
                ));
                break;
            }
            if c.total_change != 1 {
                out.push((
                    format!("C30:{side}-listener:change-not-one"),
                    format!("{} callback at {} ms carries total_count {} with total_count_change {} (change since the previous callback must be 1)", st.name(), rel(c.t_ns), c.total, c.total_change),
                ));
                break;
            }
            last = c.total;
        }
    };
    seq_check(&h.wcalls, St::OfferedDeadlineMissed, "writer", &mut fails_w);
    seq_check(&h.rcalls, St::RequestedDeadlineMissed, "reader", &mut fails_r);
    // ---- classes
    let n_inst = samples.len();
    res.class(format!("instances:{n_inst}"));
    if c.pr > c.pw {
        res.class("requested>offered");
    }
    if c.writer_listener {
        res.class("writer_listener");
    } else {
        res.class("writer_condition_only");
    }
    if c.reader_listener {
        res.class("reader_listener");
    } else {
        res.class("reader_condition_only");
    }
    if big_seen {
        res.class("gap>2P");
    }
    if expected_misses == 0 {
        res.class("no_miss_due");
    } else {
        res.class("miss_due");
    }
    if exact > 0 {
        res.class("exact_observation");
    }
    if ambiguous > 0 {
        res.class("ambiguous_observation");
    }
    if h.writes.windows(2).any(|w| w[0].0 == w[1].0 && w[1].1 - w[0].1 <= 25 * MS) {
        res.class("burst");
    }
    res.nontrivial = big_seen && exact_after_big;
    res.info = json!({
        "writes": h.writes.iter().map(|w| (w.0, rel(w.1))).collect::<Vec<_>>(),
        "observations": h.obs.iter().map(|o| json!({"t_ms": rel(o.t_ns), "w_total": o.total, "w_change": o.change, "w_calls": o.calls, "r_total": o.r_last_total, "r_trig": o.r_trig})).collect::<Vec<_>>(),
        "exact": exact, "ambiguous": ambiguous,
    });
    fails_w.extend(fails_r);
    choose_verdict("C30", res, fails_w);
}

pub fn eval(case: &C30Case) -> CaseResult {
    let mut res = CaseResult::default();
    match exec::run(scenario(case.clone())) {
        Ok(h) => oracle(case, &h, &mut res),
        Err(a) => apply_abort("C30", &mut res, a),
    }
    res.sim = sim_stats();
    res
}

pub fn main(ctx: &Ctx) {
    let thorough = ctx.tier == vcore::Tier::Thorough;
    campaign(
        ctx,
        Campaign {
            total_cases: ctx.pick(1_000, 12_000),
            max_shrink_iters: 100,
            limits: Limits { cpu_s: 20, wall_s: 120, as_bytes: 4 << 30 },
            meta: Meta {
                rule: "writer (offered deadline Pw in 200 ms..2 s) and reader (requested Pr >= Pw) on a perfect network; timeline on a 25 ms grid of writes to 1-3 instances (bursts, gaps of 0.3P..3.7P of either period) and observation points (writer: status getter + status condition or listener; reader: recording listener or status condition); non-trivial = some instance had a gap > 2P (of the offered or requested period) and a later observation whose admissible count interval is a single value for both sides; distinct = hash of the case",
                assumptions: &[
                    "perfect network: a sample reaches the reader at the virtual instant it is written (checked through on_data_available when the reader has a listener)",
                    "a deadline boundary (last sample + m*P) must be counted once it is >= 75 ms old (50 ms worker tick + slack) with no newer sample; a boundary < 75 ms before the observation or before the next sample may or may not be counted; nothing else may be counted",
                    "an instance never written has no deadline; register/dispose/unregister are not used",
                    "total_count_change is judged against the count at the previous read or listener call (doc comment of the status structs)",
                    "with a listener installed the status condition is not judged (a listener call resets the changed flag per DDS 1.4 2.2.4.1)",
                    "Timer::delay(0) takes 1 ns of virtual time in this engine (see sim_status/src/common.rs)",
                ],
                nontrivial_floor: 100,
            },
        },
        strategy(thorough),
        eval,
    );
}
