//! C32: status-condition trigger values and WaitSet wake-ups under tape-scheduled interleavings.
//!
//! Entities: writer W (participant A); readers R1 (reliable, unlimited) and R2 (best effort,
//! max_samples = 1, so arrivals are rejected while a sample is held) under one subscriber S
//! (participant B). 1-3 of the status conditions of {R1, R2, W, S} are attached to 1-2 wait sets.
//! The application task executes a generated sequence of operations one at a time (raise events,
//! set_enabled_statuses, clearing reads, time advances) and starts `wait(timeout)` calls as
//! concurrent tasks; the executor's schedule tape permutes the run queue around every operation.
//!
//! Reference model (transcribed from DDS 1.4 2.2.4.1): per (entity, status) a changed-flag that is
//! set by a raise and reset by the read that the specification names; trigger = OR over the enabled
//! statuses. Raises whose instant is only known up to an interval (deadline detection within one
//! worker tick, discovery) make the flag three-valued; only definite values are judged.

use std::collections::{BTreeMap, BTreeSet};

use dust_dds::{
    dds_async::{
        condition::StatusConditionAsync,
        wait_set::{ConditionAsync, WaitSetAsync},
    },
    infrastructure::{
        error::DdsError,
        listener::NO_LISTENER,
        qos::{DataReaderQos, DataWriterQos, QosKind},
        qos_policy::{
            DeadlineQosPolicy, HistoryQosPolicy, HistoryQosPolicyKind, Length, ReliabilityQosPolicy,
            ReliabilityQosPolicyKind, ResourceLimitsQosPolicy,
        },
        sample_info::{ANY_INSTANCE_STATE, ANY_SAMPLE_STATE, ANY_VIEW_STATE},
        status::{NO_STATUS, StatusKind},
        time::DurationKind,
    },
};
use proptest::prelude::*;
use serde::{Deserialize, Serialize};
use serde_json::json;
use sim::{
    case::{CaseResult, apply_abort, sim_stats},
    exec::{self, JoinHandle, with_world},
    props::{Campaign, campaign},
    types::KeyedData,
    util::{Timed, dk_ms, timeout, wait_until},
};
use vcore::{Ctx, Meta, fork::Limits};

use crate::common::{MS, St, choose_verdict, factory, mask_kinds};

#[derive(Clone, Copy, Debug, PartialEq, Eq, PartialOrd, Ord, Serialize, Deserialize)]
pub enum Ent {
    R1,
    R2,
    W,
    S,
}

impl Ent {
    fn statuses(self) -> &'static [St] {
        match self {
            Ent::R1 | Ent::R2 => &[St::DataAvailable, St::SubscriptionMatched, St::RequestedDeadlineMissed, St::SampleRejected],
            Ent::W => &[St::PublicationMatched, St::OfferedDeadlineMissed],
            Ent::S => &[St::DataOnReaders],
        }
    }
    fn valid_mask(self) -> u16 {
        self.statuses().iter().map(|s| s.bit()).sum()
    }
    /// a status this kind of entity can never raise, enabled permanently so that a condition returned by
    /// `wait` can be told apart through `get_enabled_statuses` (get_entity is not implemented)
    fn tag(self) -> StatusKind {
        match self {
            Ent::R1 => StatusKind::LivelinessLost,
            Ent::R2 => StatusKind::OfferedIncompatibleQos,
            Ent::W => StatusKind::SampleLost,
            Ent::S => StatusKind::PublicationMatched,
        }
    }
    fn name(self) -> &'static str {
        match self {
            Ent::R1 | Ent::R2 => "reader",
            Ent::W => "writer",
            Ent::S => "subscriber",
        }
    }
}

#[derive(Clone, Debug, Serialize, Deserialize)]
pub enum Op {
    /// start `wait(timeout)` as a concurrent task; the application task then yields `lead` times to the
    /// executor before its next operation, so that the wait is a generated number of steps ahead
    StartWait { ws: u8, timeout_ms: u16, lead: u8 },
    Write,
    /// a second writer appears / disappears: SUBSCRIPTION_MATCHED changes on R1 and R2
    CreateW2,
    DeleteW2,
    /// a third reader (other subscriber) appears / disappears: PUBLICATION_MATCHED changes on W
    CreateR3,
    DeleteR3,
    SetEnabled { cond: u8, mask: u16 },
    Take { r2: bool },
    Read { r2: bool },
    GetSubMatched { r2: bool },
    GetPubMatched,
    GetOfferedDeadline,
    Advance { ms: u16 },
}

#[derive(Clone, Debug, Serialize, Deserialize)]
pub struct C32Case {
    /// (entity, initially enabled statuses as a bit mask over `St`)
    pub conds: Vec<(Ent, u16)>,
    /// per wait set: indices into `conds`
    pub waitsets: Vec<Vec<u8>>,
    /// offered deadline of W and requested deadline of R1, in units of 100 ms
    pub deadline: Option<u16>,
    pub ops: Vec<Op>,
    /// run-queue choices, consumed in chunks of 16 per operation
    pub tape: Vec<u16>,
}

const CHUNK: usize = 16;

fn submask(valid: u16) -> BoxedStrategy<u16> {
    prop_oneof![
        2 => any::<u16>().prop_map(move |m| m & valid),
        1 => Just(valid),
        1 => Just(0u16),
    ]
    .boxed()
}

pub fn strategy(thorough: bool) -> BoxedStrategy<C32Case> {
    let max_ops = if thorough { 30 } else { 14 };
    let ents = prop::sample::subsequence(vec![Ent::R1, Ent::R2, Ent::W, Ent::S], 1..=3);
    (ents, prop::option::weighted(0.5, 2u16..=8))
        .prop_flat_map(move |(ents, deadline)| {
            let n = ents.len();
            let conds: Vec<BoxedStrategy<(Ent, u16)>> = ents.iter().map(|e| (Just(*e), submask(e.valid_mask())).boxed()).collect();
            let idx: Vec<u8> = (0..n as u8).collect();
            let ws = prop::collection::vec(prop::sample::subsequence(idx, 1..=n), 1..=2);
            let ents2 = ents.clone();
            let set_enabled = (0..n).prop_flat_map(move |i| (Just(i as u8), submask(ents2[i].valid_mask()))).prop_map(|(cond, mask)| Op::SetEnabled { cond, mask });
            let timeouts = prop_oneof![Just(20u16), Just(100), Just(300), Just(1000), Just(2000)];
            let op = prop_oneof![
                5 => (0u8..2, timeouts, prop_oneof![2 => Just(0u8), 3 => 1u8..8]).prop_map(|(ws, timeout_ms, lead)| Op::StartWait { ws, timeout_ms, lead }),
                5 => Just(Op::Write),
                1 => Just(Op::CreateW2),
                1 => Just(Op::DeleteW2),
                1 => Just(Op::CreateR3),
                1 => Just(Op::DeleteR3),
                5 => set_enabled,
                2 => any::<bool>().prop_map(|r2| Op::Take { r2 }),
                1 => any::<bool>().prop_map(|r2| Op::Read { r2 }),
                1 => any::<bool>().prop_map(|r2| Op::GetSubMatched { r2 }),
                1 => Just(Op::GetPubMatched),
                1 => Just(Op::GetOfferedDeadline),
                3 => prop_oneof![Just(1u16), Just(30), Just(60), Just(250), 1u16..1200].prop_map(|ms| Op::Advance { ms }),
            ];
            (
                conds,
                ws,
                Just(deadline),
                prop::collection::vec(op, 1..=max_ops),
                prop::collection::vec(prop_oneof![1 => Just(0u16), 3 => any::<u16>()], 0..(max_ops * CHUNK)),
            )
        })
        .prop_map(|(conds, waitsets, deadline, ops, tape)| C32Case { conds, waitsets, deadline, ops, tape })
        .boxed()
}

// ------------------------------------------------------------------------------------------
// history

#[derive(Clone, Debug, Serialize, Deserialize)]
pub enum Ev {
    /// exact raise of a status on an entity
    Raise { ent: Ent, st: St },
    /// raise somewhere in [t, t + len_ns]
    RaiseWithin { ent: Ent, st: St, len_ns: u64 },
    Clear { ent: Ent, st: St },
    Mask { cond: u8, mask: u16 },
    /// a sample of the (single) instance was written / received: deadline timelines
    Sample,
    /// trigger values read back for every condition
    Check { values: Vec<Option<bool>> },
}

#[derive(Clone, Debug, Serialize, Deserialize)]
pub struct WaitRec {
    pub ws: u8,
    pub start_ns: u64,
    /// number of history events recorded before the call (orders the call among events of its instant)
    pub start_idx: usize,
    pub timeout_ms: u16,
    pub done_ns: Option<u64>,
    /// Ok(indices into conds of the returned conditions; 255 = not identifiable), Err("timeout" | error)
    pub result: Result<Vec<u8>, String>,
}

#[derive(Clone, Debug, Default, Serialize, Deserialize)]
pub struct Hist {
    pub setup_error: Option<String>,
    pub t0: u64,
    pub events: Vec<(u64, Ev)>,
    pub waits: Vec<WaitRec>,
    pub end_ns: u64,
}

/// discovery: a create/delete of a matching endpoint is reflected within this time
const MATCH_NS: u64 = 60 * MS;
/// a deadline boundary is detected within one worker tick (+ slack)
const DETECT_NS: u64 = 51 * MS;

fn tag_index(conds: &[(Ent, u16)], enabled: &[StatusKind]) -> u8 {
    for (i, (e, _)) in conds.iter().enumerate() {
        if enabled.contains(&e.tag()) {
            return i as u8;
        }
    }
    255
}

async fn scenario(c: C32Case) -> Hist {
    let mut h = Hist::default();
    crate::common::limit_steps();
    let f = factory();
    let deadline = DeadlineQosPolicy { period: c.deadline.map(|p| dk_ms(p as u64 * 100)).unwrap_or(DurationKind::Infinite) };
    let reliable = ReliabilityQosPolicy { kind: ReliabilityQosPolicyKind::Reliable, max_blocking_time: dk_ms(100) };
    let keep_all = HistoryQosPolicy { kind: HistoryQosPolicyKind::KeepAll };
    let pa = f.create_participant(0, QosKind::Default, NO_LISTENER, NO_STATUS).await.unwrap();
    let ta = pa.create_topic::<KeyedData>("T", "KeyedData", QosKind::Default, NO_LISTENER, NO_STATUS).await.unwrap();
    let publ = pa.create_publisher(QosKind::Default, NO_LISTENER, NO_STATUS).await.unwrap();
    let wq = DataWriterQos { reliability: reliable.clone(), history: keep_all.clone(), deadline: deadline.clone(), ..Default::default() };
    let w = publ.create_datawriter::<KeyedData>(&ta, QosKind::Specific(wq.clone()), NO_LISTENER, NO_STATUS).await.unwrap();
    let pb = f.create_participant(0, QosKind::Default, NO_LISTENER, NO_STATUS).await.unwrap();
    let tb = pb.create_topic::<KeyedData>("T", "KeyedData", QosKind::Default, NO_LISTENER, NO_STATUS).await.unwrap();
    let sub = pb.create_subscriber(QosKind::Default, NO_LISTENER, NO_STATUS).await.unwrap();
    let sub2 = pb.create_subscriber(QosKind::Default, NO_LISTENER, NO_STATUS).await.unwrap();
    let r1q = DataReaderQos { reliability: reliable.clone(), history: keep_all.clone(), deadline: deadline.clone(), ..Default::default() };
    let r2q = DataReaderQos {
        reliability: ReliabilityQosPolicy { kind: ReliabilityQosPolicyKind::BestEffort, max_blocking_time: dk_ms(100) },
        history: keep_all.clone(),
        resource_limits: ResourceLimitsQosPolicy {
            max_samples: Length::Limited(1),
            max_instances: Length::Unlimited,
            max_samples_per_instance: Length::Limited(1),
        },
        ..Default::default()
    };
    let r3q = DataReaderQos { reliability: reliable.clone(), history: keep_all.clone(), ..Default::default() };
    let r1 = sub.create_datareader::<KeyedData>(&tb, QosKind::Specific(r1q), NO_LISTENER, NO_STATUS).await.unwrap();
    let r2 = match sub.create_datareader::<KeyedData>(&tb, QosKind::Specific(r2q), NO_LISTENER, NO_STATUS).await {
        Ok(r) => r,
        Err(e) => {
            h.setup_error = Some(format!("create_datareader R2: {e:?}"));
            return h;
        }
    };
    let matched = wait_until(20_000, 10, || async {
        w.get_publication_matched_status().await.map(|s| s.current_count == 2).unwrap_or(false)
            && r1.get_subscription_matched_status().await.map(|s| s.current_count == 1).unwrap_or(false)
            && r2.get_subscription_matched_status().await.map(|s| s.current_count == 1).unwrap_or(false)
    })
    .await;
    if !matched {
        h.setup_error = Some("W, R1, R2 did not match within 20 s".into());
        return h;
    }
    exec::sleep_ms(200).await;
    // reset the changed flags raised during setup
    let _ = w.get_publication_matched_status().await;
    let _ = r1.get_subscription_matched_status().await;
    let _ = r2.get_subscription_matched_status().await;
    let cond_of = |e: Ent| -> StatusConditionAsync {
        match e {
            Ent::R1 => r1.get_statuscondition(),
            Ent::R2 => r2.get_statuscondition(),
            Ent::W => w.get_statuscondition(),
            Ent::S => sub.get_statuscondition(),
        }
    };
    let conds: Vec<StatusConditionAsync> = c.conds.iter().map(|(e, _)| cond_of(*e)).collect();
    let set_mask = |i: usize, mask: u16| {
        let mut kinds = mask_kinds(mask & c.conds[i].0.valid_mask());
        kinds.push(c.conds[i].0.tag());
        let cond = conds[i].clone();
        async move { cond.set_enabled_statuses(&kinds).await }
    };
    h.t0 = exec::now_ns();
    for (i, (_, m)) in c.conds.iter().enumerate() {
        if let Err(e) = set_mask(i, *m).await {
            h.setup_error = Some(format!("set_enabled_statuses: {e:?}"));
            return h;
        }
        h.events.push((h.t0, Ev::Mask { cond: i as u8, mask: *m & c.conds[i].0.valid_mask() }));
    }
    let mut waitsets = vec![];
    for ws in &c.waitsets {
        let mut s = WaitSetAsync::new();
        for i in ws {
            s.attach_condition(ConditionAsync::StatusCondition(conds[*i as usize].clone())).await.unwrap();
        }
        waitsets.push(s);
    }
    exec::sleep_ms(1).await;
    let mut pending: BTreeMap<u8, usize> = BTreeMap::new();
    let mut handles: Vec<(usize, JoinHandle<Result<Vec<u8>, String>>)> = vec![];
    let mut w2 = None;
    let mut r3 = None;
    let mut r2_held = false;
    let mut seq = 0u32;
    let check = async |h: &mut Hist| {
        let mut values = vec![];
        for cnd in &conds {
            values.push(cnd.get_trigger_value().await.ok());
        }
        h.events.push((exec::now_ns(), Ev::Check { values }));
    };
    check(&mut h).await;
    for (k, op) in c.ops.iter().enumerate() {
        // schedule choices for this operation
        let chunk: Vec<u16> = c.tape.iter().skip(k * CHUNK).take(CHUNK).copied().collect();
        with_world(|wd| wd.sched_tape = chunk.into());
        let now = exec::now_ns();
        let mut settle_ms = 2;
        match op {
            Op::StartWait { ws, timeout_ms, lead } => {
                let wsi = *ws as usize % waitsets.len();
                if let Some(i) = pending.get(&(wsi as u8)) {
                    if !handles.iter().any(|(j, hd)| j == i && hd.is_done()) {
                        continue;
                    }
                }
                let s = waitsets[wsi].clone();
                let spec = c.conds.clone();
                let t = *timeout_ms as u64;
                let hd = exec::spawn(async move {
                    match timeout(t, s.wait()).await {
                        Timed::TimedOut => Err("timeout".to_string()),
                        Timed::Done(Err(e)) => Err(format!("{e:?}")),
                        Timed::Done(Ok(list)) => {
                            let mut ids = vec![];
                            for cnd in list {
                                let ConditionAsync::StatusCondition(sc) = cnd;
                                let en: Vec<StatusKind> = match sc.get_enabled_statuses().await {
                                    Ok(x) => x.into_iter().collect(),
                                    Err(_) => vec![],
                                };
                                ids.push(tag_index(&spec, &en));
                            }
                            Ok(ids)
                        }
                    }
                });
                let idx = h.waits.len();
                h.waits.push(WaitRec { ws: wsi as u8, start_ns: now, start_idx: h.events.len(), timeout_ms: *timeout_ms, done_ns: None, result: Err("pending".into()) });
                pending.insert(wsi as u8, idx);
                handles.push((idx, hd));
                // no settling: the next operation races with the steps of this wait (trigger checks, registrations)
                for _ in 0..*lead {
                    exec::yield_now().await;
                }
                continue;
            }
            Op::Write => {
                seq += 1;
                if let Err(e) = w.write(KeyedData { id: 0, seq, blob: vec![] }, None).await {
                    h.setup_error = Some(format!("write: {e:?}"));
                    return h;
                }
                h.events.push((now, Ev::Sample));
                h.events.push((now, Ev::Raise { ent: Ent::R1, st: St::DataAvailable }));
                h.events.push((now, Ev::Raise { ent: Ent::S, st: St::DataOnReaders }));
                if r2_held {
                    h.events.push((now, Ev::Raise { ent: Ent::R2, st: St::SampleRejected }));
                } else {
                    r2_held = true;
                    h.events.push((now, Ev::Raise { ent: Ent::R2, st: St::DataAvailable }));
                }
            }
            Op::CreateW2 => {
                if w2.is_some() {
                    continue;
                }
                w2 = Some(publ.create_datawriter::<KeyedData>(&ta, QosKind::Specific(wq.clone()), NO_LISTENER, NO_STATUS).await.unwrap());
                for ent in [Ent::R1, Ent::R2] {
                    h.events.push((now, Ev::RaiseWithin { ent, st: St::SubscriptionMatched, len_ns: MATCH_NS }));
                }
                settle_ms = 70;
            }
            Op::DeleteW2 => {
                let Some(x) = w2.take() else { continue };
                publ.delete_datawriter(&x).await.unwrap();
                for ent in [Ent::R1, Ent::R2] {
                    h.events.push((now, Ev::RaiseWithin { ent, st: St::SubscriptionMatched, len_ns: MATCH_NS }));
                }
                settle_ms = 70;
            }
            Op::CreateR3 => {
                if r3.is_some() {
                    continue;
                }
                r3 = Some(sub2.create_datareader::<KeyedData>(&tb, QosKind::Specific(r3q.clone()), NO_LISTENER, NO_STATUS).await.unwrap());
                h.events.push((now, Ev::RaiseWithin { ent: Ent::W, st: St::PublicationMatched, len_ns: MATCH_NS }));
                settle_ms = 70;
            }
            Op::DeleteR3 => {
                let Some(x) = r3.take() else { continue };
                sub2.delete_datareader(&x).await.unwrap();
                h.events.push((now, Ev::RaiseWithin { ent: Ent::W, st: St::PublicationMatched, len_ns: MATCH_NS }));
                settle_ms = 70;
            }
            Op::SetEnabled { cond, mask } => {
                let i = *cond as usize % conds.len();
                let m = *mask & c.conds[i].0.valid_mask();
                if let Err(e) = set_mask(i, m).await {
                    h.setup_error = Some(format!("set_enabled_statuses: {e:?}"));
                    return h;
                }
                h.events.push((now, Ev::Mask { cond: i as u8, mask: m }));
            }
            Op::Take { r2: second } | Op::Read { r2: second } => {
                let rd = if *second { &r2 } else { &r1 };
                let take = matches!(op, Op::Take { .. });
                let r = if take {
                    rd.take(100, ANY_SAMPLE_STATE, ANY_VIEW_STATE, ANY_INSTANCE_STATE).await
                } else {
                    rd.read(100, ANY_SAMPLE_STATE, ANY_VIEW_STATE, ANY_INSTANCE_STATE).await
                };
                match r {
                    Ok(_) | Err(DdsError::NoData) => {}
                    Err(e) => {
                        h.setup_error = Some(format!("read/take: {e:?}"));
                        return h;
                    }
                }
                if *second && take {
                    r2_held = false;
                }
                h.events.push((now, Ev::Clear { ent: if *second { Ent::R2 } else { Ent::R1 }, st: St::DataAvailable }));
                h.events.push((now, Ev::Clear { ent: Ent::S, st: St::DataOnReaders }));
            }
            Op::GetSubMatched { r2: second } => {
                let rd = if *second { &r2 } else { &r1 };
                let _ = rd.get_subscription_matched_status().await;
                h.events.push((now, Ev::Clear { ent: if *second { Ent::R2 } else { Ent::R1 }, st: St::SubscriptionMatched }));
            }
            Op::GetPubMatched => {
                let _ = w.get_publication_matched_status().await;
                h.events.push((now, Ev::Clear { ent: Ent::W, st: St::PublicationMatched }));
            }
            Op::GetOfferedDeadline => {
                let _ = w.get_offered_deadline_missed_status().await;
                h.events.push((now, Ev::Clear { ent: Ent::W, st: St::OfferedDeadlineMissed }));
            }
            Op::Advance { ms } => {
                settle_ms = *ms as u64;
            }
        }
        exec::sleep_ms(settle_ms).await;
        with_world(|wd| wd.sched_tape.clear());
        check(&mut h).await;
    }
    with_world(|wd| wd.sched_tape.clear());
    // let every wait finish or time out
    let latest = h.waits.iter().map(|wt| wt.start_ns + wt.timeout_ms as u64 * MS).max().unwrap_or(0);
    let now = exec::now_ns();
    if latest + 5 * MS > now {
        exec::sleep_ns(latest + 5 * MS - now).await;
    }
    for (i, hd) in handles {
        if let Some(t) = hd.done_at() {
            h.waits[i].done_ns = Some(t);
            h.waits[i].result = hd.take().unwrap_or(Err("no result".into()));
        }
    }
    check(&mut h).await;
    h.end_ns = exec::now_ns();
    drop((pa, pb, ta, tb, publ, sub, sub2, w2, r3));
    h
}

// ------------------------------------------------------------------------------------------
// reference model
//
// Model time is a stamp: (virtual ns << 20) | index of the history event, so that the events of one
// virtual instant keep their program order (an operation starts at the instant the previous check ran).

type Stamp = u128;
const IDX_MAX: u128 = (1 << 20) - 1;

fn stamp(t_ns: u64, idx: usize) -> Stamp {
    ((t_ns as u128) << 20) | (idx as u128).min(IDX_MAX)
}
/// stamp of the i-th history event
fn ev_stamp(t_ns: u64, i: usize) -> Stamp {
    stamp(t_ns, 2 * i + 2)
}
/// stamp of a wait call made when `n` history events had been recorded: after event n-1, before event n
fn call_stamp(t_ns: u64, n: usize) -> Stamp {
    stamp(t_ns, 2 * n + 1)
}
fn ns_of(s: Stamp) -> u64 {
    (s >> 20) as u64
}

#[derive(Clone, Copy, Debug, PartialEq, Eq)]
enum Tri {
    F,
    U,
    T,
}

struct Window {
    a: Stamp,
    b: Stamp,
    /// the raise may not happen at all (a newer sample arrived within the detection latency)
    optional: bool,
}

struct Model {
    raises: BTreeMap<(Ent, St), Vec<Window>>,
    clears: BTreeMap<(Ent, St), Vec<Stamp>>,
    /// per condition: (stamp, mask) in order
    masks: Vec<Vec<(Stamp, u16)>>,
    ents: Vec<Ent>,
}

impl Model {
    fn build(c: &C32Case, h: &Hist) -> Model {
        let mut m = Model {
            raises: BTreeMap::new(),
            clears: BTreeMap::new(),
            masks: vec![vec![]; c.conds.len()],
            ents: c.conds.iter().map(|x| x.0).collect(),
        };
        let mut samples = vec![];
        for (i, (t, ev)) in h.events.iter().enumerate() {
            let at = ev_stamp(*t, i);
            match ev {
                Ev::Raise { ent, st } => m.raises.entry((*ent, *st)).or_default().push(Window { a: at, b: at, optional: false }),
                Ev::RaiseWithin { ent, st, len_ns } => {
                    m.raises.entry((*ent, *st)).or_default().push(Window { a: at, b: stamp(*t + len_ns, IDX_MAX as usize), optional: false })
                }
                Ev::Clear { ent, st } => m.clears.entry((*ent, *st)).or_default().push(at),
                Ev::Mask { cond, mask } => m.masks[*cond as usize].push((at, *mask)),
                Ev::Sample => samples.push(*t),
                Ev::Check { .. } => {}
            }
        }
        if let Some(p) = c.deadline {
            let p = p as u64 * 100 * MS;
            for (j, s) in samples.iter().enumerate() {
                let next = samples.get(j + 1).copied();
                let end = next.unwrap_or(h.end_ns + p);
                let mut b = s + p;
                while b <= end {
                    let optional = next.map(|n| n <= b + DETECT_NS).unwrap_or(false);
                    let wb = match next {
                        Some(n) if optional => n.max(b),
                        _ => b + DETECT_NS,
                    };
                    for key in [(Ent::W, St::OfferedDeadlineMissed), (Ent::R1, St::RequestedDeadlineMissed)] {
                        m.raises.entry(key).or_default().push(Window { a: stamp(b, 0), b: stamp(wb, IDX_MAX as usize), optional });
                    }
                    b += p;
                }
            }
        }
        m
    }

    fn flag(&self, ent: Ent, st: St, t: Stamp) -> Tri {
        let c = self.clears.get(&(ent, st)).and_then(|v| v.iter().copied().filter(|x| *x <= t).max());
        let Some(ws) = self.raises.get(&(ent, st)) else { return Tri::F };
        let after = |x: Stamp| c.map(|c| x > c).unwrap_or(true);
        let not_before = |x: Stamp| c.map(|c| x >= c).unwrap_or(true);
        if ws.iter().any(|w| !w.optional && after(w.a) && w.b < t) {
            return Tri::T;
        }
        if ws.iter().any(|w| not_before(w.b) && w.a <= t) {
            return Tri::U;
        }
        Tri::F
    }

    fn mask_at(&self, cond: usize, t: Stamp) -> u16 {
        self.masks[cond].iter().filter(|(x, _)| *x <= t).next_back().map(|x| x.1).unwrap_or(0)
    }

    fn trigger(&self, cond: usize, t: Stamp) -> Tri {
        let ent = self.ents[cond];
        let mask = self.mask_at(cond, t);
        let mut r = Tri::F;
        for st in ent.statuses() {
            if mask & st.bit() != 0 {
                match self.flag(ent, *st, t) {
                    Tri::T => return Tri::T,
                    Tri::U => r = Tri::U,
                    Tri::F => {}
                }
            }
        }
        r
    }

    /// all stamps at which something may change
    fn instants(&self, h: &Hist) -> Vec<Stamp> {
        let mut s: BTreeSet<Stamp> = BTreeSet::new();
        for ws in self.raises.values() {
            for w in ws {
                s.insert(w.a);
                s.insert(w.b);
                s.insert(w.b + 1);
            }
        }
        for cs in self.clears.values() {
            s.extend(cs.iter().copied());
        }
        for ms in &self.masks {
            s.extend(ms.iter().map(|x| x.0));
        }
        for w in &h.waits {
            s.insert(call_stamp(w.start_ns, w.start_idx));
            s.insert(stamp(w.start_ns + w.timeout_ms as u64 * MS, 0));
            if let Some(d) = w.done_ns {
                s.insert(stamp(d, 0));
                s.insert(stamp(d, IDX_MAX as usize));
            }
        }
        s.insert(stamp(h.t0, 0));
        s.insert(stamp(h.end_ns + 1, 0));
        s.into_iter().collect()
    }
}

fn oracle(c: &C32Case, h: &Hist, res: &mut CaseResult) {
    if let Some(e) = &h.setup_error {
        res.harness_error = Some(e.clone());
        return;
    }
    let m = Model::build(c, h);
    let rel = |t: u64| (t as i64 - h.t0 as i64) / MS as i64;
    let mut fails: Vec<(String, String)> = vec![];
    // ---- trigger values read back after every operation
    let (mut definite, mut uncertain) = (0u32, 0u32);
    // conditions whose trigger value disagreed with the model somewhere in this case
    let mut bad_conds: BTreeSet<u8> = BTreeSet::new();
    for (idx, (t, ev)) in h.events.iter().enumerate() {
        let Ev::Check { values } = ev else { continue };
        let at = ev_stamp(*t, idx);
        for (i, v) in values.iter().enumerate() {
            let Some(v) = v else {
                fails.push(("C32:trigger-value:error".into(), format!("get_trigger_value failed at {} ms", rel(*t))));
                continue;
            };
            let ent = c.conds[i].0;
            let mask = m.mask_at(i, at);
            let enabled: Vec<&str> = ent.statuses().iter().filter(|s| mask & s.bit() != 0).map(|s| s.name()).collect();
            match m.trigger(i, at) {
                Tri::U => uncertain += 1,
                Tri::T if !*v => {
                    definite += 1;
                    bad_conds.insert(i as u8);
                    let sts: Vec<&str> = ent.statuses().iter().filter(|s| mask & s.bit() != 0 && m.flag(ent, **s, at) == Tri::T).map(|s| s.name()).collect();
                    fails.push((
                        format!("C32:trigger-value:{}:false-although-enabled-status-changed", ent.name()),
                        format!("at {} ms get_trigger_value of the {:?} condition (enabled: {:?}) is false although {:?} changed and was not read since", rel(*t), ent, enabled, sts),
                    ));
                }
                Tri::F if *v => {
                    definite += 1;
                    bad_conds.insert(i as u8);
                    let earlier: Vec<&str> = ent
                        .statuses()
                        .iter()
                        .filter(|s| mask & s.bit() != 0 && m.raises.get(&(ent, **s)).map(|w| w.iter().any(|w| w.a <= at)).unwrap_or(false))
                        .map(|s| s.name())
                        .collect();
                    fails.push((
                        format!("C32:trigger-value:{}:true-although-nothing-changed-since-read", ent.name()),
                        format!(
                            "at {} ms get_trigger_value of the {:?} condition is true although none of its enabled statuses {:?} changed since it was last read (enabled statuses that changed earlier and were read since: {:?})",
                            rel(*t), ent, enabled, earlier
                        ),
                    ));
                }
                _ => definite += 1,
            }
        }
    }
    // ---- waits
    let inst = m.instants(h);
    // evaluation points: every stamp and the midpoint of every gap between consecutive stamps
    let mut points: Vec<(Stamp, bool)> = vec![];
    for (i, t) in inst.iter().enumerate() {
        points.push((*t, false));
        if let Some(n) = inst.get(i + 1) {
            if *n > *t + 1 {
                points.push((*t + (*n - *t) / 2, true));
            }
        }
    }
    let mut pending_when_changed = false;
    for w in &h.waits {
        let attached: &Vec<u8> = &c.waitsets[w.ws as usize];
        if attached.iter().any(|i| bad_conds.contains(i)) {
            // the trigger value itself is wrong (reported above); how wait reacts to it is a consequence
            res.class("wait_not_judged_trigger_value_wrong");
            continue;
        }
        let s = call_stamp(w.start_ns, w.start_idx);
        let deadline_ns = w.start_ns + w.timeout_ms as u64 * MS;
        let deadline = stamp(deadline_ns, 0);
        let end = stamp(w.done_ns.unwrap_or(deadline_ns).min(deadline_ns), IDX_MAX as usize);
        let any = |t: Stamp| -> Tri {
            let mut r = Tri::F;
            for i in attached {
                match m.trigger(*i as usize, t) {
                    Tri::T => return Tri::T,
                    Tri::U => r = Tri::U,
                    Tri::F => {}
                }
            }
            r
        };
        // non-triviality: a status was raised or a mask changed while this wait was pending
        let changed_during = m.raises.values().flatten().any(|x| x.b >= s && x.a <= end)
            || m.masks.iter().enumerate().any(|(i, ms)| attached.contains(&(i as u8)) && ms.iter().any(|x| x.0 >= s && x.0 <= end));
        if changed_during {
            pending_when_changed = true;
            res.class("wait_pending_during_change");
        }
        // (a) the first stretch of model time inside the wait's lifetime, spanning more than one virtual
        // instant, during which some attached condition is definitely triggered: the wait must have returned
        // at the instant the stretch begins (virtual time only advances when every runnable task, including
        // a notified waiter, has run to completion)
        let mut must_by: Option<Stamp> = None;
        let mut run_start: Option<Stamp> = None;
        for (k, (p, mid)) in points.iter().enumerate() {
            if !*mid || *p <= s || *p >= deadline {
                continue;
            }
            if any(*p) == Tri::T {
                let start = points[..k].iter().rev().find(|x| !x.1).map(|x| x.0).unwrap_or(s).max(s);
                let stop = points[k + 1..].iter().find(|x| !x.1).map(|x| x.0).unwrap_or(deadline).min(deadline);
                let from = *run_start.get_or_insert(start);
                if ns_of(stop) > ns_of(from) {
                    must_by = Some(from);
                    break;
                }
            } else {
                run_start = None;
            }
        }
        let what_wait = format!(
            "wait({} ms) on wait set {} (conditions {:?}) started at {} ms",
            w.timeout_ms,
            w.ws,
            attached.iter().map(|i| format!("{:?}", c.conds[*i as usize].0)).collect::<Vec<_>>(),
            rel(w.start_ns)
        );
        // a return while no attached condition was even possibly triggered at any time since the call
        if let (Ok(_), Some(d)) = (&w.result, w.done_ns) {
            let dd = stamp(d, IDX_MAX as usize);
            let possibly = points.iter().map(|x| x.0).chain([s, dd]).any(|p| p >= s && p <= dd && any(p) != Tri::F);
            if !possibly {
                fails.push((
                    "C32:wait:spurious-return".into(),
                    format!("{what_wait} returned at {} ms although no attached condition was triggered at any time during the wait", rel(d)),
                ));
                continue;
            }
        }
        match (&w.result, must_by) {
            (Err(e), _) if e != "timeout" && e != "pending" => {
                fails.push(("C32:wait:error".into(), format!("{what_wait} failed: {e}")));
            }
            (r, Some(by)) => {
                let done = w.done_ns.unwrap_or(u64::MAX);
                if r.is_err() || done > ns_of(by) {
                    // cause: triggered from the start, a mask change at that stamp, or a raise
                    let shape = if by == s && any(s - 1) == Tri::T {
                        "already-triggered-when-called"
                    } else if m.masks.iter().enumerate().any(|(i, ms)| attached.contains(&(i as u8)) && ms.iter().any(|x| x.0 == by)) {
                        "after-enabling-an-already-changed-status"
                    } else {
                        "after-status-raised"
                    };
                    fails.push((
                        format!("C32:wait-lost-wakeup:{shape}"),
                        format!(
                            "{what_wait}: from {} ms on an attached condition is triggered (reference model), yet the wait {}",
                            rel(ns_of(by)),
                            match (&w.result, w.done_ns) {
                                (Ok(_), Some(d)) => format!("only returned at {} ms", rel(d)),
                                _ => format!("stayed blocked until its timeout at {} ms", rel(deadline_ns)),
                            }
                        ),
                    ));
                    res.class("wait_should_have_woken");
                    continue;
                }
                res.class("wait_woken");
            }
            (Ok(_), None) => {
                res.class("wait_returned_in_uncertain_window");
            }
            (Err(_), None) => {
                res.class("wait_timed_out");
                if let Some(d) = w.done_ns {
                    if d != deadline_ns {
                        fails.push(("C32:wait:timeout-instant".into(), format!("{what_wait} reported a timeout at {} ms", rel(d))));
                    }
                }
            }
        }
        // (b) returned set == triggered attached conditions at the instant of return
        if let (Ok(ids), Some(d)) = (&w.result, w.done_ns) {
            // values a condition's trigger may have had during the virtual instant d
            let lo = stamp(d, 0).max(s);
            let hi = stamp(d, IDX_MAX as usize);
            let around: Vec<Stamp> = points.iter().map(|x| x.0).filter(|p| *p >= lo && *p <= hi).chain([lo, lo.saturating_sub(1).max(s), hi, hi + 1]).collect();
            for i in attached {
                let vals: Vec<Tri> = around.iter().map(|p| m.trigger(*i as usize, *p)).collect();
                let returned = ids.contains(i);
                if returned && vals.iter().all(|v| *v == Tri::F) {
                    fails.push((
                        "C32:wait-result:contains-untriggered-condition".into(),
                        format!("{what_wait} returned at {} ms with the {:?} condition, whose trigger value is false", rel(d), c.conds[*i as usize].0),
                    ));
                }
                if !returned && vals.iter().all(|v| *v == Tri::T) {
                    fails.push((
                        "C32:wait-result:missing-triggered-condition".into(),
                        format!("{what_wait} returned at {} ms without the {:?} condition, which is attached and triggered", rel(d), c.conds[*i as usize].0),
                    ));
                }
            }
            if ids.iter().any(|i| !attached.contains(i)) {
                fails.push((
                    "C32:wait-result:unknown-condition".into(),
                    format!("{what_wait} returned a condition that is not attached to this wait set (identified by its enabled statuses): {ids:?}"),
                ));
            }
        }
    }
    // ---- classes
    res.class(format!("conditions:{}", c.conds.len()));
    res.class(format!("waitsets:{}", c.waitsets.len()));
    for (e, _) in &c.conds {
        res.class(format!("cond:{e:?}"));
    }
    if c.deadline.is_some() {
        res.class("deadline");
    }
    if h.waits.is_empty() {
        res.class("no_wait");
    }
    if uncertain > 0 {
        res.class("uncertain_trigger_check");
    }
    if h.events.iter().any(|e| matches!(e.1, Ev::Mask { .. }) && e.0 > h.t0) {
        res.class("set_enabled");
    }
    res.nontrivial = pending_when_changed;
    res.info = json!({
        "definite_trigger_checks": definite,
        "uncertain_trigger_checks": uncertain,
        "waits": h.waits.iter().map(|w| json!({"ws": w.ws, "start_ms": rel(w.start_ns), "timeout_ms": w.timeout_ms, "done_ms": w.done_ns.map(rel), "result": format!("{:?}", w.result)})).collect::<Vec<_>>(),
    });
    choose_verdict("C32", res, fails);
}

pub fn eval(case: &C32Case) -> CaseResult {
    let mut res = CaseResult::default();
    match exec::run(scenario(case.clone())) {
        Ok(h) => oracle(case, &h, &mut res),
        Err(a) => apply_abort("C32", &mut res, a),
    }
    res.sim = sim_stats();
    res
}

pub fn main(ctx: &Ctx) {
    let thorough = ctx.tier == vcore::Tier::Thorough;
    campaign(
        ctx,
        Campaign {
            total_cases: ctx.pick(1_200, 20_000),
            max_shrink_iters: 100,
            limits: Limits { cpu_s: 30, wall_s: 120, as_bytes: 4 << 30 },
            meta: Meta {
                rule: "1-3 status conditions of {reliable reader R1, best-effort reader R2 with max_samples 1, writer W, subscriber S} with generated enabled masks, attached to 1-2 wait sets; generated sequences of wait(timeout) calls (concurrent tasks), writes (DATA_AVAILABLE / DATA_ON_READERS / SAMPLE_REJECTED), matching endpoint creation/deletion (SUBSCRIPTION/PUBLICATION_MATCHED), deadline misses through time advances, set_enabled_statuses, and clearing reads (take/read, get_*_matched_status, get_offered_deadline_missed_status); the run queue is permuted by a schedule tape (16 choices per operation); non-trivial = some wait was pending while a status was raised or an attached condition's mask was changed; distinct = hash of the case",
                assumptions: &[
                    "changed-flag model from DDS 1.4 2.2.4.1: DATA_AVAILABLE is reset by read/take on the reader; DATA_ON_READERS by read/take on any reader of the subscriber; matched and deadline statuses by their get_*_status operation; REQUESTED_DEADLINE_MISSED and SAMPLE_REJECTED are never read (their getters are unimplemented) and therefore stay changed",
                    "raise instants: data arrival at the write instant (perfect network); discovery within 60 ms; deadline detection within 51 ms of the boundary; inside such an interval the flag is 'unknown' and not judged",
                    "operations of the application task are separated by >= 2 ms of virtual time (except wait starts), so the model is sequential; only wait calls run concurrently with them",
                    "lost wake-up = a wait still blocked after virtual time advanced past an instant from which an attached condition is definitely triggered (virtual time only advances when no task is runnable)",
                    "a wait that returns while a trigger value is changing at that very instant may return either set (including an empty one)",
                    "conditions returned by wait are identified through a per-entity tag status in their enabled mask (StatusCondition::get_entity is unimplemented)",
                ],
                nontrivial_floor: 100,
            },
        },
        strategy(thorough),
        eval,
    );
}
