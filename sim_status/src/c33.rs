//! C33: every communication status change reaches exactly one listener - the most specific level
//! (entity, publisher/subscriber, participant) whose mask enables the status.
//!
//! Participant A holds writer W under publisher P; participant B holds reader R under subscriber S.
//! Each of the six entities gets a recording listener or none, with a generated status mask. The
//! scenario raises every status the implementation can raise a known number of times: one match,
//! samples delivered one at a time, one resource-limit rejection, one incompatible remote endpoint per
//! side (extra endpoints W' and R' without own listeners, whose statuses can only go to the
//! participant level), deadline misses, and an un-match. Callbacks are logged with their level, the
//! status and the entity they name.

use std::collections::BTreeMap;

use dust_dds::infrastructure::{
    qos::{DataReaderQos, DataWriterQos, QosKind},
    qos_policy::{
        DeadlineQosPolicy, HistoryQosPolicy, HistoryQosPolicyKind, Length, OwnershipQosPolicy,
        OwnershipQosPolicyKind, ReliabilityQosPolicy, ReliabilityQosPolicyKind,
        ResourceLimitsQosPolicy,
    },
    sample_info::{ANY_INSTANCE_STATE, ANY_SAMPLE_STATE, ANY_VIEW_STATE},
    status::NO_STATUS,
    time::DurationKind,
};
use proptest::prelude::*;
use serde::{Deserialize, Serialize};
use serde_json::json;
use sim::{
    case::{CaseResult, apply_abort, run_forked, sim_stats, to_outcome},
    exec,
    props::SHARDS,
    types::KeyedData,
    util::dk_ms,
};
use vcore::{Ctx, Failure, Known, Meta, Report, fork::Limits};

use crate::common::{Call, Log, Rec, St, choose_verdict, factory, mask_kinds};

const READER_ST: [St; 6] = [St::DataAvailable, St::DataOnReaders, St::SubscriptionMatched, St::RequestedIncompatibleQos, St::RequestedDeadlineMissed, St::SampleRejected];
const WRITER_ST: [St; 3] = [St::PublicationMatched, St::OfferedIncompatibleQos, St::OfferedDeadlineMissed];

fn bits(v: &[St]) -> u16 {
    v.iter().map(|s| s.bit()).sum()
}

#[derive(Clone, Debug, Serialize, Deserialize)]
pub struct Side {
    /// listener installed at [entity, publisher/subscriber, participant]
    pub present: [bool; 3],
    /// status masks (bits over `St`) at the three levels
    pub masks: [u16; 3],
    /// how the final (listener, mask) of each level is installed: 0 = at creation; 1 = entity created
    /// without a listener, then set_listener; 2 = entity created with a decoy listener enabling every
    /// status, replaced by set_listener before anything happens. The expected routing depends on the
    /// final configuration only.
    #[serde(default)]
    pub via: [u8; 3],
}

#[derive(Clone, Debug, Serialize, Deserialize)]
pub struct C33Case {
    pub reader: Side,
    pub writer: Side,
    /// W offers and R requests a 200 ms deadline; the scenario ends with a gap of 2.5 periods
    pub deadline: bool,
    /// samples delivered (and taken) one at a time
    pub samples: u8,
    /// fill R (max_samples 2) and send one sample more
    pub reject: bool,
    /// create W' and R' (EXCLUSIVE ownership: incompatible with R and W, compatible with each other)
    pub incompatible: bool,
    /// delete R at the end: W's PUBLICATION_MATCHED changes (current_count goes down)
    pub unmatch: bool,
    /// a second topic name used with two different types (writer in A, reader in B): INCONSISTENT_TOPIC on
    /// both topics; the topics get a listener / a mask enabling the status per these flags, the participant
    /// level is the participants' listeners (bit InconsistentTopic of masks[2])
    pub inconsistent_topic: Option<(bool, bool)>,
}

/// Enumerated configurations: listener presence (3 bits) x "level enables every status" (3 bits) x
/// DATA_ON_READERS on the subscriber, identical on both sides, all events on.
fn enumerated(i: u32) -> C33Case {
    let p = i & 7;
    let m = (i >> 3) & 7;
    let dor = (i >> 6) & 1 == 1;
    let present = [p & 1 != 0, p & 2 != 0, p & 4 != 0];
    let rm = bits(&READER_ST) & !St::DataOnReaders.bit();
    let wm = bits(&WRITER_ST);
    let lvl = |l: u32, all: u16| if m & (1 << l) != 0 { all } else { 0 };
    C33Case {
        reader: Side { present, masks: [lvl(0, rm), lvl(1, rm) | if dor { St::DataOnReaders.bit() } else { 0 }, lvl(2, rm)], via: [0; 3] },
        writer: Side { present, masks: [lvl(0, wm), lvl(1, wm), lvl(2, wm)], via: [0; 3] },
        deadline: true,
        samples: 2,
        reject: true,
        incompatible: true,
        unmatch: true,
        inconsistent_topic: Some((present[0], m & 1 != 0)),
    }
    .with_participant_topic_bits(m & 4 != 0)
}

impl C33Case {
    fn with_participant_topic_bits(mut self, on: bool) -> Self {
        if on {
            self.reader.masks[2] |= St::InconsistentTopic.bit();
            self.writer.masks[2] |= St::InconsistentTopic.bit();
        }
        self
    }
}
const ENUMERATED: u32 = 128;

fn side(valid: u16) -> impl Strategy<Value = Side> {
    let mask = move || prop_oneof![3 => any::<u16>().prop_map(move |m| m & valid), 1 => Just(valid), 1 => Just(0u16)];
    let via = || prop_oneof![3 => Just(0u8), 1 => Just(1u8), 2 => Just(2u8)];
    (any::<[bool; 3]>(), mask(), mask(), mask(), prop::bool::weighted(0.7), [via(), via(), via()]).prop_map(|(mut present, a, b, c, all_present, via)| {
        if all_present {
            present = [true; 3];
        }
        Side { present, masks: [a, b, c], via }
    })
}

pub fn strategy() -> BoxedStrategy<C33Case> {
    (
        side(bits(&READER_ST)),
        side(bits(&WRITER_ST)),
        any::<bool>(),
        1u8..=3,
        any::<bool>(),
        any::<bool>(),
        any::<bool>(),
        prop::option::weighted(0.3, (any::<bool>(), any::<bool>())),
        any::<[bool; 2]>(),
    )
        .prop_map(|(mut reader, mut writer, deadline, samples, reject, incompatible, unmatch, inconsistent_topic, pbits)| {
            if pbits[0] {
                reader.masks[2] |= St::InconsistentTopic.bit();
            }
            if pbits[1] {
                writer.masks[2] |= St::InconsistentTopic.bit();
            }
            // DATA_ON_READERS only exists on the subscriber listener in this API
            reader.masks[0] &= !St::DataOnReaders.bit();
            reader.masks[2] &= !St::DataOnReaders.bit();
            C33Case { reader, writer, deadline, samples, reject, incompatible, unmatch, inconsistent_topic }
        })
        .boxed()
}

// ------------------------------------------------------------------------------------------

#[derive(Clone, Debug, Default, Serialize, Deserialize)]
pub struct Hist {
    pub setup_error: Option<String>,
    pub calls: Vec<Call>,
    /// instance handles: R, S, W, R', W'
    pub h_r: [u8; 16],
    pub h_s: [u8; 16],
    pub h_w: [u8; 16],
    pub h_r2: Option<[u8; 16]>,
    pub h_w2: Option<[u8; 16]>,
    /// the two topics of the inconsistent pair (A's, B's)
    pub h_topics: Option<([u8; 16], [u8; 16])>,
    /// ground truth from the status getters at the end
    pub w_pub_matched_total: i32,
    pub w_deadline_total: i32,
    pub stored: u32,
    pub rejected: u32,
}

fn opt(present: bool, level: u8, log: &Log) -> Option<Rec> {
    present.then(|| Rec::new(level, log))
}

async fn scenario(c: C33Case) -> Hist {
    let mut h = Hist::default();
    crate::common::limit_steps();
    let f = factory();
    let log: Log = Default::default();
    let deadline = DeadlineQosPolicy { period: if c.deadline { dk_ms(200) } else { DurationKind::Infinite } };
    let keep_all = HistoryQosPolicy { kind: HistoryQosPolicyKind::KeepAll };
    // ---- writer side
    // (listener, mask) handed to the create call for a level, per its install mode
    let decoy_w = mask_kinds(bits(&WRITER_ST) | St::InconsistentTopic.bit());
    let decoy_r = mask_kinds(bits(&READER_ST) | St::InconsistentTopic.bit());
    let at_create = |s: &Side, lvl: usize, decoy: &Vec<dust_dds::infrastructure::status::StatusKind>| -> (Option<Rec>, Vec<dust_dds::infrastructure::status::StatusKind>) {
        match s.via[lvl] {
            0 => (opt(s.present[lvl], lvl as u8, &log), mask_kinds(s.masks[lvl])),
            1 => (None, vec![]),
            _ => (Some(Rec::new(9 + lvl as u8, &log)), decoy.clone()),
        }
    };
    let (l, m) = at_create(&c.writer, 2, &decoy_w);
    let pa = f.create_participant(0, QosKind::Default, l, &m).await.unwrap();
    if c.writer.via[2] != 0 {
        pa.set_listener(opt(c.writer.present[2], 2, &log), &mask_kinds(c.writer.masks[2])).await.unwrap();
    }
    let ta = pa.create_topic::<KeyedData>("T", "KeyedData", QosKind::Default, None::<Rec>, NO_STATUS).await.unwrap();
    let (l, m) = at_create(&c.writer, 1, &decoy_w);
    let publ = pa.create_publisher(QosKind::Default, l, &m).await.unwrap();
    if c.writer.via[1] != 0 {
        publ.set_listener(opt(c.writer.present[1], 1, &log), &mask_kinds(c.writer.masks[1])).await.unwrap();
    }
    let publ2 = pa.create_publisher(QosKind::Default, None::<Rec>, NO_STATUS).await.unwrap();
    let wq = DataWriterQos {
        reliability: ReliabilityQosPolicy { kind: ReliabilityQosPolicyKind::Reliable, max_blocking_time: dk_ms(100) },
        history: keep_all.clone(),
        deadline: deadline.clone(),
        ..Default::default()
    };
    let (l, m) = at_create(&c.writer, 0, &decoy_w);
    let w = match publ.create_datawriter::<KeyedData>(&ta, QosKind::Specific(wq.clone()), l, &m).await {
        Ok(w) => {
            if c.writer.via[0] != 0 {
                w.set_listener(opt(c.writer.present[0], 0, &log), &mask_kinds(c.writer.masks[0])).await.unwrap();
            }
            w
        }
        Err(e) => {
            h.setup_error = Some(format!("create_datawriter: {e:?}"));
            return h;
        }
    };
    // ---- reader side
    let (l, m) = at_create(&c.reader, 2, &decoy_r);
    let pb = f.create_participant(0, QosKind::Default, l, &m).await.unwrap();
    if c.reader.via[2] != 0 {
        pb.set_listener(opt(c.reader.present[2], 2, &log), &mask_kinds(c.reader.masks[2])).await.unwrap();
    }
    let tb = pb.create_topic::<KeyedData>("T", "KeyedData", QosKind::Default, None::<Rec>, NO_STATUS).await.unwrap();
    let (l, m) = at_create(&c.reader, 1, &decoy_r);
    let sub = pb.create_subscriber(QosKind::Default, l, &m).await.unwrap();
    if c.reader.via[1] != 0 {
        sub.set_listener(opt(c.reader.present[1], 1, &log), &mask_kinds(c.reader.masks[1])).await.unwrap();
    }
    let sub2 = pb.create_subscriber(QosKind::Default, None::<Rec>, NO_STATUS).await.unwrap();
    let rq = DataReaderQos {
        reliability: ReliabilityQosPolicy { kind: ReliabilityQosPolicyKind::BestEffort, max_blocking_time: dk_ms(100) },
        history: keep_all.clone(),
        resource_limits: ResourceLimitsQosPolicy {
            max_samples: Length::Limited(2),
            max_instances: Length::Unlimited,
            max_samples_per_instance: Length::Limited(2),
        },
        deadline: deadline.clone(),
        ..Default::default()
    };
    let (l, m) = at_create(&c.reader, 0, &decoy_r);
    let r = match sub.create_datareader::<KeyedData>(&tb, QosKind::Specific(rq.clone()), l, &m).await {
        Ok(r) => {
            if c.reader.via[0] != 0 {
                r.set_listener(opt(c.reader.present[0], 0, &log), &mask_kinds(c.reader.masks[0])).await.unwrap();
            }
            r
        }
        Err(e) => {
            h.setup_error = Some(format!("create_datareader: {e:?}"));
            return h;
        }
    };
    h.h_r = r.get_instance_handle().into();
    h.h_s = sub.get_instance_handle().into();
    h.h_w = w.get_instance_handle().into();
    // discovery and the one match of W with R
    exec::sleep_ms(1500).await;
    let mut seq = 0u32;
    let mut write = async |h: &mut Hist| -> bool {
        seq += 1;
        match w.write(KeyedData { id: 0, seq, blob: vec![] }, None).await {
            Ok(()) => true,
            Err(e) => {
                h.setup_error = Some(format!("write: {e:?}"));
                false
            }
        }
    };
    // ---- samples delivered one at a time
    for _ in 0..c.samples {
        if !write(&mut h).await {
            return h;
        }
        h.stored += 1;
        exec::sleep_ms(5).await;
        let _ = r.take(10, ANY_SAMPLE_STATE, ANY_VIEW_STATE, ANY_INSTANCE_STATE).await;
        exec::sleep_ms(5).await;
    }
    // ---- one rejection: two samples fill the reader, the third is rejected
    if c.reject {
        for k in 0..3 {
            if !write(&mut h).await {
                return h;
            }
            if k < 2 {
                h.stored += 1;
            } else {
                h.rejected += 1;
            }
            exec::sleep_ms(5).await;
        }
        let _ = r.take(10, ANY_SAMPLE_STATE, ANY_VIEW_STATE, ANY_INSTANCE_STATE).await;
        exec::sleep_ms(5).await;
    }
    // ---- incompatible endpoints
    let mut extra = None;
    if c.incompatible {
        let excl = OwnershipQosPolicy { kind: OwnershipQosPolicyKind::Exclusive };
        let w2q = DataWriterQos { ownership: excl.clone(), ..wq.clone() };
        let r2q = DataReaderQos { ownership: excl, resource_limits: Default::default(), deadline: DeadlineQosPolicy { period: DurationKind::Infinite }, ..rq.clone() };
        let w2 = publ2.create_datawriter::<KeyedData>(&ta, QosKind::Specific(w2q), None::<Rec>, NO_STATUS).await.unwrap();
        exec::sleep_ms(100).await;
        let r2 = sub2.create_datareader::<KeyedData>(&tb, QosKind::Specific(r2q), None::<Rec>, NO_STATUS).await.unwrap();
        h.h_w2 = Some(w2.get_instance_handle().into());
        h.h_r2 = Some(r2.get_instance_handle().into());
        exec::sleep_ms(200).await;
        extra = Some((w2, r2));
    }
    // ---- deadline: one more sample, then 2.5 periods of silence
    if c.deadline {
        if !write(&mut h).await {
            return h;
        }
        h.stored += 1;
        exec::sleep_ms(5).await;
        let _ = r.take(10, ANY_SAMPLE_STATE, ANY_VIEW_STATE, ANY_INSTANCE_STATE).await;
        exec::sleep_ms(500).await;
    }
    // ---- un-match
    if c.unmatch {
        if let Err(e) = sub.delete_datareader(&r).await {
            h.setup_error = Some(format!("delete_datareader: {e:?}"));
            return h;
        }
        exec::sleep_ms(200).await;
    }
    // ---- one topic name, two types
    let mut keep_topic = None;
    if let Some((present, enabled)) = c.inconsistent_topic {
        let mask = if enabled { vec![dust_dds::infrastructure::status::StatusKind::InconsistentTopic] } else { vec![] };
        let ta2 = pa.create_topic::<KeyedData>("T2", "KeyedData", QosKind::Default, opt(present, 0, &log), &mask).await.unwrap();
        let tb2 = pb.create_topic::<sim::types::Unkeyed>("T2", "Unkeyed", QosKind::Default, opt(present, 0, &log), &mask).await.unwrap();
        let w3 = publ2.create_datawriter::<KeyedData>(&ta2, QosKind::Default, None::<Rec>, NO_STATUS).await.unwrap();
        let r3 = sub2.create_datareader::<sim::types::Unkeyed>(&tb2, QosKind::Default, None::<Rec>, NO_STATUS).await.unwrap();
        h.h_topics = Some((ta2.get_instance_handle().into(), tb2.get_instance_handle().into()));
        keep_topic = Some((ta2, tb2, w3, r3));
        // type lookup and the first detections
        exec::sleep_ms(400).await;
    }
    exec::sleep_ms(20).await;
    // ground truth from the getters (after everything was dispatched)
    h.w_pub_matched_total = w.get_publication_matched_status().await.map(|s| s.total_count).unwrap_or(-1);
    h.w_deadline_total = w.get_offered_deadline_missed_status().await.map(|s| s.total_count).unwrap_or(-1);
    exec::sleep_ms(1).await;
    h.calls = log.lock().unwrap().clone();
    drop((extra, keep_topic, pa, pb, ta, tb, publ, publ2, sub, sub2));
    h
}

#[derive(Clone, Debug)]
enum Expect {
    /// exactly this many status changes
    Exactly(u32),
    /// as many as the cumulative counts carried by the callbacks say (>= min), optionally pinned by a getter
    Counted { min: u32, pinned: Option<u32> },
}

const LEVEL: [&str; 3] = ["entity", "group", "participant"];
/// level names used in the expectation part of signatures: the two outer levels are one shape
const WANT: [&str; 3] = ["entity", "beyond-entity", "beyond-entity"];

fn oracle(c: &C33Case, h: &Hist, res: &mut CaseResult) {
    if let Some(e) = &h.setup_error {
        res.harness_error = Some(e.clone());
        return;
    }
    if h.w_pub_matched_total != 1 {
        res.harness_error = Some(format!("ground truth: W's publication_matched.total_count is {} (one compatible reader exists)", h.w_pub_matched_total));
        return;
    }
    if c.reader.via.iter().chain(c.writer.via.iter()).any(|v| *v != 0) {
        res.class("listener_installed_by_set_listener");
    }
    if let Some(call) = h.calls.iter().find(|c| c.level >= 9) {
        res.fail(
            format!("C33:{}:replaced-listener-called", call.status.name()),
            format!("{} was delivered to the listener that set_listener had replaced before any status changed (level {})", call.status.name(), LEVEL[(call.level - 9) as usize]),
        );
        return;
    }
    // calls by (entity, status)
    let mut by: BTreeMap<([u8; 16], St), Vec<&Call>> = BTreeMap::new();
    for call in &h.calls {
        by.entry((call.entity, call.status)).or_default().push(call);
    }
    let chain_extra = |s: &Side| Side { present: [false, false, s.present[2]], masks: [0, 0, s.masks[2]], via: [0; 3] };
    let r_extra = chain_extra(&c.reader);
    let w_extra = chain_extra(&c.writer);
    // expected status changes per (entity, status)
    let mut exp: Vec<(&str, [u8; 16], &Side, St, Expect)> = vec![];
    exp.push(("R", h.h_r, &c.reader, St::SubscriptionMatched, Expect::Exactly(1)));
    exp.push(("W", h.h_w, &c.writer, St::PublicationMatched, Expect::Exactly(1 + c.unmatch as u32)));
    exp.push(("R", h.h_r, &c.reader, St::SampleRejected, Expect::Exactly(h.rejected)));
    exp.push(("R", h.h_r, &c.reader, St::RequestedIncompatibleQos, Expect::Exactly(c.incompatible as u32)));
    exp.push(("W", h.h_w, &c.writer, St::OfferedIncompatibleQos, Expect::Exactly(c.incompatible as u32)));
    if c.deadline {
        exp.push(("W", h.h_w, &c.writer, St::OfferedDeadlineMissed, Expect::Counted { min: 2, pinned: Some(h.w_deadline_total.max(0) as u32) }));
        exp.push(("R", h.h_r, &c.reader, St::RequestedDeadlineMissed, Expect::Counted { min: 1, pinned: None }));
    } else {
        exp.push(("W", h.h_w, &c.writer, St::OfferedDeadlineMissed, Expect::Exactly(0)));
        exp.push(("R", h.h_r, &c.reader, St::RequestedDeadlineMissed, Expect::Exactly(0)));
    }
    if let (Some(r2), Some(w2)) = (h.h_r2, h.h_w2) {
        exp.push(("R'", r2, &r_extra, St::SubscriptionMatched, Expect::Exactly(1)));
        exp.push(("R'", r2, &r_extra, St::RequestedIncompatibleQos, Expect::Exactly(1)));
        exp.push(("W'", w2, &w_extra, St::PublicationMatched, Expect::Exactly(1)));
        exp.push(("W'", w2, &w_extra, St::OfferedIncompatibleQos, Expect::Exactly(1)));
    }
    let topic_sides: Option<(Side, Side)> = c.inconsistent_topic.map(|(present, enabled)| {
        let it = St::InconsistentTopic.bit();
        let mk = |s: &Side| Side { present: [present, false, s.present[2]], masks: [if enabled { it } else { 0 }, 0, s.masks[2] & it], via: [0; 3] };
        (mk(&c.writer), mk(&c.reader))
    });
    if let (Some((ha, hb)), Some((sa, sb))) = (h.h_topics, &topic_sides) {
        exp.push(("topic T2 in A", ha, sa, St::InconsistentTopic, Expect::Counted { min: 1, pinned: None }));
        exp.push(("topic T2 in B", hb, sb, St::InconsistentTopic, Expect::Counted { min: 1, pinned: None }));
    }
    let mut fails: Vec<(String, String)> = vec![];
    let mut multi_level = false;
    let judge = |name: &str, label: &str, st: St, side: &Side, calls: &[&Call], expect: &Expect, effective_masks: [bool; 3], fails: &mut Vec<(String, String)>, res: &mut CaseResult| {
        let enabled: Vec<usize> = (0..3).filter(|l| effective_masks[*l]).collect();
        let per_level: Vec<usize> = (0..3).map(|l| calls.iter().filter(|c| c.level as usize == l).count()).collect();
        let total_calls: usize = per_level.iter().sum();
        let n = match expect {
            Expect::Exactly(n) => *n as usize,
            Expect::Counted { min, pinned } => {
                let last = calls.iter().map(|c| c.total).max().unwrap_or(0).max(0) as usize;
                let n = pinned.map(|p| p as usize).unwrap_or(last.max(total_calls));
                if n < *min as usize && enabled.iter().any(|l| side.present[*l]) && pinned.is_none() {
                    *min as usize
                } else {
                    n
                }
            }
        };
        // where the n changes must go
        let first = enabled.first().copied();
        let mut accepted: Vec<(Option<usize>, &str)> = vec![];
        match first {
            None => accepted.push((None, "expected-none")),
            Some(l) if side.present[l] => accepted.push((Some(l), "expected")),
            Some(l) => {
                // the most specific enabled level has a nil listener: a nil listener behaves as a no-op listener
                // (DDS 1.4 2.2.2.1.1.3), so nothing is called - or the search moves on (2.2.4.2.3); both accepted
                res.class("nil_listener_with_enabling_mask");
                accepted.push((None, "expected-none"));
                if let Some(l2) = enabled.iter().copied().find(|x| *x > l && side.present[*x]) {
                    accepted.push((Some(l2), "expected"));
                }
            }
        }
        if n == 0 {
            accepted = vec![(None, "expected-none")];
        }
        let ok = accepted.iter().any(|(lvl, _)| match lvl {
            None => total_calls == 0,
            Some(l) => per_level[*l] == n && total_calls == n,
        });
        if !ok {
            let want = match accepted[0].0 {
                None => "expected-none".to_string(),
                Some(l) => format!("expected-at-{}", WANT[l]),
            };
            let got = if total_calls == 0 {
                "none-called".to_string()
            } else {
                let lv: Vec<&str> = (0..3).filter(|l| per_level[*l] > 0).map(|l| LEVEL[l]).collect();
                let right_level_only = accepted.iter().any(|(l, _)| l.map(|l| per_level[l] == total_calls).unwrap_or(false));
                if right_level_only {
                    if total_calls > n { "too-many-calls".to_string() } else { "too-few-calls".to_string() }
                } else {
                    format!("called-at-{}", lv.join("+"))
                }
            };
            fails.push((
                format!("C33:{}:{}:{}", label, want, got),
                format!(
                    "{} of {name}: {} status change(s) raised; listeners present at [entity, pub/sub, participant] = {:?}, masks enabling it = {:?}; callbacks per level = {:?}",
                    label, n, side.present, effective_masks, per_level
                ),
            ));
        }
        // cumulative counts carried by the callbacks: 1, 2, 3, ... (no change lost or duplicated)
        if matches!(expect, Expect::Counted { .. }) {
            let mut last = 0;
            for call in calls {
                if call.total != last + 1 {
                    fails.push((
                        format!("C33:{}:count-sequence", label),
                        format!("{} of {name}: a callback carries total_count {} after {}", st.name(), call.total, last),
                    ));
                    break;
                }
                last = call.total;
            }
        }
        enabled.len() >= 2 && n > 0
    };
    for (name, handle, side, st, expect) in &exp {
        let calls = by.get(&(*handle, *st)).cloned().unwrap_or_default();
        let eff = [side.masks[0] & st.bit() != 0, side.masks[1] & st.bit() != 0, side.masks[2] & st.bit() != 0];
        if *st == St::PublicationMatched && *handle == h.h_w && c.unmatch {
            // the match and the un-match are judged separately (an un-match has current_count_change < 0)
            let (gone, found): (Vec<&Call>, Vec<&Call>) = calls.iter().partition(|c| c.current_change < 0);
            multi_level |= judge(name, st.name(), *st, side, &found, &Expect::Exactly(1), eff, &mut fails, res);
            judge(name, "PublicationMatched-unmatch", *st, side, &gone, &Expect::Exactly(1), eff, &mut fails, res);
            continue;
        }
        multi_level |= judge(name, st.name(), *st, side, &calls, expect, eff, &mut fails, res);
    }
    // ---- new data: DATA_ON_READERS on the subscriber when enabled there, DATA_AVAILABLE otherwise
    {
        let n = h.stored;
        let dor_calls = by.get(&(h.h_s, St::DataOnReaders)).cloned().unwrap_or_default();
        let da_calls = by.get(&(h.h_r, St::DataAvailable)).cloned().unwrap_or_default();
        let dor_enabled = c.reader.masks[1] & St::DataOnReaders.bit() != 0;
        let da_eff = [
            c.reader.masks[0] & St::DataAvailable.bit() != 0,
            c.reader.masks[1] & St::DataAvailable.bit() != 0,
            c.reader.masks[2] & St::DataAvailable.bit() != 0,
        ];
        if dor_enabled && da_eff.iter().any(|x| *x) {
            multi_level = true;
            res.class("data_on_readers_and_data_available_enabled");
        }
        if dor_enabled && c.reader.present[1] {
            // DATA_ON_READERS takes precedence: n callbacks on the subscriber, no on_data_available at all
            if dor_calls.len() != n as usize || dor_calls.iter().any(|c| c.level != 1) {
                fails.push((
                    format!("C33:DataOnReaders:expected-at-beyond-entity:{}", if dor_calls.is_empty() { "none-called" } else if dor_calls.len() > n as usize { "too-many-calls" } else { "too-few-calls" }),
                    format!("{} samples were stored one at a time; the subscriber's listener enables DATA_ON_READERS but on_data_on_readers was called {} times", n, dor_calls.len()),
                ));
            }
            if !da_calls.is_empty() {
                fails.push((
                    "C33:DataAvailable:expected-none:called-although-data-on-readers-taken".into(),
                    format!("the subscriber's listener enables DATA_ON_READERS, yet on_data_available was also called {} times (levels {:?})", da_calls.len(), da_calls.iter().map(|c| c.level).collect::<Vec<_>>()),
                ));
            }
        } else if dor_enabled {
            // nil subscriber listener with DATA_ON_READERS in its mask: nothing, or the DATA_AVAILABLE search
            res.class("nil_listener_with_enabling_mask");
            if !dor_calls.is_empty() {
                fails.push(("C33:DataOnReaders:expected-none:called-without-listener".into(), "on_data_on_readers was called although the subscriber has no listener".into()));
            }
            if !da_calls.is_empty() {
                multi_level |= judge("R", "DataAvailable", St::DataAvailable, &c.reader, &da_calls, &Expect::Exactly(n), da_eff, &mut fails, res);
            }
        } else {
            if !dor_calls.is_empty() {
                fails.push((
                    "C33:DataOnReaders:expected-none:called-at-group".into(),
                    format!("on_data_on_readers was called {} times although the subscriber's mask does not enable DATA_ON_READERS", dor_calls.len()),
                ));
            }
            multi_level |= judge("R", "DataAvailable", St::DataAvailable, &c.reader, &da_calls, &Expect::Exactly(n), da_eff, &mut fails, res);
        }
    }
    // ---- callbacks naming an entity / status the scenario never raised
    for ((ent, st), calls) in &by {
        let known = exp.iter().any(|e| e.1 == *ent && e.3 == *st)
            || (*ent == h.h_s && *st == St::DataOnReaders)
            || (*ent == h.h_r && *st == St::DataAvailable);
        if !known {
            // data reaching R' (it matches W') is not part of the model: W' never writes
            fails.push((
                format!("C33:{}:unexpected-entity", st.name()),
                format!("{} callback(s) for {} naming an entity for which the scenario raises no such status (levels {:?})", calls.len(), st.name(), calls.iter().map(|c| c.level).collect::<Vec<_>>()),
            ));
        }
    }
    // ---- classes
    for (side, tag) in [(&c.reader, "reader_side"), (&c.writer, "writer_side")] {
        let n = side.present.iter().filter(|x| **x).count();
        res.class(format!("{tag}_listeners:{n}"));
    }
    if c.deadline {
        res.class("deadline");
    }
    if c.incompatible {
        res.class("incompatible_endpoints");
    }
    if c.unmatch {
        res.class("unmatch");
    }
    if c.reject {
        res.class("rejection");
    }
    if c.inconsistent_topic.is_some() {
        res.class("inconsistent_topic");
    }
    if multi_level {
        res.class("status_enabled_at_two_or_more_levels");
    }
    res.nontrivial = multi_level;
    res.info = json!({
        "callbacks": h.calls.len(),
        "stored": h.stored, "rejected": h.rejected,
        "w_deadline_total": h.w_deadline_total,
        "per_status": by.iter().map(|((_, st), v)| format!("{}:{:?}", st.name(), v.iter().map(|c| c.level).collect::<Vec<_>>())).collect::<Vec<_>>(),
    });
    choose_verdict("C33", res, fails);
}

pub fn eval(case: &C33Case) -> CaseResult {
    let mut res = CaseResult::default();
    match exec::run(scenario(case.clone())) {
        Ok(h) => oracle(case, &h, &mut res),
        Err(a) => apply_abort("C33", &mut res, a),
    }
    res.sim = sim_stats();
    res
}

pub fn main(ctx: &Ctx) {
    let limits = Limits { cpu_s: 20, wall_s: 120, as_bytes: 4 << 30 };
    let meta = Meta {
        rule: "listener present/absent x status mask at the three levels (entity, publisher/subscriber, participant) on the writer side and on the reader side; events: 1 match, 1-3 samples delivered one at a time, 1 rejection, 1 incompatible endpoint per side (extra endpoints without own listeners), deadline misses, 1 un-match; part 1 enumerates all 2^6 presence x mask configurations (same for every status) x DATA_ON_READERS on/off = 128 scenarios, part 2 draws independent random masks per status; non-trivial = some raised status is enabled at two or more levels (or DATA_ON_READERS together with DATA_AVAILABLE); distinct = hash of the case",
        assumptions: &[
            "the number of status changes is known from the scenario (1 match, k samples, 1 rejection, 1 incompatible endpoint, 1 un-match); deadline-missed changes are counted through the cumulative total_count carried by the callbacks (offered side pinned by get_offered_deadline_missed_status)",
            "a level whose mask enables the status but whose listener is nil: either no callback at all (nil listener = no-op listener, DDS 1.4 2.2.2.1.1.3) or the next enabled level with a listener is accepted",
            "DATA_ON_READERS exists only on the subscriber listener in this API; the participant-level DATA_ON_READERS bit is not generated",
            "Timer::delay(0) takes 1 ns of virtual time in this engine (see sim_status/src/common.rs)",
        ],
        nontrivial_floor: 100,
    };
    // ---- replay
    if let Some(path) = &ctx.replay {
        let v = vcore::load_replay(path);
        let case: C33Case = serde_json::from_value(v).unwrap_or_else(|e| {
            eprintln!("replay file does not hold a C33 case: {e}");
            std::process::exit(2)
        });
        let r = run_forked("C33", limits, || eval(&case));
        println!("replay C33: {}", serde_json::to_string_pretty(&r).unwrap());
        let mut report = Report::default();
        report.stats.evaluations = 1;
        if let Some(hh) = r.harness_error {
            report.inconclusive.push(hh);
        } else if let Some((signature, what)) = r.verdict {
            report.failures.push(Failure { signature, what, case: serde_json::to_value(&case).unwrap(), shrunk_from: None, shrunk_to: None });
        }
        vcore::finish(ctx, meta, report);
    }
    let random_total: u64 = ctx.pick(900, 20_000);
    let report = vcore::run_sharded(ctx, SHARDS, |ctx| {
        let known = Known::load(&ctx.id);
        let mut report = Report::default();
        // ---- part 1: enumeration (split over the shards)
        let (k, n) = (ctx.shard_index() as u32, ctx.shard_count() as u32);
        let mut enum_failures: BTreeMap<String, Failure> = BTreeMap::new();
        for i in (0..ENUMERATED).filter(|i| i % n == k) {
            let case = enumerated(i);
            let r = run_forked("C33", limits, || eval(&case));
            let js = serde_json::to_value(&case).unwrap();
            let key = vcore::hash_json(&js);
            let o = to_outcome(r, key, || js.clone());
            report.stats.case(o.key, o.nontrivial, &o.classes);
            report.stats.class("enumerated");
            if let Some((sig, what)) = o.verdict {
                if known.matches(&sig) {
                    *report.stats.excluded_known.entry(sig).or_insert(0) += 1;
                } else {
                    enum_failures.entry(sig.clone()).or_insert(Failure { signature: sig, what, case: js, shrunk_from: None, shrunk_to: None });
                }
            }
        }
        report.failures.extend(enum_failures.into_values());
        report.stats.extra.insert("enumerated_configurations".into(), json!(ENUMERATED));
        // ---- part 2: random masks per status
        let cases = ctx.share(random_total) as u32;
        let strat = strategy();
        let fail = vcore::pt::run_cases(
            cases,
            ctx.rng_seed("cases"),
            100,
            &strat,
            &mut report.stats,
            &known,
            |case| {
                let r = run_forked("C33", limits, || eval(case));
                let js = serde_json::to_value(case).unwrap();
                let key = vcore::hash_json(&js);
                to_outcome(r, key, || js)
            },
            |case| serde_json::to_value(case).unwrap(),
        );
        if let Some(f) = fail {
            report.failures.push(f);
        }
        report
    });
    vcore::finish(ctx, meta, report)
}
