#[global_allocator]
static A: vcore::alloc::Counting = vcore::alloc::Counting;

fn main() {
    eprintln!("engine sim_status: not built yet");
    std::process::exit(2);
}
