//! sim_status: E-SIM checks of deadline statuses (C30), worker sleep bounds (C31), status conditions
//! and wait sets (C32) and listener dispatch (C33).

mod c30;
mod c31;
mod c32;
mod c33;
mod common;

use vcore::Ctx;

#[global_allocator]
static A: vcore::alloc::Counting = vcore::alloc::Counting;

fn main() {
    let ctx = Ctx::from_args();
    match ctx.id.as_str() {
        "C30" => c30::main(&ctx),
        "C31" => c31::main(&ctx),
        "C32" => c32::main(&ctx),
        "C33" => c33::main(&ctx),
        other => {
            eprintln!("sim_status: unknown property id {other}");
            std::process::exit(2);
        }
    }
}
