#!/bin/bash
# Runs the repository's pinned test suite with the verif-hooks feature OFF and compares with BASELINE.json.
cd /repo || exit 2
export CARGO_NET_OFFLINE=true
OUT=${1:-/verif/target/baseline_off.log}
mkdir -p "$(dirname "$OUT")"
rm -f /repo/target/nextest/pb/junit.xml
if [ -f /w/lib/nextest.toml ] && command -v cargo-nextest >/dev/null; then
  cargo nextest run --workspace --no-fail-fast --tool-config-file pb:/w/lib/nextest.toml --profile pb --test-threads 8 --offline >"$OUT" 2>&1
else
  cargo test --workspace --no-fail-fast --offline >"$OUT" 2>&1
fi
python3 - "$OUT" <<'PY'
import json,re,sys,os
import xml.etree.ElementTree as ET
base=json.load(open('/root/.vp/BASELINE.json'))
stable=set(base['stable_pass'])
passed=set(); failed=set()
jx='/repo/target/nextest/pb/junit.xml'
if os.path.exists(jx):
    for tc in ET.parse(jx).getroot().iter('testcase'):
        name=tc.get('classname')+'::'+tc.get('name')
        bad=any(c.tag in('failure','error') for c in tc)
        (failed if bad else passed).add(name)
else:
    log=open(sys.argv[1],errors='replace').read()
    for m in re.finditer(r'^test (\S+) \.\.\. (ok|FAILED)',log,re.M):
        (passed if m.group(2)=='ok' else failed).add(m.group(1))
    # cargo test output has no crate prefix: compare on suffix
    stable_suffix={t.split('::',1)[1] if '::' in t else t for t in stable}
    passed={t for t in stable if any(t.endswith(p) for p in passed)}
missing=sorted(t for t in stable if t not in passed)
print(f"passed={len(passed)} failed={len(failed)} stable={len(stable)} stable_not_passed={len(missing)}")
for t in missing[:40]: print("  NOT PASSED:",t)
sys.exit(1 if missing else 0)
PY
