//! Counting global allocator. A binary opts in with
//! `#[global_allocator] static A: vcore::alloc::Counting = vcore::alloc::Counting;`
//! Tracks current/peak live bytes and the largest single request; refuses (returns null, after writing
//! a marker line to the report fd) any single request above the cap so that a length-field-driven
//! `Vec::with_capacity(huge)` becomes a deterministic observation instead of an OOM kill.

use std::alloc::{GlobalAlloc, Layout, System};
use std::sync::atomic::{AtomicI32, AtomicUsize, Ordering::Relaxed};

pub struct Counting;

static CUR: AtomicUsize = AtomicUsize::new(0);
static PEAK: AtomicUsize = AtomicUsize::new(0);
static BIGGEST: AtomicUsize = AtomicUsize::new(0);
static CAP: AtomicUsize = AtomicUsize::new(usize::MAX);
static REFUSED: AtomicUsize = AtomicUsize::new(0);
static REPORT_FD: AtomicI32 = AtomicI32::new(-1);

pub fn set_single_request_cap(bytes: usize) {
    CAP.store(bytes, Relaxed);
}
pub fn set_report_fd(fd: i32) {
    REPORT_FD.store(fd, Relaxed);
}
pub fn current() -> usize {
    CUR.load(Relaxed)
}
pub fn peak() -> usize {
    PEAK.load(Relaxed)
}
/// resets the peak to the current level and the biggest-request tracker to 0
pub fn reset_peak() {
    PEAK.store(CUR.load(Relaxed), Relaxed);
    BIGGEST.store(0, Relaxed);
}
pub fn biggest() -> usize {
    BIGGEST.load(Relaxed)
}
pub fn refused() -> usize {
    REFUSED.load(Relaxed)
}
pub fn clear_refused() {
    REFUSED.store(0, Relaxed);
}

fn note_refusal(size: usize) {
    REFUSED.store(size, Relaxed);
    let fd = REPORT_FD.load(Relaxed);
    if fd >= 0 {
        // no allocation here: format into a stack buffer
        let mut buf = [0u8; 48];
        let prefix = b"\nALLOC_REFUSED ";
        let mut n = 0;
        for b in prefix {
            buf[n] = *b;
            n += 1;
        }
        let mut digits = [0u8; 24];
        let mut d = 0;
        let mut v = size;
        if v == 0 {
            digits[0] = b'0';
            d = 1;
        }
        while v > 0 {
            digits[d] = b'0' + (v % 10) as u8;
            v /= 10;
            d += 1;
        }
        while d > 0 {
            d -= 1;
            buf[n] = digits[d];
            n += 1;
        }
        buf[n] = b'\n';
        n += 1;
        unsafe {
            libc::write(fd, buf.as_ptr() as *const libc::c_void, n);
        }
    }
}

#[inline]
fn on_alloc(size: usize) {
    let cur = CUR.fetch_add(size, Relaxed) + size;
    if cur > PEAK.load(Relaxed) {
        PEAK.store(cur, Relaxed);
    }
    if size > BIGGEST.load(Relaxed) {
        BIGGEST.store(size, Relaxed);
    }
}

unsafe impl GlobalAlloc for Counting {
    unsafe fn alloc(&self, layout: Layout) -> *mut u8 {
        if layout.size() > CAP.load(Relaxed) {
            note_refusal(layout.size());
            return std::ptr::null_mut();
        }
        let p = unsafe { System.alloc(layout) };
        if !p.is_null() {
            on_alloc(layout.size());
        }
        p
    }
    unsafe fn alloc_zeroed(&self, layout: Layout) -> *mut u8 {
        if layout.size() > CAP.load(Relaxed) {
            note_refusal(layout.size());
            return std::ptr::null_mut();
        }
        let p = unsafe { System.alloc_zeroed(layout) };
        if !p.is_null() {
            on_alloc(layout.size());
        }
        p
    }
    unsafe fn dealloc(&self, ptr: *mut u8, layout: Layout) {
        unsafe { System.dealloc(ptr, layout) };
        CUR.fetch_sub(layout.size(), Relaxed);
    }
    unsafe fn realloc(&self, ptr: *mut u8, layout: Layout, new_size: usize) -> *mut u8 {
        if new_size > CAP.load(Relaxed) {
            note_refusal(new_size);
            return std::ptr::null_mut();
        }
        let p = unsafe { System.realloc(ptr, layout, new_size) };
        if !p.is_null() {
            CUR.fetch_sub(layout.size(), Relaxed);
            on_alloc(new_size);
        }
        p
    }
}
