//! proptest driver used from binaries: fixed seed, no persistence, known-finding exclusion so a
//! campaign continues past listed findings, shrinking to a minimal case.

use crate::{Failure, Known, Stats};
use proptest::{
    strategy::{Strategy, ValueTree},
    test_runner::{Config, RngAlgorithm, RngSeed, TestCaseError, TestError, TestRng, TestRunner},
};
use serde_json::Value;
use std::cell::RefCell;

/// What one evaluated case reports back.
#[derive(Debug, Clone, Default)]
pub struct CaseOutcome {
    /// `Err((signature, explanation))` when the oracle rejects the case
    pub verdict: Option<(String, String)>,
    pub nontrivial: bool,
    pub classes: Vec<String>,
    /// distinctness key of the case (hash of its canonical encoding)
    pub key: u64,
    /// optional sample rendering, used for evidence
    pub sample: Option<Value>,
}

impl CaseOutcome {
    pub fn pass(key: u64, nontrivial: bool) -> Self {
        CaseOutcome { verdict: None, nontrivial, classes: vec![], key, sample: None }
    }
    pub fn fail(mut self, sig: impl Into<String>, what: impl Into<String>) -> Self {
        if self.verdict.is_none() {
            self.verdict = Some((sig.into(), what.into()));
        }
        self
    }
    pub fn class(mut self, c: impl Into<String>) -> Self {
        self.classes.push(c.into());
        self
    }
}

pub fn config(cases: u32, seed: u64, max_shrink_iters: u32) -> Config {
    Config {
        cases,
        failure_persistence: None,
        rng_seed: RngSeed::Fixed(seed),
        max_shrink_iters,
        max_global_rejects: 1_000_000,
        max_local_rejects: 1_000_000,
        ..Config::default()
    }
}

pub fn runner(cases: u32, seed: u64, max_shrink_iters: u32) -> TestRunner {
    let cfg = config(cases, seed, max_shrink_iters);
    let mut bytes = [0u8; 32];
    for (i, b) in bytes.iter_mut().enumerate() {
        *b = (crate::mix(seed, "rng", i as u64) & 0xff) as u8;
    }
    TestRunner::new_with_rng(cfg, TestRng::from_seed(RngAlgorithm::ChaCha, &bytes))
}

/// Runs `cases` generated cases. Returns the minimised failure, if any, whose signature is not a
/// known finding. `to_json` renders a case for the replay file.
pub fn run_cases<S, F, J>(
    cases: u32,
    seed: u64,
    max_shrink_iters: u32,
    strategy: &S,
    stats: &mut Stats,
    known: &Known,
    eval: F,
    to_json: J,
) -> Option<Failure>
where
    S: Strategy,
    F: Fn(&S::Value) -> CaseOutcome,
    J: Fn(&S::Value) -> Value,
{
    let mut runner = runner(cases, seed, max_shrink_iters);
    let shrinking = RefCell::new(false);
    let first_size = RefCell::new(None::<u64>);
    let stats_cell = RefCell::new(std::mem::take(stats));
    // Wall-clock budget for shrinking (a failing case can be very expensive, e.g. a livelocked worker that
    // runs into the step limit): once it is used up, further candidates are refused unevaluated, so the
    // replay is merely less minimal. The verdict never depends on it.
    let shrink_budget = std::time::Duration::from_secs(
        std::env::var("VERIF_SHRINK_BUDGET_S").ok().and_then(|v| v.parse().ok()).unwrap_or(240),
    );
    let shrink_started = RefCell::new(None::<std::time::Instant>);
    let result = runner.run(strategy, |v| {
        if *shrinking.borrow() && shrink_started.borrow().map(|t| t.elapsed() > shrink_budget).unwrap_or(false) {
            return Ok(());
        }
        let out = eval(&v);
        let in_shrink = *shrinking.borrow();
        if !in_shrink {
            let mut st = stats_cell.borrow_mut();
            st.case(out.key, out.nontrivial, &out.classes);
            if let Some(s) = &out.sample {
                if out.nontrivial || st.samples.is_empty() {
                    st.sample(s.clone());
                }
            }
        }
        match out.verdict {
            None => Ok(()),
            Some((sig, _what)) if known.matches(&sig) => {
                if !in_shrink {
                    *stats_cell.borrow_mut().excluded_known.entry(sig).or_insert(0) += 1;
                }
                Ok(())
            }
            Some((sig, _what)) => {
                if !in_shrink {
                    *shrinking.borrow_mut() = true;
                    *shrink_started.borrow_mut() = Some(std::time::Instant::now());
                    *first_size.borrow_mut() = Some(to_json(&v).to_string().len() as u64);
                }
                Err(TestCaseError::fail(sig))
            }
        }
    });
    *stats = stats_cell.into_inner();
    match result {
        Ok(()) => None,
        Err(TestError::Fail(_, minimal)) => {
            let out = eval(&minimal);
            let case = to_json(&minimal);
            let (signature, what) = out
                .verdict
                .unwrap_or_else(|| ("harness:unstable".into(), "minimal case passed on re-evaluation (non-deterministic failure, e.g. CPU-time watchdog under load)".into()));
            let to = case.to_string().len() as u64;
            Some(Failure {
                signature,
                what,
                case,
                shrunk_from: first_size.into_inner(),
                shrunk_to: Some(to),
            })
        }
        Err(TestError::Abort(r)) => Some(Failure {
            signature: "harness:abort".into(),
            what: format!("proptest aborted: {r}"),
            case: Value::Null,
            shrunk_from: None,
            shrunk_to: None,
        }),
    }
}

/// Draw a single value from a strategy with a given runner (used for sampling / enumerations).
pub fn draw<S: Strategy>(runner: &mut TestRunner, s: &S) -> S::Value {
    s.new_tree(runner).expect("strategy").current()
}

/// Monotone index mapping recommended for shrinkable choices: maps a u16 to 0..len.
pub fn idx(choice: u16, len: usize) -> usize {
    if len == 0 {
        return 0;
    }
    ((choice as usize) * len) >> 16
}
