//! Fork-per-case runner: the child runs a closure producing a byte payload which is written to a pipe;
//! the parent collects payload, exit status and CPU time. Panics, aborts, CPU-limit kills and refused
//! allocations in the child are observations for the parent, not crashes of the campaign.

use std::io::Read;
use std::os::fd::FromRawFd;

#[derive(Debug, Clone, Copy)]
pub struct Limits {
    /// RLIMIT_CPU in seconds (soft); the child gets SIGXCPU beyond it
    pub cpu_s: u64,
    /// wall clock safety net (alarm) in seconds; hitting it is "inconclusive", not a violation
    pub wall_s: u32,
    /// RLIMIT_AS in bytes (0 = unlimited)
    pub as_bytes: u64,
}

impl Default for Limits {
    fn default() -> Self {
        Limits { cpu_s: 10, wall_s: 60, as_bytes: 8 << 30 }
    }
}

#[derive(Debug, Clone, PartialEq, Eq)]
pub enum Exit {
    Code(i32),
    Signal(i32),
}

#[derive(Debug, Clone)]
pub struct ChildResult {
    pub payload: Vec<u8>,
    pub exit: Exit,
    pub cpu_ms: u64,
    pub max_rss_kb: u64,
}

impl ChildResult {
    pub fn alloc_refused(&self) -> Option<usize> {
        let s = String::from_utf8_lossy(&self.payload);
        s.lines().find_map(|l| l.strip_prefix("ALLOC_REFUSED ").and_then(|n| n.trim().parse().ok()))
    }
    pub fn cpu_limit_hit(&self) -> bool {
        matches!(self.exit, Exit::Signal(s) if s == libc::SIGXCPU || s == libc::SIGKILL)
    }
    pub fn wall_limit_hit(&self) -> bool {
        matches!(self.exit, Exit::Signal(s) if s == libc::SIGALRM)
    }
}

/// Runs `f` in a forked child. `f` receives the write end fd of the report pipe (so that e.g. the
/// allocator or a panic hook can emit marker lines) and returns the final payload.
pub fn run_in_child(limits: Limits, f: impl FnOnce(i32) -> Vec<u8>) -> ChildResult {
    unsafe {
        let mut fds = [0i32; 2];
        if libc::pipe(fds.as_mut_ptr()) != 0 {
            panic!("pipe failed");
        }
        let pid = libc::fork();
        if pid < 0 {
            panic!("fork failed");
        }
        if pid == 0 {
            libc::close(fds[0]);
            let wfd = fds[1];
            if limits.cpu_s > 0 {
                let rl = libc::rlimit { rlim_cur: limits.cpu_s, rlim_max: limits.cpu_s + 2 };
                libc::setrlimit(libc::RLIMIT_CPU, &rl);
            }
            if limits.as_bytes > 0 {
                let rl = libc::rlimit { rlim_cur: limits.as_bytes, rlim_max: limits.as_bytes };
                libc::setrlimit(libc::RLIMIT_AS, &rl);
            }
            let rl = libc::rlimit { rlim_cur: 0, rlim_max: 0 };
            libc::setrlimit(libc::RLIMIT_CORE, &rl);
            if limits.wall_s > 0 {
                libc::alarm(limits.wall_s);
            }
            let payload = f(wfd);
            let mut off = 0;
            while off < payload.len() {
                let n = libc::write(
                    wfd,
                    payload[off..].as_ptr() as *const libc::c_void,
                    payload.len() - off,
                );
                if n <= 0 {
                    break;
                }
                off += n as usize;
            }
            libc::close(wfd);
            libc::_exit(0);
        }
        libc::close(fds[1]);
        let mut file = std::fs::File::from_raw_fd(fds[0]);
        let mut payload = Vec::new();
        let _ = file.read_to_end(&mut payload);
        drop(file);
        let mut status = 0i32;
        let mut ru: libc::rusage = std::mem::zeroed();
        libc::wait4(pid, &mut status, 0, &mut ru);
        let exit = if libc::WIFEXITED(status) {
            Exit::Code(libc::WEXITSTATUS(status))
        } else if libc::WIFSIGNALED(status) {
            Exit::Signal(libc::WTERMSIG(status))
        } else {
            Exit::Code(-1)
        };
        let cpu_ms = (ru.ru_utime.tv_sec as u64 * 1000 + ru.ru_utime.tv_usec as u64 / 1000)
            + (ru.ru_stime.tv_sec as u64 * 1000 + ru.ru_stime.tv_usec as u64 / 1000);
        ChildResult { payload, exit, cpu_ms, max_rss_kb: ru.ru_maxrss as u64 }
    }
}
