//! Independent (no dust-dds code) reader of RTPS 2.x messages, transcribed from DDSI-RTPS 2.5 §8.3/§9.4.
//! Used by the wire monitor of the simulation and as the reference side of the message round-trip check.
//! Total: returns None on anything malformed, never panics.

use serde::{Deserialize, Serialize};

pub const PAD: u8 = 0x01;
pub const ACKNACK: u8 = 0x06;
pub const HEARTBEAT: u8 = 0x07;
pub const GAP: u8 = 0x08;
pub const INFO_TS: u8 = 0x09;
pub const INFO_SRC: u8 = 0x0c;
pub const INFO_REPLY_IP4: u8 = 0x0d;
pub const INFO_DST: u8 = 0x0e;
pub const INFO_REPLY: u8 = 0x0f;
pub const NACK_FRAG: u8 = 0x12;
pub const HEARTBEAT_FRAG: u8 = 0x13;
pub const DATA: u8 = 0x15;
pub const DATA_FRAG: u8 = 0x16;

pub type Eid = [u8; 4];

#[derive(Clone, Debug, PartialEq, Eq, Serialize, Deserialize)]
pub struct Param {
    pub pid: u16,
    pub value: Vec<u8>,
}

#[derive(Clone, Debug, PartialEq, Eq, Serialize, Deserialize)]
pub enum Sub {
    Pad,
    InfoTs { ts: Option<(u32, u32)> },
    InfoDst { prefix: [u8; 12] },
    InfoSrc { version: (u8, u8), vendor: (u8, u8), prefix: [u8; 12] },
    InfoReply { unicast: Vec<(i32, u32, [u8; 16])>, multicast: Option<Vec<(i32, u32, [u8; 16])>> },
    Data {
        flags: u8,
        reader: Eid,
        writer: Eid,
        sn: i64,
        inline_qos: Option<Vec<Param>>,
        payload: Vec<u8>,
    },
    DataFrag {
        flags: u8,
        reader: Eid,
        writer: Eid,
        sn: i64,
        frag_start: u32,
        frags_in_submessage: u16,
        frag_size: u16,
        data_size: u32,
        inline_qos: Option<Vec<Param>>,
        payload: Vec<u8>,
    },
    Heartbeat { flags: u8, reader: Eid, writer: Eid, first: i64, last: i64, count: i32 },
    HeartbeatFrag { reader: Eid, writer: Eid, sn: i64, last_frag: u32, count: i32 },
    AckNack { flags: u8, reader: Eid, writer: Eid, base: i64, num_bits: u32, set: Vec<i64>, count: i32 },
    Gap { reader: Eid, writer: Eid, start: i64, list_base: i64, num_bits: u32, list: Vec<i64> },
    NackFrag { reader: Eid, writer: Eid, sn: i64, base: u32, num_bits: u32, set: Vec<u32>, count: i32 },
    Other { id: u8, flags: u8, body: Vec<u8> },
}

impl Sub {
    pub fn kind(&self) -> &'static str {
        match self {
            Sub::Pad => "PAD",
            Sub::InfoTs { .. } => "INFO_TS",
            Sub::InfoDst { .. } => "INFO_DST",
            Sub::InfoSrc { .. } => "INFO_SRC",
            Sub::InfoReply { .. } => "INFO_REPLY",
            Sub::Data { .. } => "DATA",
            Sub::DataFrag { .. } => "DATA_FRAG",
            Sub::Heartbeat { .. } => "HEARTBEAT",
            Sub::HeartbeatFrag { .. } => "HEARTBEAT_FRAG",
            Sub::AckNack { .. } => "ACKNACK",
            Sub::Gap { .. } => "GAP",
            Sub::NackFrag { .. } => "NACK_FRAG",
            Sub::Other { .. } => "OTHER",
        }
    }
}

#[derive(Clone, Debug, PartialEq, Eq, Serialize, Deserialize)]
pub struct SubRaw {
    pub id: u8,
    pub flags: u8,
    /// octetsToNextHeader as written on the wire
    pub length_field: u16,
    /// number of body bytes actually covered
    pub body_len: usize,
    pub sub: Sub,
}

#[derive(Clone, Debug, PartialEq, Eq, Serialize, Deserialize)]
pub struct Msg {
    pub version: (u8, u8),
    pub vendor: (u8, u8),
    pub prefix: [u8; 12],
    pub subs: Vec<SubRaw>,
}

struct R<'a> {
    b: &'a [u8],
    p: usize,
    le: bool,
}

impl<'a> R<'a> {
    fn take(&mut self, n: usize) -> Option<&'a [u8]> {
        if self.p.checked_add(n)? > self.b.len() {
            return None;
        }
        let s = &self.b[self.p..self.p + n];
        self.p += n;
        Some(s)
    }
    fn u8(&mut self) -> Option<u8> {
        Some(self.take(1)?[0])
    }
    fn u16(&mut self) -> Option<u16> {
        let s = self.take(2)?;
        Some(if self.le { u16::from_le_bytes([s[0], s[1]]) } else { u16::from_be_bytes([s[0], s[1]]) })
    }
    fn u32(&mut self) -> Option<u32> {
        let s = self.take(4)?;
        let a = [s[0], s[1], s[2], s[3]];
        Some(if self.le { u32::from_le_bytes(a) } else { u32::from_be_bytes(a) })
    }
    fn i32(&mut self) -> Option<i32> {
        self.u32().map(|v| v as i32)
    }
    fn sn(&mut self) -> Option<i64> {
        let hi = self.i32()? as i64;
        let lo = self.u32()? as i64;
        Some((hi << 32) | lo)
    }
    fn eid(&mut self) -> Option<Eid> {
        let s = self.take(4)?;
        Some([s[0], s[1], s[2], s[3]])
    }
    fn prefix(&mut self) -> Option<[u8; 12]> {
        let s = self.take(12)?;
        let mut a = [0u8; 12];
        a.copy_from_slice(s);
        Some(a)
    }
    fn rest(&mut self) -> &'a [u8] {
        let s = &self.b[self.p..];
        self.p = self.b.len();
        s
    }
    fn bitmap(&mut self) -> Option<(u32, Vec<u32>)> {
        let num_bits = self.u32()?;
        if num_bits > 256 {
            return None;
        }
        let words = (num_bits as usize + 31) / 32;
        let mut v = vec![];
        for _ in 0..words {
            v.push(self.u32()?);
        }
        Some((num_bits, v))
    }
    fn sn_set(&mut self) -> Option<(i64, u32, Vec<i64>)> {
        let base = self.sn()?;
        let (n, words) = self.bitmap()?;
        let mut set = vec![];
        for i in 0..n {
            if words[(i / 32) as usize] & (1u32 << (31 - (i % 32))) != 0 {
                set.push(base.wrapping_add(i as i64));
            }
        }
        Some((base, n, set))
    }
    fn frag_set(&mut self) -> Option<(u32, u32, Vec<u32>)> {
        let base = self.u32()?;
        let (n, words) = self.bitmap()?;
        let mut set = vec![];
        for i in 0..n {
            if words[(i / 32) as usize] & (1u32 << (31 - (i % 32))) != 0 {
                set.push(base.wrapping_add(i));
            }
        }
        Some((base, n, set))
    }
    fn locator(&mut self) -> Option<(i32, u32, [u8; 16])> {
        let k = self.i32()?;
        let p = self.u32()?;
        let s = self.take(16)?;
        let mut a = [0u8; 16];
        a.copy_from_slice(s);
        Some((k, p, a))
    }
    fn locator_list(&mut self) -> Option<Vec<(i32, u32, [u8; 16])>> {
        let n = self.u32()?;
        if n as usize > self.b.len() {
            return None;
        }
        let mut v = vec![];
        for _ in 0..n {
            v.push(self.locator()?);
        }
        Some(v)
    }
    /// parameter list up to and including the sentinel
    fn params(&mut self) -> Option<Vec<Param>> {
        let mut v = vec![];
        loop {
            let pid = self.u16()?;
            let len = self.u16()? as usize;
            if pid == 1 {
                return Some(v);
            }
            let val = self.take(len)?;
            v.push(Param { pid, value: val.to_vec() });
        }
    }
}

pub fn parse(bytes: &[u8]) -> Option<Msg> {
    if bytes.len() < 20 || &bytes[0..4] != b"RTPS" {
        return None;
    }
    let version = (bytes[4], bytes[5]);
    let vendor = (bytes[6], bytes[7]);
    let mut prefix = [0u8; 12];
    prefix.copy_from_slice(&bytes[8..20]);
    let mut subs = vec![];
    let mut p = 20;
    while p + 4 <= bytes.len() {
        let id = bytes[p];
        let flags = bytes[p + 1];
        let le = flags & 1 == 1;
        let length_field = if le {
            u16::from_le_bytes([bytes[p + 2], bytes[p + 3]])
        } else {
            u16::from_be_bytes([bytes[p + 2], bytes[p + 3]])
        };
        let body_start = p + 4;
        let body_end = if length_field == 0 && id != PAD && id != INFO_TS {
            bytes.len()
        } else {
            body_start + length_field as usize
        };
        if body_end > bytes.len() {
            return None;
        }
        let body = &bytes[body_start..body_end];
        let mut r = R { b: body, p: 0, le };
        let sub = parse_sub(id, flags, &mut r)?;
        subs.push(SubRaw { id, flags, length_field, body_len: body.len(), sub });
        p = body_end;
    }
    if p != bytes.len() {
        return None;
    }
    Some(Msg { version, vendor, prefix, subs })
}

fn parse_sub(id: u8, flags: u8, r: &mut R) -> Option<Sub> {
    Some(match id {
        PAD => Sub::Pad,
        INFO_TS => {
            if flags & 2 != 0 {
                Sub::InfoTs { ts: None }
            } else {
                let s = r.u32()?;
                let f = r.u32()?;
                Sub::InfoTs { ts: Some((s, f)) }
            }
        }
        INFO_DST => Sub::InfoDst { prefix: r.prefix()? },
        INFO_SRC => {
            let _unused = r.u32()?;
            let v = (r.u8()?, r.u8()?);
            let vd = (r.u8()?, r.u8()?);
            Sub::InfoSrc { version: v, vendor: vd, prefix: r.prefix()? }
        }
        INFO_REPLY => {
            let unicast = r.locator_list()?;
            let multicast = if flags & 2 != 0 { Some(r.locator_list()?) } else { None };
            Sub::InfoReply { unicast, multicast }
        }
        DATA => {
            let _extra = r.u16()?;
            let otq = r.u16()? as usize;
            let after_otq = r.p;
            let reader = r.eid()?;
            let writer = r.eid()?;
            let sn = r.sn()?;
            let target = after_otq.checked_add(otq)?;
            if target < r.p || target > r.b.len() {
                return None;
            }
            r.p = target;
            let inline_qos = if flags & 2 != 0 { Some(r.params()?) } else { None };
            let payload = if flags & 0x0c != 0 { r.rest().to_vec() } else { vec![] };
            Sub::Data { flags, reader, writer, sn, inline_qos, payload }
        }
        DATA_FRAG => {
            let _extra = r.u16()?;
            let otq = r.u16()? as usize;
            let after_otq = r.p;
            let reader = r.eid()?;
            let writer = r.eid()?;
            let sn = r.sn()?;
            let frag_start = r.u32()?;
            let frags_in_submessage = r.u16()?;
            let frag_size = r.u16()?;
            let data_size = r.u32()?;
            let target = after_otq.checked_add(otq)?;
            if target < r.p || target > r.b.len() {
                return None;
            }
            r.p = target;
            let inline_qos = if flags & 2 != 0 { Some(r.params()?) } else { None };
            let payload = r.rest().to_vec();
            Sub::DataFrag {
                flags,
                reader,
                writer,
                sn,
                frag_start,
                frags_in_submessage,
                frag_size,
                data_size,
                inline_qos,
                payload,
            }
        }
        HEARTBEAT => Sub::Heartbeat {
            flags,
            reader: r.eid()?,
            writer: r.eid()?,
            first: r.sn()?,
            last: r.sn()?,
            count: r.i32()?,
        },
        HEARTBEAT_FRAG => Sub::HeartbeatFrag {
            reader: r.eid()?,
            writer: r.eid()?,
            sn: r.sn()?,
            last_frag: r.u32()?,
            count: r.i32()?,
        },
        ACKNACK => {
            let reader = r.eid()?;
            let writer = r.eid()?;
            let (base, num_bits, set) = r.sn_set()?;
            let count = r.i32()?;
            Sub::AckNack { flags, reader, writer, base, num_bits, set, count }
        }
        GAP => {
            let reader = r.eid()?;
            let writer = r.eid()?;
            let start = r.sn()?;
            let (list_base, num_bits, list) = r.sn_set()?;
            Sub::Gap { reader, writer, start, list_base, num_bits, list }
        }
        NACK_FRAG => {
            let reader = r.eid()?;
            let writer = r.eid()?;
            let sn = r.sn()?;
            let (base, num_bits, set) = r.frag_set()?;
            let count = r.i32()?;
            Sub::NackFrag { reader, writer, sn, base, num_bits, set, count }
        }
        _ => Sub::Other { id, flags, body: r.rest().to_vec() },
    })
}

pub const PID_KEY_HASH: u16 = 0x0070;
pub const PID_STATUS_INFO: u16 = 0x0071;

/// entity kind helpers (RTPS Table 9.1)
pub fn is_builtin(e: &Eid) -> bool {
    e[3] & 0xc0 == 0xc0
}
pub fn is_user_writer(e: &Eid) -> bool {
    matches!(e[3], 0x02 | 0x03)
}
pub fn is_user_reader(e: &Eid) -> bool {
    matches!(e[3], 0x04 | 0x07)
}
