//! Shared plumbing of the /verif checks: command line, seeds, statistics, known findings,
//! evidence/replay files, sharding over processes, fork-per-case runner, counting allocator and a
//! small proptest driver. No check-specific logic lives here.

pub mod alloc;
pub mod fork;
pub mod pt;
pub mod wire;

use serde::{Deserialize, Serialize};
use serde_json::{Value, json};
use std::{
    collections::{BTreeMap, HashSet},
    io::Write,
    path::PathBuf,
    time::Instant,
};

pub fn verif_root() -> PathBuf {
    PathBuf::from(std::env::var("VERIF_ROOT").unwrap_or_else(|_| "/verif".to_string()))
}

#[derive(Clone, Copy, Debug, PartialEq, Eq, Serialize, Deserialize)]
pub enum Tier {
    Quick,
    Thorough,
}

impl Tier {
    pub fn as_str(&self) -> &'static str {
        match self {
            Tier::Quick => "quick",
            Tier::Thorough => "thorough",
        }
    }
}

#[derive(Clone, Debug)]
pub struct Ctx {
    pub id: String,
    pub tier: Tier,
    pub seed: u64,
    pub replay: Option<PathBuf>,
    /// (k, n): this process is shard k of n
    pub shard: Option<(u32, u32)>,
    pub t0: Instant,
    pub extra: Vec<String>,
}

impl Ctx {
    /// `<bin> <ID> <quick|thorough> [--replay <file>] [--shard k/n] [extra...]`
    pub fn from_args() -> Ctx {
        let args: Vec<String> = std::env::args().skip(1).collect();
        if args.len() < 2 {
            eprintln!("usage: <ID> <quick|thorough> [--replay <file>]");
            std::process::exit(2);
        }
        let id = args[0].clone();
        let tier = match args[1].as_str() {
            "quick" => Tier::Quick,
            "thorough" => Tier::Thorough,
            o => {
                eprintln!("unknown tier {o}");
                std::process::exit(2);
            }
        };
        let mut replay = None;
        let mut shard = None;
        let mut extra = vec![];
        let mut i = 2;
        while i < args.len() {
            match args[i].as_str() {
                "--replay" => {
                    replay = Some(PathBuf::from(&args[i + 1]));
                    i += 2;
                }
                "--shard" => {
                    let (k, n) = args[i + 1].split_once('/').expect("k/n");
                    shard = Some((k.parse().unwrap(), n.parse().unwrap()));
                    i += 2;
                }
                _ => {
                    extra.push(args[i].clone());
                    i += 1;
                }
            }
        }
        let seed = std::env::var("VERIF_SEED")
            .ok()
            .and_then(|s| s.trim().parse::<i128>().ok())
            .map(|v| v as u64)
            .unwrap_or(1);
        Ctx { id, tier, seed, replay, shard, t0: Instant::now(), extra }
    }

    pub fn pick<T>(&self, quick: T, thorough: T) -> T {
        match self.tier {
            Tier::Quick => quick,
            Tier::Thorough => thorough,
        }
    }

    pub fn shard_index(&self) -> u64 {
        self.shard.map(|s| s.0 as u64).unwrap_or(0)
    }
    pub fn shard_count(&self) -> u64 {
        self.shard.map(|s| s.1 as u64).unwrap_or(1)
    }
    /// share of `total` work items for this shard
    pub fn share(&self, total: u64) -> u64 {
        let n = self.shard_count();
        let k = self.shard_index();
        total / n + if k < total % n { 1 } else { 0 }
    }
    pub fn rng_seed(&self, stream: &str) -> u64 {
        mix(self.seed, &format!("{}/{}", self.id, stream), self.shard_index())
    }
}

/// Deterministic seed mixing (FNV-1a over the label, then splitmix64).
pub fn mix(seed: u64, label: &str, shard: u64) -> u64 {
    let mut h: u64 = 0xcbf29ce484222325;
    for b in label.as_bytes() {
        h ^= *b as u64;
        h = h.wrapping_mul(0x100000001b3);
    }
    let mut z = seed
        .wrapping_mul(0x9E3779B97F4A7C15)
        .wrapping_add(h)
        .wrapping_add(shard.wrapping_mul(0xD1B54A32D192ED03));
    z = (z ^ (z >> 30)).wrapping_mul(0xBF58476D1CE4E5B9);
    z = (z ^ (z >> 27)).wrapping_mul(0x94D049BB133111EB);
    z ^ (z >> 31)
}

pub fn hash_str(s: &str) -> u64 {
    mix(0, s, 0)
}

pub fn hash_json(v: &Value) -> u64 {
    hash_str(&v.to_string())
}

#[derive(Default, Debug, Clone, Serialize, Deserialize)]
pub struct Stats {
    pub evaluations: u64,
    /// hashes of distinct non-trivial cases
    pub nontrivial: HashSet<u64>,
    /// distinct non-trivial cases counted by construction (exhaustive enumerations)
    pub nontrivial_by_construction: u64,
    pub classes: BTreeMap<String, u64>,
    pub samples: Vec<Value>,
    pub excluded_known: BTreeMap<String, u64>,
    pub extra: BTreeMap<String, Value>,
}

pub const MAX_SAMPLES: usize = 6;

impl Stats {
    pub fn case(&mut self, key: u64, nontrivial: bool, classes: &[String]) {
        self.evaluations += 1;
        if nontrivial {
            self.nontrivial.insert(key);
        }
        for c in classes {
            *self.classes.entry(c.clone()).or_insert(0) += 1;
        }
    }
    pub fn class(&mut self, c: &str) {
        *self.classes.entry(c.to_string()).or_insert(0) += 1;
    }
    pub fn class_n(&mut self, c: &str, n: u64) {
        *self.classes.entry(c.to_string()).or_insert(0) += n;
    }
    pub fn wants_sample(&self) -> bool {
        self.samples.len() < MAX_SAMPLES
    }
    pub fn sample(&mut self, v: Value) {
        if self.samples.len() < MAX_SAMPLES {
            self.samples.push(v);
        }
    }
    pub fn distinct_nontrivial(&self) -> u64 {
        self.nontrivial.len() as u64 + self.nontrivial_by_construction
    }
    pub fn merge(&mut self, o: Stats) {
        self.evaluations += o.evaluations;
        self.nontrivial.extend(o.nontrivial);
        self.nontrivial_by_construction += o.nontrivial_by_construction;
        for (k, v) in o.classes {
            *self.classes.entry(k).or_insert(0) += v;
        }
        for (k, v) in o.excluded_known {
            *self.excluded_known.entry(k).or_insert(0) += v;
        }
        for s in o.samples {
            // interleave samples of different shards: keep at most MAX_SAMPLES
            if self.samples.len() < MAX_SAMPLES {
                self.samples.push(s);
            }
        }
        for (k, v) in o.extra {
            self.extra.entry(k).or_insert(v);
        }
    }
}

#[derive(Debug, Clone, Serialize, Deserialize)]
pub struct Failure {
    pub signature: String,
    pub what: String,
    pub case: Value,
    #[serde(default)]
    pub shrunk_from: Option<u64>,
    #[serde(default)]
    pub shrunk_to: Option<u64>,
}

#[derive(Default, Debug, Clone, Serialize, Deserialize)]
pub struct Report {
    pub stats: Stats,
    pub failures: Vec<Failure>,
    pub inconclusive: Vec<String>,
}

impl Report {
    pub fn merge(&mut self, o: Report) {
        self.stats.merge(o.stats);
        self.failures.extend(o.failures);
        self.inconclusive.extend(o.inconclusive);
    }
}

// ------------------------------------------------------------------------------------------
// known findings

#[derive(Debug, Clone, Default, Deserialize)]
pub struct KnownEntry {
    pub property: String,
    pub signature: String,
    #[serde(default)]
    pub what: String,
}

#[derive(Debug, Clone, Default, Deserialize)]
pub struct KnownFile {
    #[serde(default)]
    pub known: Vec<KnownEntry>,
    #[serde(default)]
    pub fixed: Vec<Value>,
}

#[derive(Debug, Clone, Default)]
pub struct Known {
    entries: Vec<KnownEntry>,
}

impl Known {
    /// Read-only load of /verif/known_findings.json (never written at run time).
    pub fn load(property: &str) -> Known {
        let p = verif_root().join("known_findings.json");
        let entries = match std::fs::read_to_string(&p) {
            Ok(s) => {
                let f: KnownFile = serde_json::from_str(&s).unwrap_or_else(|e| {
                    eprintln!("known_findings.json unreadable: {e}");
                    std::process::exit(2)
                });
                f.known.into_iter().filter(|e| e.property == property).collect()
            }
            Err(_) => vec![],
        };
        Known { entries }
    }
    pub fn none() -> Known {
        Known { entries: vec![] }
    }
    pub fn matches(&self, signature: &str) -> bool {
        self.entries.iter().any(|e| e.signature == signature)
    }
    pub fn what(&self, signature: &str) -> String {
        self.entries
            .iter()
            .find(|e| e.signature == signature)
            .map(|e| e.what.clone())
            .unwrap_or_default()
    }
}

// ------------------------------------------------------------------------------------------
// sharding over processes

/// Runs `body` in `n` child processes of the current executable (each with `--shard k/n`) and merges
/// their reports. When this process already is a shard, runs `body` and prints its report.
pub fn run_sharded(ctx: &Ctx, n: u32, body: impl FnOnce(&Ctx) -> Report) -> Report {
    if ctx.shard.is_some() {
        let r = body(ctx);
        let out = serde_json::to_vec(&r).unwrap();
        let path = std::env::var("VERIF_SHARD_OUT").expect("VERIF_SHARD_OUT");
        std::fs::write(&path, out).unwrap();
        std::process::exit(0);
    }
    if ctx.replay.is_some() || n <= 1 {
        return body(ctx);
    }
    let exe = std::env::current_exe().unwrap();
    let tmpdir = verif_root().join("target").join("shards");
    std::fs::create_dir_all(&tmpdir).ok();
    let mut children = vec![];
    for k in 0..n {
        let out = tmpdir.join(format!("{}-{}-{}-{}.json", ctx.id, std::process::id(), k, n));
        let mut cmd = std::process::Command::new(&exe);
        cmd.arg(&ctx.id).arg(ctx.tier.as_str()).arg("--shard").arg(format!("{k}/{n}"));
        for e in &ctx.extra {
            cmd.arg(e);
        }
        cmd.env("VERIF_SEED", (ctx.seed as i64).to_string());
        cmd.env("VERIF_SHARD_OUT", &out);
        let child = cmd.spawn().expect("spawn shard");
        children.push((k, child, out));
    }
    let mut merged = Report::default();
    for (k, mut child, out) in children {
        let st = child.wait().expect("wait shard");
        match std::fs::read(&out) {
            Ok(bytes) if st.success() => match serde_json::from_slice::<Report>(&bytes) {
                Ok(r) => merged.merge(r),
                Err(e) => merged.inconclusive.push(format!("shard {k}: bad report: {e}")),
            },
            _ => merged.inconclusive.push(format!("shard {k}: exited {st:?} without a report")),
        }
        std::fs::remove_file(&out).ok();
    }
    merged
}

// ------------------------------------------------------------------------------------------
// finishing: evidence, replay files, exit status

pub struct Meta<'a> {
    pub rule: &'a str,
    pub assumptions: &'a [&'a str],
    /// minimum number of distinct non-trivial cases below which the run is "generator degenerate"
    pub nontrivial_floor: u64,
}

pub fn write_replay(ctx: &Ctx, f: &Failure) -> PathBuf {
    let dir = verif_root().join("replay");
    std::fs::create_dir_all(&dir).ok();
    let h = hash_str(&format!("{}{}", f.signature, f.case));
    let path = dir.join(format!("{}-{:016x}.json", ctx.id, h));
    let v = json!({
        "property": ctx.id,
        "signature": f.signature,
        "what": f.what,
        "seed": ctx.seed as i64,
        "tier": ctx.tier.as_str(),
        "case": f.case,
    });
    std::fs::write(&path, serde_json::to_vec_pretty(&v).unwrap()).unwrap();
    path
}

/// Saved regression cases of a property: `$VERIF_REGRESS/<ID>/*.json` (default `/verif/regress`),
/// each either a replay file (`{"case": ..}`) or a bare case. They are re-evaluated at the start of
/// every campaign, before generated cases (fixed defects live in tiny regions of the input space).
pub fn regress_cases(id: &str) -> Vec<(String, Value)> {
    let dir = std::env::var("VERIF_REGRESS").map(PathBuf::from).unwrap_or_else(|_| PathBuf::from("/verif/regress")).join(id);
    let mut names: Vec<PathBuf> = match std::fs::read_dir(&dir) {
        Ok(rd) => rd.filter_map(|e| e.ok().map(|e| e.path())).filter(|p| p.extension().map(|x| x == "json").unwrap_or(false)).collect(),
        Err(_) => return vec![],
    };
    names.sort();
    names.into_iter().map(|p| (p.file_name().unwrap().to_string_lossy().into_owned(), load_replay(&p))).collect()
}

pub fn load_replay(path: &std::path::Path) -> Value {
    let s = std::fs::read_to_string(path).unwrap_or_else(|e| {
        eprintln!("cannot read replay file {path:?}: {e}");
        std::process::exit(2)
    });
    let v: Value = serde_json::from_str(&s).unwrap_or_else(|e| {
        eprintln!("replay file is not JSON: {e}");
        std::process::exit(2)
    });
    v.get("case").cloned().unwrap_or(v)
}

pub fn finish(ctx: &Ctx, meta: Meta, report: Report) -> ! {
    let known = Known::load(&ctx.id);
    let mut out = std::io::stdout();
    for (sig, n) in &report.stats.excluded_known {
        let _ = writeln!(
            out,
            "KNOWN-FINDING: property={} signature={} cases={} {}",
            ctx.id,
            sig,
            n,
            known.what(sig)
        );
    }
    // group failures by signature: one replay file per signature (smallest case)
    let mut by_sig: BTreeMap<String, Failure> = BTreeMap::new();
    let mut inconclusive = report.inconclusive.clone();
    for f in &report.failures {
        if f.signature.starts_with("harness:") {
            inconclusive.push(format!("{}: {}", f.signature, f.what));
            continue;
        }
        let size = f.case.to_string().len();
        match by_sig.get(&f.signature) {
            Some(g) if g.case.to_string().len() <= size => {}
            _ => {
                by_sig.insert(f.signature.clone(), f.clone());
            }
        }
    }
    let mut violations = 0;
    let mut violation_list = vec![];
    for (_, f) in &by_sig {
        let path = write_replay(ctx, f);
        let _ = writeln!(out, "VIOLATION property={} replay={}", ctx.id, path.display());
        let _ = writeln!(out, "  signature: {}", f.signature);
        let _ = writeln!(out, "  what: {}", f.what);
        violations += 1;
        violation_list.push(json!({"signature": f.signature, "what": f.what, "replay": path,
            "shrunk_from": f.shrunk_from, "shrunk_to": f.shrunk_to}));
    }
    let distinct = report.stats.distinct_nontrivial();
    if violations == 0 && ctx.replay.is_none() && distinct < meta.nontrivial_floor.max(2) {
        inconclusive.push(format!(
            "generator degenerate: {} distinct non-trivial cases < floor {}",
            distinct, meta.nontrivial_floor
        ));
    }
    if ctx.replay.is_none() {
        let wall = ctx.t0.elapsed().as_secs_f64();
        let mut coverage = serde_json::Map::new();
        coverage.insert("evaluations".into(), json!(report.stats.evaluations));
        coverage.insert("distinct_nontrivial".into(), json!(distinct));
        coverage.insert("rule".into(), json!(meta.rule));
        coverage.insert("samples".into(), json!(report.stats.samples));
        coverage.insert("classes".into(), json!(report.stats.classes));
        coverage.insert("excluded_known".into(), json!(report.stats.excluded_known));
        for (k, v) in &report.stats.extra {
            coverage.insert(k.clone(), v.clone());
        }
        if !violation_list.is_empty() {
            coverage.insert("violation_list".into(), json!(violation_list));
        }
        if !inconclusive.is_empty() {
            coverage.insert("inconclusive".into(), json!(inconclusive));
        }
        let ev = json!({
            "property_id": ctx.id,
            "tier": ctx.tier.as_str(),
            "seed": ctx.seed as i64,
            "level": "exploration",
            "coverage": Value::Object(coverage),
            "assumptions": meta.assumptions,
            "wall_s": wall,
            "violations": violations,
        });
        let dir = verif_root().join("evidence");
        std::fs::create_dir_all(&dir).ok();
        // a second engine contributing to the same property writes <ID>.<suffix>.json; the dispatcher merges it
        let suffix = std::env::var("VERIF_EVIDENCE_SUFFIX").map(|s| format!(".{s}")).unwrap_or_default();
        let path = dir.join(format!("{}{}.json", ctx.id, suffix));
        std::fs::write(&path, serde_json::to_vec_pretty(&ev).unwrap()).unwrap();
        let _ = writeln!(
            out,
            "{} {}: evaluations={} distinct_nontrivial={} known_excluded={} violations={} wall={:.1}s",
            ctx.id,
            ctx.tier.as_str(),
            report.stats.evaluations,
            distinct,
            report.stats.excluded_known.values().sum::<u64>(),
            violations,
            wall
        );
    }
    let _ = out.flush();
    if violations > 0 {
        std::process::exit(1);
    }
    if !inconclusive.is_empty() {
        for i in &inconclusive {
            eprintln!("INCONCLUSIVE: {i}");
        }
        std::process::exit(2);
    }
    std::process::exit(0);
}
