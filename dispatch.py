#!/usr/bin/env python3
"""./check dispatcher: maps a property id to its engine binary, rebuilds it from /repo's working tree, runs it."""
import os, subprocess, sys

ROOT = os.environ.get("VERIF_ROOT", "/verif")
# cargo output: CARGO_TARGET_DIR if set, else the directory configured in /verif/.cargo/config.toml
TARGET = os.environ.get("CARGO_TARGET_DIR", "/verif/target")
SIM = {"C01", "C02", "C03", "C04", "C05", "C06", "C15", "C16", "C17", "C18", "C19", "C20", "C21", "C22", "C23",
       "C24", "C25", "C26", "C27", "C28", "C29", "C30", "C31", "C32", "C33", "C35", "C36", "C37"}
CODEC = {"C08", "C14", "C38"}
XCDR = {"C09", "C10", "C11", "C12", "C39"}
DISC = {"C07", "C13"}
ENGINE = {}
for p in SIM: ENGINE[p] = "sim"
for p in ("C28", "C35", "C36", "C37"): ENGINE[p] = "sim_entity"
for p in ("C30", "C31", "C32", "C33"): ENGINE[p] = "sim_status"
for p in CODEC: ENGINE[p] = "codec"
for p in XCDR: ENGINE[p] = "xcdr"
for p in DISC: ENGINE[p] = "disc"
ENGINE["C34"] = "chan"
ENGINE["C42"] = "rt"
ENGINE["C40"] = "gen"
ENGINE["C41"] = "gen"
# properties with additional halves run by other engines: (engine, evidence suffix, label). The halves are merged
# into one evidence file; the property is violated if any half reports a violation.
EXTRA = {"C11": [("sim", "e2e", "END-TO-END HALF (simulation)")]}
try:
    import json as _json
    for _pid, _lst in _json.load(open(os.path.join(os.path.dirname(os.path.abspath(__file__)), "tools", "extra_halves.json"))).items():
        EXTRA.setdefault(_pid, []).extend(tuple(x) for x in _lst)
except FileNotFoundError:
    pass


def main():
    pid, tier, rest = sys.argv[1], sys.argv[2], sys.argv[3:]
    eng = ENGINE.get(pid)
    if eng is None:
        print(f"unknown property {pid}", file=sys.stderr)
        return 2
    env = dict(os.environ, CARGO_NET_OFFLINE="true", VERIF_ROOT=os.environ.get("VERIF_SCRATCH_ROOT", ROOT),
               VERIF_REGRESS=os.path.join(ROOT, "regress"))
    b = subprocess.run(["cargo", "build", "--release", "-q", "-p", eng], cwd=ROOT, env=env,
                       stdout=subprocess.PIPE, stderr=subprocess.STDOUT, text=True)
    if b.returncode != 0:
        print(b.stdout[-6000:])
        print(f"INCONCLUSIVE: build of engine {eng} failed", file=sys.stderr)
        return 2
    exe = os.path.join(TARGET, "release", eng)
    r = subprocess.run([exe, pid, tier] + rest, cwd=ROOT, env=env)
    if r.returncode < 0:
        print(f"INCONCLUSIVE: engine killed by signal {-r.returncode}", file=sys.stderr)
        return 2
    rc = r.returncode
    # further engines contributing a half to the same property (not for replays: a replay file belongs to
    # the engine that wrote it; the other engines are tried if the first cannot load it)
    extras = EXTRA.get(pid, [])
    if extras and not rest:
        import json
        for (extra, suffix, label) in extras:
            b2 = subprocess.run(["cargo", "build", "--release", "-q", "-p", extra], cwd=ROOT, env=env,
                                stdout=subprocess.PIPE, stderr=subprocess.STDOUT, text=True)
            if b2.returncode != 0:
                print(b2.stdout[-4000:])
                print(f"INCONCLUSIVE: build of engine {extra} failed", file=sys.stderr)
                rc = rc if rc == 1 else 2
                continue
            env2 = dict(env, VERIF_EVIDENCE_SUFFIX=suffix)
            r2 = subprocess.run([os.path.join(TARGET, "release", extra), pid, tier], cwd=ROOT, env=env2)
            rc2 = 2 if r2.returncode < 0 else r2.returncode
            evroot = env["VERIF_ROOT"]
            main_p = os.path.join(evroot, "evidence", f"{pid}.json")
            half_p = os.path.join(evroot, "evidence", f"{pid}.{suffix}.json")
            try:
                m = json.load(open(main_p))
                e = json.load(open(half_p))
                key = "e2e_simulation" if suffix == "e2e" else f"{suffix}_half"
                m["coverage"][key] = e["coverage"]
                m["coverage"]["evaluations"] = m["coverage"].get("evaluations", 0) + e["coverage"].get("evaluations", 0)
                m["coverage"]["distinct_nontrivial"] = m["coverage"].get("distinct_nontrivial", 0) + e["coverage"].get("distinct_nontrivial", 0)
                m["coverage"]["rule"] = m["coverage"].get("rule", "") + f" || {label}: " + e["coverage"].get("rule", "")
                m["wall_s"] = m.get("wall_s", 0) + e.get("wall_s", 0)
                m["violations"] = m.get("violations", 0) + e.get("violations", 0)
                json.dump(m, open(main_p, "w"), indent=1)
                os.remove(half_p)
            except Exception as ex:
                print(f"INCONCLUSIVE: could not merge evidence: {ex}", file=sys.stderr)
                rc2 = max(rc2, 2) if rc2 != 1 else 1
            if rc == 1 or rc2 == 1:
                rc = 1
            else:
                rc = max(rc, rc2)
        return rc
    if extras and rest and rc == 2:
        for (extra, suffix, label) in extras:
            r2 = subprocess.run([os.path.join(TARGET, "release", extra), pid, tier] + rest, cwd=ROOT, env=env)
            rc = 2 if r2.returncode < 0 else r2.returncode
            if rc != 2:
                break
        return rc
    return rc


if __name__ == "__main__":
    sys.exit(main())
