#!/usr/bin/env python3
"""./check dispatcher: maps a property id to its engine binary, rebuilds it from /repo's working tree, runs it."""
import os, subprocess, sys

ROOT = os.environ.get("VERIF_ROOT", "/verif")
SIM = {"C01", "C02", "C03", "C04", "C05", "C06", "C15", "C16", "C17", "C18", "C19", "C20", "C21", "C22", "C23",
       "C24", "C25", "C26", "C27", "C28", "C29", "C30", "C31", "C32", "C33", "C35", "C36", "C37"}
CODEC = {"C08", "C14", "C38"}
XCDR = {"C09", "C10", "C11", "C12", "C39"}
DISC = {"C07", "C13"}
ENGINE = {}
for p in SIM: ENGINE[p] = "sim"
for p in ("C28", "C35", "C36", "C37"): ENGINE[p] = "sim_entity"
for p in ("C30", "C31", "C32", "C33"): ENGINE[p] = "sim_status"
for p in CODEC: ENGINE[p] = "codec"
for p in XCDR: ENGINE[p] = "xcdr"
for p in DISC: ENGINE[p] = "disc"
ENGINE["C34"] = "chan"
ENGINE["C42"] = "rt"
ENGINE["C40"] = "gen"
ENGINE["C41"] = "gen"


def main():
    pid, tier, rest = sys.argv[1], sys.argv[2], sys.argv[3:]
    eng = ENGINE.get(pid)
    if eng is None:
        print(f"unknown property {pid}", file=sys.stderr)
        return 2
    env = dict(os.environ, CARGO_NET_OFFLINE="true", VERIF_ROOT=ROOT)
    b = subprocess.run(["cargo", "build", "--release", "-q", "-p", eng], cwd=ROOT, env=env,
                       stdout=subprocess.PIPE, stderr=subprocess.STDOUT, text=True)
    if b.returncode != 0:
        print(b.stdout[-6000:])
        print(f"INCONCLUSIVE: build of engine {eng} failed", file=sys.stderr)
        return 2
    exe = os.path.join(ROOT, "target", "release", eng)
    r = subprocess.run([exe, pid, tier] + rest, cwd=ROOT, env=env)
    if r.returncode < 0:
        print(f"INCONCLUSIVE: engine killed by signal {-r.returncode}", file=sys.stderr)
        return 2
    return r.returncode


if __name__ == "__main__":
    sys.exit(main())
