//! Scenario model, harness ("the network and the two participants' message receivers") and oracles.
//!
//! One `RtpsStatefulWriter` in participant W, one or two `RtpsStatefulReader`s in participant(s) R0/R1. The harness is
//! the transport (`WriteMessage`: every datagram goes to a sent log and an in-flight queue), the clock (virtual) and the
//! message receiver of each participant: a datagram is parsed with `RtpsMessageRead::try_from`, iterated with dust-dds'
//! own `MessageReceiver` and dispatched exactly like `DcpsDomainParticipant::handle_data` does (same calls, same
//! validity pre-checks; `communication_methods.rs`).

use std::{
    cell::{Cell, RefCell},
    collections::{BTreeMap, BTreeSet},
    rc::Rc,
    sync::Arc,
};

use dust_dds::{
    infrastructure::time::Time,
    rtps::{
        message_receiver::MessageReceiver, stateful_reader::RtpsStatefulReader,
        stateful_writer::RtpsStatefulWriter,
    },
    rtps_messages::overall_structure::{RtpsMessageRead, RtpsSubmessageReadKind},
    runtime::Clock,
    transport::{
        interface::WriteMessage,
        types::{
            CacheChange, ChangeKind, DurabilityKind, ENTITYID_UNKNOWN, EntityId, Guid, Locator,
            ReaderProxy, ReliabilityKind, WriterProxy,
        },
    },
};
use serde::{Deserialize, Serialize};
use vcore::pt::idx;

pub const HB_PERIOD_MS: i64 = 200;
pub const HEAL_ROUNDS: u32 = 200;
/// deliveries allowed in one case (a message storm ends the case; the oracle judges what was presented)
pub const DELIVERY_BOUND: u64 = 50_000;
pub const TICKS_MS: [i64; 8] = [0, 1, 50, 199, 200, 201, 400, 1000];

pub const W_PREFIX: [u8; 12] = [1; 12];
const W_PORT: u32 = 7000;
const R_PORT: u32 = 7100;

pub fn writer_guid() -> Guid {
    Guid::new(W_PREFIX, EntityId::new([0, 0, 1], 0x02))
}
pub fn reader_prefix(i: usize, colocated: bool) -> [u8; 12] {
    if colocated { [2; 12] } else { [2 + i as u8; 12] }
}
pub fn reader_guid(i: usize, colocated: bool) -> Guid {
    Guid::new(reader_prefix(i, colocated), EntityId::new([0, 0, 1 + i as u8], 0x07))
}
fn locator(port: u32) -> Locator {
    Locator::new(1, port, [0, 0, 0, 0, 0, 0, 0, 0, 0, 0, 0, 0, 127, 0, 0, 1])
}

// ------------------------------------------------------------------------------------------------------------
// scenario

#[derive(Clone, Debug, PartialEq, Eq, Serialize, Deserialize)]
pub enum Ev {
    /// deliver the in-flight datagram at queue position idx(choice, len) (0 = oldest = no fault)
    Deliver(u16),
    /// publish the next sample of `sizes` (no-op when all are published)
    Publish,
    /// lose the in-flight datagram at that position
    Drop(u16),
    /// deliver a copy of the in-flight datagram at that position and leave it in flight
    Dup(u16),
    /// deliver a copy of datagram #id of the sent log (no-op if not sent yet); the queue is untouched
    Redeliver(u16),
    /// lose everything that is in flight
    Clear,
    /// advance virtual time by TICKS_MS[idx(choice)] and run the writer's periodic `write_message`
    Tick(u16),
    /// KEEP_LAST rule of a reliable DCPS writer: remove the oldest held sample iff `is_change_acknowledged`
    RemoveAcked,
    /// remove the held sample at idx(choice, held) unconditionally (lifespan expiry / best-effort KEEP_LAST)
    RemoveForce(u16),
}

#[derive(Clone, Debug, PartialEq, Eq, Serialize, Deserialize)]
pub struct Scenario {
    /// marks replay files of this engine
    pub engine: String,
    pub prop: String,
    /// fragment size = data_max_size_serialized of the writer (accepted range of the transport: 8..=65000)
    pub frag: u32,
    /// reliability of each reader (1-2 readers); the writer's proxy for a reader has the reader's kind
    pub readers: Vec<bool>,
    /// both readers live in the same participant (same GUID prefix, same locator: each sees the other's datagrams)
    pub colocated: bool,
    /// payload sizes of the publications, in order (sequence number = index + 1)
    pub sizes: Vec<u32>,
    pub tape: Vec<Ev>,
}

/// Every byte depends on the sequence number and on its offset: a missing, repeated or misplaced fragment shows.
pub fn payload(sn: i64, len: usize) -> Arc<[u8]> {
    let s = (sn as u64).wrapping_mul(0x9E37_79B9).wrapping_add(0x5bd1);
    (0..len as u64)
        .map(|o| {
            let x = s.wrapping_add(o.wrapping_mul(0x85EB_CA6B)).wrapping_add(o >> 3);
            ((x ^ (x >> 15) ^ (x >> 29)) & 0xff) as u8
        })
        .collect()
}

// ------------------------------------------------------------------------------------------------------------
// transport + clock

pub const M_DATA: u16 = 1;
pub const M_DATA_FRAG: u16 = 2;
pub const M_HB: u16 = 4;
pub const M_ACKNACK_BITS: u16 = 8;
pub const M_ACKNACK_EMPTY: u16 = 16;
pub const M_NACK_FRAG: u16 = 32;
pub const M_GAP: u16 = 64;
pub const M_HB_FRAG: u16 = 128;

#[derive(Clone)]
pub struct Dg {
    pub bytes: Rc<[u8]>,
    pub port: u32,
    pub mask: u16,
    /// writerSN of the (last) DATA / DATA_FRAG submessage, 0 if none
    pub sn: i64,
    /// fragmentStartingNum of the (last) DATA_FRAG submessage, 0 if none
    pub frag_no: u32,
}

/// Submessage kinds of a datagram, read from the submessage headers only (RTPS 2.x §8.3.3/§9.4.5).
pub fn scan(b: &[u8]) -> (u16, i64, u32) {
    let mut mask = 0;
    let mut sn = 0i64;
    let mut frag_no = 0u32;
    if b.len() < 20 || &b[0..4] != b"RTPS" {
        return (0, 0, 0);
    }
    let mut p = 20;
    while p + 4 <= b.len() {
        let id = b[p];
        let le = b[p + 1] & 1 == 1;
        let len = if le { u16::from_le_bytes([b[p + 2], b[p + 3]]) } else { u16::from_be_bytes([b[p + 2], b[p + 3]]) } as usize;
        let body = p + 4;
        let end = if len == 0 && id != 0x01 && id != 0x09 { b.len() } else { (body + len).min(b.len()) };
        let u32_at = |o: usize| -> u32 {
            if o + 4 > b.len() {
                return 0;
            }
            let x = [b[o], b[o + 1], b[o + 2], b[o + 3]];
            if le { u32::from_le_bytes(x) } else { u32::from_be_bytes(x) }
        };
        match id {
            // extraFlags 2, octetsToInlineQos 2, readerId 4, writerId 4, writerSN 8 (high, low), [fragmentStartingNum 4]
            0x15 => {
                mask |= M_DATA;
                sn = ((u32_at(body + 12) as i32 as i64) << 32) | u32_at(body + 16) as i64;
            }
            0x16 => {
                mask |= M_DATA_FRAG;
                sn = ((u32_at(body + 12) as i32 as i64) << 32) | u32_at(body + 16) as i64;
                frag_no = u32_at(body + 20);
            }
            0x07 => mask |= M_HB,
            0x08 => mask |= M_GAP,
            0x12 => mask |= M_NACK_FRAG,
            0x13 => mask |= M_HB_FRAG,
            0x06 => {
                // readerId 4, writerId 4, bitmapBase 8, numBits 4, bitmap 4*M, count 4
                let mut bits = false;
                if body + 20 <= end {
                    let nb = &b[body + 16..body + 20];
                    let num_bits = if le { u32::from_le_bytes([nb[0], nb[1], nb[2], nb[3]]) } else { u32::from_be_bytes([nb[0], nb[1], nb[2], nb[3]]) };
                    let words = num_bits.div_ceil(32) as usize;
                    let from = body + 20;
                    let to = (from + 4 * words).min(end);
                    bits = b[from..to].iter().any(|x| *x != 0);
                }
                mask |= if bits { M_ACKNACK_BITS } else { M_ACKNACK_EMPTY };
            }
            _ => {}
        }
        if end <= p {
            break;
        }
        p = end;
    }
    (mask, sn, frag_no)
}

#[derive(Default)]
pub struct Net {
    pub log: RefCell<Vec<Dg>>,
    pub queue: RefCell<Vec<usize>>,
}

impl WriteMessage for Net {
    fn write_message(&self, buf: &[u8], locators: &[Locator]) {
        let bytes: Rc<[u8]> = Rc::from(buf);
        let (mask, sn, frag_no) = scan(buf);
        for l in locators {
            let mut log = self.log.borrow_mut();
            self.queue.borrow_mut().push(log.len());
            log.push(Dg { bytes: bytes.clone(), port: l.port(), mask, sn, frag_no });
        }
    }
}

pub struct VClock(pub Cell<i64>);
impl Clock for VClock {
    fn now(&self) -> Time {
        let ns = self.0.get();
        Time::new((ns / 1_000_000_000) as i32, (ns % 1_000_000_000) as u32)
    }
}

// ------------------------------------------------------------------------------------------------------------
// world

#[derive(Clone, Debug)]
pub struct Pres {
    pub sn: i64,
    pub len: usize,
    /// payload byte-identical to the published one, kind ALIVE, writer GUID right (false also when never published)
    pub intact: bool,
    pub published: bool,
}

pub struct Rd {
    pub reader: RtpsStatefulReader,
    pub port: u32,
    pub reliable: bool,
    pub presented: Vec<Pres>,
}

#[derive(Default, Clone, Debug)]
pub struct Flags {
    pub data_drop: bool,
    pub data_dup: bool,
    pub data_reorder: bool,
    pub frag_drop: bool,
    pub frag_dup: bool,
    pub frag_reorder: bool,
    pub fragmented_on_wire: bool,
    pub repair_acknack: bool,
    pub repair_nack_frag: bool,
    pub repair_gap: bool,
    pub unparseable: u32,
    pub storm: bool,
    pub heal_rounds: u32,
    pub removed_forced: u32,
    /// a fragmented sample was removed from the writer history before every reliable reader had presented it
    pub gapped_frag: bool,
    pub removed_acked: u32,
    pub remove_acked_refused: u32,
    pub interleaved_frags: bool,
}

pub struct World {
    pub net: Net,
    pub clock: VClock,
    pub writer: RtpsStatefulWriter,
    pub readers: Vec<Rd>,
    pub frag: usize,
    pub sizes: Vec<u32>,
    /// payloads of the samples published so far (index = sn - 1)
    pub published: Vec<Arc<[u8]>>,
    pub held: BTreeSet<i64>,
    /// samples removed under the acknowledged-only rule: the writer said every reliable reader has them
    pub acked_removed: BTreeSet<i64>,
    /// deliveries per datagram id
    pub delivered: Vec<u32>,
    /// per port: highest id of a DATA/DATA_FRAG datagram delivered so far
    pub max_data_id: BTreeMap<u32, usize>,
    pub deliveries: u64,
    pub flags: Flags,
    /// sequence number of the last DATA_FRAG delivered per port (interleaving classification)
    last_frag_sn: BTreeMap<u32, i64>,
    colocated: bool,
    /// best-effort reassembly bookkeeping per (port, sn): fragment numbers delivered, poisoned, complete
    be_frags: BTreeMap<(u32, i64), (BTreeSet<u32>, bool, bool)>,
    /// per port: highest sequence number of a sample that arrived completely (DATA, or all fragments of it)
    be_max_complete: BTreeMap<u32, i64>,
    /// per port: fragmented samples a best-effort reader must present: every fragment arrived (in any order, any
    /// multiplicity, interleaved or not) and no later sample had arrived completely before
    pub be_must: BTreeMap<u32, BTreeSet<i64>>,
}

impl World {
    pub fn new(sc: &Scenario) -> World {
        let frag = sc.frag as usize;
        let mut writer = RtpsStatefulWriter::new(writer_guid(), frag);
        let mut readers = vec![];
        for (i, &reliable) in sc.readers.iter().enumerate() {
            let kind = if reliable { ReliabilityKind::Reliable } else { ReliabilityKind::BestEffort };
            let guid = reader_guid(i, sc.colocated);
            let port = if sc.colocated { R_PORT } else { R_PORT + i as u32 };
            // as DcpsDomainParticipant::add_discovered_reader builds it: the reader's own reliability/durability
            writer.add_matched_reader(ReaderProxy {
                remote_reader_guid: guid,
                remote_group_entity_id: ENTITYID_UNKNOWN,
                reliability_kind: kind,
                durability_kind: DurabilityKind::Volatile,
                unicast_locator_list: vec![locator(port)],
                multicast_locator_list: vec![],
                expects_inline_qos: false,
            });
            let mut reader = RtpsStatefulReader::new(guid, kind);
            // as add_discovered_writer builds it: reliability_kind is the READER's reliability
            reader.add_matched_writer(&WriterProxy {
                remote_writer_guid: writer_guid(),
                remote_group_entity_id: ENTITYID_UNKNOWN,
                reliability_kind: kind,
                durability_kind: DurabilityKind::Volatile,
                unicast_locator_list: vec![locator(W_PORT)],
                multicast_locator_list: vec![],
            });
            readers.push(Rd { reader, port, reliable, presented: vec![] });
        }
        World {
            net: Net::default(),
            clock: VClock(Cell::new(1_000_000_000_000)),
            writer,
            readers,
            frag,
            sizes: sc.sizes.clone(),
            published: vec![],
            held: BTreeSet::new(),
            acked_removed: BTreeSet::new(),
            delivered: vec![],
            max_data_id: BTreeMap::new(),
            deliveries: 0,
            flags: Flags::default(),
            last_frag_sn: BTreeMap::new(),
            colocated: sc.colocated,
            be_frags: BTreeMap::new(),
            be_max_complete: BTreeMap::new(),
            be_must: BTreeMap::new(),
        }
    }

    pub fn publish(&mut self) {
        let k = self.published.len();
        if k >= self.sizes.len() {
            return;
        }
        let sn = k as i64 + 1;
        let data = payload(sn, self.sizes[k] as usize);
        self.published.push(data.clone());
        self.held.insert(sn);
        let now = self.clock.now();
        self.writer.add_change(
            CacheChange {
                kind: ChangeKind::Alive,
                writer_guid: writer_guid(),
                sequence_number: sn,
                source_timestamp: Some(dust_dds::transport::types::Time::new(now.sec(), now.nanosec())),
                instance_handle: Some([7; 16]),
                data_value: data,
            },
            &self.net,
            &self.clock,
        );
    }

    pub fn tick(&mut self, ms: i64) {
        self.clock.0.set(self.clock.0.get() + ms * 1_000_000);
        self.writer.write_message(&self.net, &self.clock);
    }

    fn queue_len(&self) -> usize {
        self.net.queue.borrow().len()
    }

    pub fn apply(&mut self, ev: &Ev) {
        match ev {
            Ev::Publish => self.publish(),
            Ev::Deliver(c) => {
                let n = self.queue_len();
                if n > 0 {
                    let id = self.net.queue.borrow_mut().remove(idx(*c, n));
                    self.deliver(id);
                }
            }
            Ev::Drop(c) => {
                let n = self.queue_len();
                if n > 0 {
                    self.net.queue.borrow_mut().remove(idx(*c, n));
                }
            }
            Ev::Dup(c) => {
                let n = self.queue_len();
                if n > 0 {
                    let id = self.net.queue.borrow()[idx(*c, n)];
                    self.deliver(id);
                }
            }
            Ev::Redeliver(id) => {
                if (*id as usize) < self.net.log.borrow().len() {
                    self.deliver(*id as usize);
                }
            }
            Ev::Clear => self.net.queue.borrow_mut().clear(),
            Ev::Tick(c) => self.tick(TICKS_MS[idx(*c, TICKS_MS.len())]),
            Ev::RemoveAcked => {
                if let Some(&sn) = self.held.iter().next() {
                    if self.writer.is_change_acknowledged(sn) {
                        self.writer.remove_change(sn);
                        self.held.remove(&sn);
                        self.acked_removed.insert(sn);
                        self.flags.removed_acked += 1;
                    } else {
                        self.flags.remove_acked_refused += 1;
                    }
                }
            }
            Ev::RemoveForce(c) => {
                let n = self.held.len();
                if n > 0 {
                    let sn = *self.held.iter().nth(idx(*c, n)).unwrap();
                    self.writer.remove_change(sn);
                    self.held.remove(&sn);
                    self.flags.removed_forced += 1;
                    if self.published[sn as usize - 1].len() > self.frag
                        && self.readers.iter().any(|r| r.reliable && !r.presented.iter().any(|p| p.sn == sn))
                    {
                        self.flags.gapped_frag = true;
                    }
                }
            }
        }
    }

    pub fn deliver(&mut self, id: usize) {
        let dg = self.net.log.borrow()[id].clone();
        if self.delivered.len() <= id {
            self.delivered.resize(id + 1, 0);
        }
        self.delivered[id] += 1;
        self.deliveries += 1;
        let is_data = dg.mask & (M_DATA | M_DATA_FRAG) != 0;
        let is_frag = dg.mask & M_DATA_FRAG != 0;
        if is_data {
            if self.delivered[id] > 1 {
                self.flags.data_dup = true;
                if is_frag {
                    self.flags.frag_dup = true;
                }
            }
            let m = self.max_data_id.entry(dg.port).or_insert(id);
            if id < *m {
                self.flags.data_reorder = true;
                if is_frag {
                    self.flags.frag_reorder = true;
                }
            } else {
                *m = id;
            }
        }
        if dg.port != W_PORT && !self.colocated {
            self.track_best_effort(&dg);
        }
        if dg.port == W_PORT {
            self.to_writer(&dg.bytes);
        } else {
            for i in 0..self.readers.len() {
                if self.readers[i].port == dg.port {
                    self.to_reader(i, &dg.bytes, dg.port);
                }
            }
        }
    }

    /// Ground truth for the C05 demand on a BEST_EFFORT reader (one reader per participant): which fragmented samples
    /// have arrived completely while nothing later had.
    fn track_best_effort(&mut self, dg: &Dg) {
        let port = dg.port;
        if !self.readers.iter().any(|r| r.port == port && !r.reliable) {
            return;
        }
        if dg.mask & (M_GAP | M_HB) != 0 {
            // these may legitimately move the reader forward: no demand on what is incomplete now
            for ((p, _), e) in self.be_frags.iter_mut() {
                if *p == port && !e.2 {
                    e.1 = true;
                }
            }
        }
        let sn = dg.sn;
        if sn < 1 || sn as usize > self.published.len() {
            return;
        }
        let maxc = self.be_max_complete.get(&port).copied().unwrap_or(0);
        if dg.mask & M_DATA != 0 {
            self.be_max_complete.insert(port, maxc.max(sn));
        } else if dg.mask & M_DATA_FRAG != 0 {
            let total = self.published[sn as usize - 1].len().div_ceil(self.frag) as u32;
            let e = self.be_frags.entry((port, sn)).or_insert_with(|| (BTreeSet::new(), false, false));
            if e.2 {
                return;
            }
            if maxc > sn {
                e.1 = true;
            }
            if dg.frag_no >= 1 && dg.frag_no <= total {
                e.0.insert(dg.frag_no);
            }
            if e.0.len() as u32 == total {
                e.2 = true;
                if !e.1 {
                    self.be_must.entry(port).or_default().insert(sn);
                }
                self.be_max_complete.insert(port, maxc.max(sn));
            }
        }
    }

    /// `handle_data` of the writer's participant (it has no readers): ACKNACK and NACK_FRAG go to the writer.
    fn to_writer(&mut self, bytes: &[u8]) {
        let Ok(msg) = RtpsMessageRead::try_from(bytes) else {
            self.flags.unparseable += 1;
            return;
        };
        let mut mr = MessageReceiver::new(&msg);
        while let Some(sub) = mr.next() {
            match sub {
                RtpsSubmessageReadKind::AckNack(a) => {
                    self.writer.on_acknack_submessage_received(a, mr.source_guid_prefix(), &self.net, &self.clock);
                }
                RtpsSubmessageReadKind::NackFrag(n) => {
                    self.writer.on_nack_frag_submessage_received(n, mr.source_guid_prefix(), &self.net);
                }
                _ => {}
            }
        }
    }

    /// `handle_data` of a reader's participant (it has no writers), for reader `i` of its data reader list.
    fn to_reader(&mut self, i: usize, bytes: &[u8], port: u32) {
        let Ok(msg) = RtpsMessageRead::try_from(bytes) else {
            self.flags.unparseable += 1;
            return;
        };
        let rd = &mut self.readers[i];
        let mut mr = MessageReceiver::new(&msg);
        while let Some(sub) = mr.next() {
            match sub {
                RtpsSubmessageReadKind::Data(d) => {
                    rd.reader.on_data_submessage(d, mr.source_guid_prefix(), mr.source_timestamp());
                }
                RtpsSubmessageReadKind::DataFrag(d) => {
                    let sn = d.writer_sn();
                    if let Some(prev) = self.last_frag_sn.insert(port, sn) {
                        if prev != sn {
                            self.flags.interleaved_frags = true;
                        }
                    }
                    rd.reader.on_data_frag_submessage(d, mr.source_guid_prefix(), mr.source_timestamp());
                }
                RtpsSubmessageReadKind::Gap(g) => {
                    // handle_gap_submessage
                    if g.gap_start() <= 0 || g.gap_list().base() <= 0 {
                        continue;
                    }
                    let wg = Guid::new(mr.source_guid_prefix(), g.writer_id());
                    if let Some(wp) = rd.reader.matched_writer_lookup(wg) {
                        wp.irrelevant_change_range_set(g.gap_start(), g.gap_list().base() - 1);
                        for sn in g.gap_list().set() {
                            wp.irrelevant_change_set(sn)
                        }
                    }
                }
                RtpsSubmessageReadKind::Heartbeat(h) => {
                    // handle_heartbeat_submessage
                    if h.first_sn() <= 0 || h.last_sn() < h.first_sn() - 1 {
                        continue;
                    }
                    let wg = Guid::new(mr.source_guid_prefix(), h.writer_id());
                    let rg = rd.reader.guid();
                    if let Some(wp) = rd.reader.matched_writer_lookup(wg) {
                        if wp.last_received_heartbeat_count() < h.count() {
                            wp.set_last_received_heartbeat_count(h.count());
                            wp.missing_changes_update(h.last_sn());
                            wp.lost_changes_update(h.first_sn());
                            let must = !h.final_flag() || (!h.liveliness_flag() && wp.missing_changes().count() > 0);
                            wp.set_must_send_acknacks(must);
                            wp.write_message(&rg, &self.net);
                        }
                    }
                }
                RtpsSubmessageReadKind::HeartbeatFrag(h) => {
                    let wg = Guid::new(mr.source_guid_prefix(), h.writer_id());
                    if let Some(wp) = rd.reader.matched_writer_lookup(wg) {
                        if wp.last_received_heartbeat_count() < h.count() {
                            wp.set_last_received_heartbeat_frag_count(h.count());
                        }
                    }
                }
                // no writers in this participant
                _ => {}
            }
        }
        // process_user_defined_received_cache_changes: the DCPS layer takes what the RTPS reader presents
        for ch in rd.reader.changes_mut().drain(..) {
            let k = ch.sequence_number;
            let published = k >= 1 && (k as usize) <= self.published.len();
            let intact = published
                && ch.kind == ChangeKind::Alive
                && ch.writer_guid == writer_guid()
                && ch.data_value.as_ref() == self.published[k as usize - 1].as_ref();
            rd.presented.push(Pres { sn: k, len: ch.data_value.len(), intact, published });
        }
    }

    fn flush(&mut self) {
        loop {
            let id = {
                let mut q = self.net.queue.borrow_mut();
                if q.is_empty() {
                    break;
                }
                q.remove(0)
            };
            self.deliver(id);
            if self.deliveries > DELIVERY_BOUND {
                self.flags.storm = true;
                self.net.queue.borrow_mut().clear();
                break;
            }
        }
    }

    pub fn must_present(&self) -> BTreeSet<i64> {
        self.held.union(&self.acked_removed).copied().collect()
    }

    fn complete(&self) -> bool {
        let must = self.must_present();
        self.readers.iter().filter(|r| r.reliable).all(|r| {
            let got: BTreeSet<i64> = r.presented.iter().map(|p| p.sn).collect();
            must.iter().all(|s| got.contains(s))
        })
    }

    /// After the tape: publish what is left, then a fault-free network. Reliable readers: up to HEAL_ROUNDS rounds of
    /// {writer tick, deliver everything in order, advance one heartbeat period}; two more rounds after completion.
    pub fn finish(&mut self) {
        while self.published.len() < self.sizes.len() {
            self.publish();
        }
        if !self.readers.iter().any(|r| r.reliable) {
            self.flush();
            return;
        }
        let mut extra = 0;
        for round in 0..HEAL_ROUNDS {
            self.flags.heal_rounds = round + 1;
            self.tick(0);
            self.flush();
            if self.flags.storm {
                break;
            }
            if self.complete() {
                extra += 1;
                if extra > 2 {
                    break;
                }
            }
            self.clock.0.set(self.clock.0.get() + HB_PERIOD_MS * 1_000_000);
        }
    }

    /// classification of what happened on the wire, computed after the run
    pub fn classify(&mut self) {
        let log = self.net.log.borrow();
        for (id, dg) in log.iter().enumerate() {
            let n = self.delivered.get(id).copied().unwrap_or(0);
            if dg.mask & M_DATA_FRAG != 0 {
                self.flags.fragmented_on_wire = true;
            }
            if n == 0 && dg.mask & (M_DATA | M_DATA_FRAG) != 0 {
                self.flags.data_drop = true;
                if dg.mask & M_DATA_FRAG != 0 {
                    self.flags.frag_drop = true;
                }
            }
            if dg.mask & M_ACKNACK_BITS != 0 {
                self.flags.repair_acknack = true;
            }
            if dg.mask & M_NACK_FRAG != 0 {
                self.flags.repair_nack_frag = true;
            }
            if dg.mask & M_GAP != 0 {
                self.flags.repair_gap = true;
            }
        }
    }
}

// ------------------------------------------------------------------------------------------------------------
// running a scenario + oracle

#[derive(Clone, Debug, Default)]
pub struct Outcome {
    pub verdict: Option<(String, String)>,
    pub harness_error: Option<String>,
    pub nontrivial: bool,
    pub flags: Flags,
    pub presented: Vec<Vec<i64>>,
    pub datagrams: usize,
    pub two_readers: bool,
    pub colocated: bool,
    pub any_reliable: bool,
    pub any_best_effort: bool,
    /// a best-effort reader was owed a fragmented sample (C05 completeness demand applied)
    pub be_frag_due: bool,
    pub deliveries: u64,
}

thread_local! {
    static LAST_PANIC: RefCell<Option<(String, String)>> = const { RefCell::new(None) };
}

pub fn install_panic_hook() {
    std::panic::set_hook(Box::new(|info| {
        let loc = info.location().map(|l| l.file().to_string()).unwrap_or_default();
        let msg = if let Some(s) = info.payload().downcast_ref::<&str>() {
            s.to_string()
        } else if let Some(s) = info.payload().downcast_ref::<String>() {
            s.clone()
        } else {
            "<non-string panic>".to_string()
        };
        LAST_PANIC.with(|p| *p.borrow_mut() = Some((loc, msg)));
    }));
}

fn normalize_msg(m: &str) -> String {
    let mut out = String::new();
    let mut in_digits = false;
    for c in m.chars() {
        if c.is_ascii_digit() {
            if !in_digits {
                out.push('N');
                in_digits = true;
            }
        } else {
            in_digits = false;
            out.push(c);
        }
    }
    out.chars().take(100).collect()
}

/// "dds/src/..." part of a source path of dust-dds (whatever checkout it was compiled from); None for other code
fn repo_file(loc: &str) -> Option<String> {
    loc.find("dds/src/").map(|i| loc[i..].to_string())
}

pub fn nontrivial_rule(prop: &str, f: &Flags) -> bool {
    let data_fault = f.data_drop || f.data_dup || f.data_reorder;
    match prop {
        "C01" => data_fault && (f.repair_acknack || f.repair_nack_frag || f.repair_gap),
        "C02" => data_fault,
        _ => f.fragmented_on_wire && (f.frag_drop || f.frag_dup || f.frag_reorder),
    }
}

/// Runs the scenario on fresh objects; `prefix_only` stops after the tape (used by the enumerators to obtain the
/// initial datagrams).
pub fn run(sc: &Scenario) -> Outcome {
    run_with(sc, None)
}

/// `inject`: instead of executing the tape's leading setup events, start from this sent log (best-effort-only
/// enumerations: nothing ever flows back to the writer, so the writer side need not be re-run per schedule) and
/// execute only `sc.tape[skip..]`.
pub fn run_with(sc: &Scenario, inject: Option<(&[Dg], usize, usize)>) -> Outcome {
    let mut out = Outcome {
        two_readers: sc.readers.len() > 1,
        colocated: sc.colocated,
        any_reliable: sc.readers.iter().any(|r| *r),
        any_best_effort: sc.readers.iter().any(|r| !*r),
        ..Default::default()
    };
    LAST_PANIC.with(|p| *p.borrow_mut() = None);
    let mut world_slot: Option<World> = None;
    let r = std::panic::catch_unwind(std::panic::AssertUnwindSafe(|| {
        world_slot = Some(World::new(sc));
        let w = world_slot.as_mut().unwrap();
        let mut start = 0;
        if let Some((log, published, skip)) = inject {
            *w.net.log.borrow_mut() = log.to_vec();
            for k in 0..published {
                let sn = k as i64 + 1;
                w.published.push(payload(sn, sc.sizes[k] as usize));
                w.held.insert(sn);
            }
            start = skip;
        }
        for ev in &sc.tape[start..] {
            w.apply(ev);
            if w.deliveries > DELIVERY_BOUND {
                w.flags.storm = true;
                break;
            }
        }
        w.finish();
    }));
    let prop = sc.prop.as_str();
    let Some(mut w) = world_slot else {
        out.harness_error = Some("panic while building the objects".into());
        return out;
    };
    w.classify();
    out.flags = w.flags.clone();
    out.nontrivial = nontrivial_rule(prop, &w.flags);
    out.datagrams = w.net.log.borrow().len();
    out.deliveries = w.deliveries;
    out.be_frag_due = w.be_must.values().any(|m| !m.is_empty());
    out.presented = w.readers.iter().map(|r| r.presented.iter().map(|p| p.sn).collect()).collect();
    if r.is_err() {
        let (loc, msg) = LAST_PANIC.with(|p| p.borrow_mut().take()).unwrap_or_default();
        match repo_file(&loc) {
            Some(f) => {
                out.verdict = Some((
                    // two readers in one participant: a situation (and root cause) of its own, see the oracle
                    format!("{prop}:panic:{}:{}{}", f, normalize_msg(&msg), if sc.colocated { " [colocated readers]" } else { "" }),
                    format!("dust-dds panicked at {loc}: {msg} (legal traffic between its own writer and reader objects)"),
                ));
            }
            None => out.harness_error = Some(format!("harness panic at {loc}: {msg}")),
        }
        return out;
    }
    oracle(sc, &w, &mut out);
    out
}

fn fail(out: &mut Outcome, sig: String, what: String) {
    if out.verdict.is_none() {
        out.verdict = Some((sig, what));
    }
}

fn oracle(sc: &Scenario, w: &World, out: &mut Outcome) {
    let prop = sc.prop.as_str();
    let f = sc.frag as usize;
    // two readers of the writer in one participant see each other's datagrams: a different situation (and, where it
    // fails, a different root cause) than one reader per participant, so it gets its own signatures
    let shape_of = |len: usize| match (len > f, sc.colocated) {
        (true, false) => "frag",
        (false, false) => "nofrag",
        (true, true) => "frag+colocated",
        (false, true) => "nofrag+colocated",
    };
    let must = w.must_present();
    for (ri, rd) in w.readers.iter().enumerate() {
        let kind = if rd.reliable { "reliable" } else { "best-effort" };
        let mut seen: BTreeSet<i64> = BTreeSet::new();
        let mut last = 0i64;
        for p in &rd.presented {
            if !p.published {
                fail(out, format!("{prop}:invented:{}", shape_of(p.len)), format!("{kind} reader {ri} presented sequence number {} ({} bytes) which was not published", p.sn, p.len));
                continue;
            }
            let pub_len = w.published[p.sn as usize - 1].len();
            let shape = shape_of(pub_len);
            if !p.intact {
                fail(out, format!("{prop}:corrupt:{shape}"), format!("{kind} reader {ri} presented sample {} with {} bytes differing from the {} bytes published (fragment size {f})", p.sn, p.len, pub_len));
            }
            if !seen.insert(p.sn) {
                fail(out, format!("{prop}:duplicate:{shape}"), format!("{kind} reader {ri} presented sample {} twice", p.sn));
            } else if p.sn < last {
                fail(out, format!("{prop}:order:{shape}"), format!("{kind} reader {ri} presented sample {} after sample {}", p.sn, last));
            }
            last = last.max(p.sn);
        }
        if !rd.reliable && prop == "C05" {
            if let Some(m) = w.be_must.get(&rd.port) {
                if let Some(sn) = m.iter().find(|s| !seen.contains(s)) {
                    fail(
                        out,
                        format!("{prop}:missing:best-effort-frag"),
                        format!(
                            "best-effort reader {ri} never presented the fragmented sample {sn} ({} bytes, fragment size {f}) although every one of its fragments arrived (duplicated/reordered/interleaved at most) and no later sample had arrived completely before",
                            w.published[*sn as usize - 1].len()
                        ),
                    );
                }
            }
        }
        // completeness is C01's (and, for fragmented samples, C05's) demand; in a C02 campaign a reliable companion
        // reader is only held to what C02 states (no duplicate, no reordering, no corruption)
        if rd.reliable && prop != "C02" {
            let missing: Vec<i64> = must.iter().filter(|s| !seen.contains(s)).copied().collect();
            if let Some(&first) = missing.first() {
                let held_missing: Vec<i64> = missing.iter().filter(|s| w.held.contains(s)).copied().collect();
                let sig = if held_missing.is_empty() {
                    // only samples the writer released because it considered them acknowledged
                    format!("{prop}:missing:acked{}", if sc.colocated { "+colocated" } else { "" })
                } else {
                    let any_frag = held_missing.iter().any(|s| w.published[*s as usize - 1].len() > f);
                    // a fragmented sample that left the history before the reader had it (GAP while fragments may be
                    // buffered) is a situation of its own; so are two readers in one participant
                    format!(
                        "{prop}:missing:{}{}",
                        if any_frag { "frag" } else { "nofrag" },
                        if w.flags.gapped_frag {
                            "+gapped-frag"
                        } else if sc.colocated {
                            "+colocated"
                        } else {
                            ""
                        }
                    )
                };
                fail(
                    out,
                    sig,
                    format!(
                        "reliable reader {ri} never presented {} of the {} samples it must get (first: sample {first}, {} bytes; {}) after {} fault-free rounds of one heartbeat period each{}",
                        missing.len(),
                        must.len(),
                        w.published[first as usize - 1].len(),
                        if held_missing.len() == missing.len() {
                            "all of them still held by the writer".to_string()
                        } else {
                            format!("{} of them still held by the writer, the others were released only after the writer reported them acknowledged by every reliable reader", held_missing.len())
                        },
                        w.flags.heal_rounds,
                        if w.flags.storm { " (delivery bound hit: message storm)" } else { "" },
                    ),
                );
            }
        }
    }
}
