//! proptest strategies for generated scenarios (the larger parameter space; shrink to a JSON replay).

use proptest::prelude::*;

use crate::model::{Ev, Scenario};

fn choice() -> impl Strategy<Value = u16> {
    prop_oneof![2 => Just(0u16), 1 => Just(u16::MAX), 3 => any::<u16>()]
}

fn ev_strategy() -> impl Strategy<Value = Ev> {
    // the first alternative is what shrinking moves towards: in-order delivery of the oldest datagram
    prop_oneof![
        16 => choice().prop_map(Ev::Deliver),
        6 => Just(Ev::Publish),
        4 => choice().prop_map(Ev::Drop),
        4 => choice().prop_map(Ev::Dup),
        2 => (0u16..40).prop_map(Ev::Redeliver),
        4 => choice().prop_map(Ev::Tick),
        2 => Just(Ev::RemoveAcked),
        2 => choice().prop_map(Ev::RemoveForce),
        1 => Just(Ev::Clear),
    ]
}

fn frag_strategy() -> impl Strategy<Value = u32> {
    prop_oneof![
        5 => 8u32..=12,
        3 => 13u32..=64,
        2 => (6.0f64..16.0).prop_map(|e| (2f64.powf(e) as u32).clamp(8, 65000)),
        1 => prop::sample::select(vec![8u32, 9, 255, 256, 257, 1344, 32768, 64999, 65000]),
    ]
}

fn size_strategy(f: u32) -> BoxedStrategy<u32> {
    let kmax = if f > 4096 { 3u32 } else { 7 };
    prop_oneof![
        3 => 0u32..=f.min(24),
        // k*f-1, k*f, k*f+1 for k in 0..=kmax (k = 0: sizes 0 and 1)
        6 => (0u32..=kmax, 0u32..3).prop_map(move |(k, d)| (k * f + d).saturating_sub(1)),
        1 => 0u32..=(3 * f.min(2000)),
    ]
    .boxed()
}

fn readers_strategy(prop: &'static str) -> BoxedStrategy<Vec<bool>> {
    match prop {
        "C01" => prop_oneof![5 => Just(vec![true]), 2 => Just(vec![true, true]), 1 => Just(vec![true, false])].boxed(),
        "C02" => prop_oneof![5 => Just(vec![false]), 2 => Just(vec![false, false]), 1 => Just(vec![false, true])].boxed(),
        _ => prop_oneof![
            3 => Just(vec![true]),
            3 => Just(vec![false]),
            1 => Just(vec![true, true]),
            1 => Just(vec![false, false]),
            1 => Just(vec![true, false]),
        ]
        .boxed(),
    }
}

pub fn strategy(prop: &'static str, thorough: bool) -> BoxedStrategy<Scenario> {
    let max_samples = if thorough { 10usize } else { 6 };
    let max_tape = if thorough { 100usize } else { 40 };
    let normal = frag_strategy().prop_flat_map(move |f| {
        let n = if f > 4096 { 3 } else { max_samples };
        (Just(f), prop::collection::vec(size_strategy(f), 1..=n))
    });
    // a sample of more than 256 fragments: a NACK_FRAG bitmap cannot cover all of it
    let many = (8u32..=12, 257u32..400, 0u32..3, prop::collection::vec(0u32..20, 0..=2)).prop_map(|(f, k, d, mut rest)| {
        rest.insert(0, (k * f + d).saturating_sub(1));
        (f, rest)
    });
    let fs = if prop == "C02" { normal.boxed() } else { prop_oneof![40 => normal, 1 => many].boxed() };
    (fs, readers_strategy(prop), 0u8..4, prop::collection::vec(ev_strategy(), 0..=max_tape))
        .prop_map(move |((frag, sizes), readers, colo, tape)| Scenario {
            engine: "rtpsd".into(),
            prop: prop.to_string(),
            frag,
            colocated: readers.len() > 1 && colo == 3,
            readers,
            sizes,
            tape,
        })
        .boxed()
}
