//! Exhaustive small-scope enumeration: for a fixed small publication list, EVERY arrival schedule (each datagram of
//! the initial transmission delivered 0, 1 or 2 times, in any order, up to a length bound), followed by the
//! fault-free finish phase (flush; heal loop for reliable readers).

use serde_json::json;
use vcore::{Failure, Known, Stats};

use crate::model::{self, Dg, Ev, Outcome, Scenario, World};

#[derive(Clone, Debug)]
pub struct Template {
    pub name: String,
    pub frag: u32,
    pub sizes: Vec<u32>,
    pub readers: Vec<bool>,
    pub colocated: bool,
    /// events after the publications and before the network loses the initial transmission (e.g. RemoveForce)
    pub setup: Vec<Ev>,
    pub max_len: usize,
    pub max_mult: u8,
}

fn t(name: &str, frag: u32, sizes: &[u32], readers: &[bool], colocated: bool, setup: &[Ev], max_len: usize) -> Template {
    Template {
        name: name.to_string(),
        frag,
        sizes: sizes.to_vec(),
        readers: readers.to_vec(),
        colocated,
        setup: setup.to_vec(),
        max_len,
        max_mult: 2,
    }
}

/// The enumerations of a property. `deep` = thorough tier: longer schedules and all three size remainders.
pub fn templates(prop: &str, deep: bool) -> Vec<Template> {
    let f = 8u32;
    let mut v = vec![];
    // last-fragment remainders: k*f-1 (7 bytes), k*f (8, full), k*f+1 → (k-1)*f+1 (1 byte)
    let rems: &[(u32, &str)] = if deep { &[(7, "kf-1"), (8, "kf"), (1, "kf+1")] } else { &[(7, "kf-1")] };
    let (be_len, rel_len, colo_len) = if deep { (10, 10, 8) } else { (8, 7, 8) };
    let be = prop == "C02" || prop == "C05";
    let rel = prop == "C01" || prop == "C05";
    for (i, &(r, rn)) in rems.iter().enumerate() {
        // in the quick tier the three fragmented templates use three different remainders
        let r2 = if deep { r } else { 8 };
        let r3 = if deep { r } else { 1 };
        let _ = i;
        if be {
            v.push(t(&format!("be:4frag({rn})+1"), f, &[3 * f + r, 5], &[false], false, &[], be_len));
            v.push(t(&format!("be:3frag+2frag({})", if deep { rn } else { "kf" }), f, &[2 * f + r2, f + r2], &[false], false, &[], be_len));
            v.push(t(&format!("be:2frag+1+2frag({})", if deep { rn } else { "kf+1" }), f, &[f + r3, 3, f + r3], &[false], false, &[], be_len));
            v.push(t(&format!("be:2readers-colocated:2frag({rn})"), f, &[f + r], &[false, false], true, &[], colo_len));
        }
        if rel {
            v.push(t(&format!("rel:4frag({rn})+1"), f, &[3 * f + r, 5], &[true], false, &[], rel_len));
            v.push(t(&format!("rel:3frag+2frag({})", if deep { rn } else { "kf" }), f, &[2 * f + r2, f + r2], &[true], false, &[], rel_len));
            v.push(t(
                &format!("rel:3frag({})+1,first-removed-before-delivery", if deep { rn } else { "kf+1" }),
                f,
                &[2 * f + r3, 5],
                &[true],
                false,
                &[Ev::RemoveForce(0)],
                rel_len,
            ));
            v.push(t(&format!("rel:2readers-colocated:2frag({rn})"), f, &[f + r], &[true, true], true, &[], colo_len.min(7)));
        }
    }
    if deep && be {
        // six datagrams
        v.push(t("be:3frag(kf-1)+3frag(kf+1)", f, &[2 * f + 7, 2 * f + 1], &[false], false, &[], 9));
        v.push(t("be:1+4frag(kf)+1", f, &[2, 4 * f, 8], &[false], false, &[], 9));
    }
    if deep && rel {
        v.push(t("rel:3frag(kf-1)+3frag(kf+1)", f, &[2 * f + 7, 2 * f + 1], &[true], false, &[], 8));
        v.push(t("rel:2frag+1+2frag(kf+1),second-removed-before-delivery", f, &[f + 1, 3, f + 1], &[true], false, &[Ev::RemoveForce(32768)], 8));
        v.push(t("rel+be:2readers:2frag(kf-1)+1", f, &[f + 7, 4], &[true, false], false, &[], 8));
    }
    if prop == "C02" {
        v.push(t("be:5 unfragmented", f, &[1, 0, 8, 5, 3], &[false], false, &[], be_len));
    }
    if prop == "C01" {
        v.push(t("rel:5 unfragmented", f, &[1, 0, 8, 5, 3], &[true], false, &[], rel_len));
        v.push(t("rel:4 unfragmented,second-removed-before-delivery", f, &[1, 6, 8, 3], &[true], false, &[Ev::RemoveForce(21845)], rel_len + 1));
    }
    v
}

fn base_scenario(prop: &str, tp: &Template) -> Scenario {
    let mut tape: Vec<Ev> = tp.sizes.iter().map(|_| Ev::Publish).collect();
    tape.extend(tp.setup.iter().cloned());
    tape.push(Ev::Clear);
    Scenario {
        engine: "rtpsd".into(),
        prop: prop.to_string(),
        frag: tp.frag,
        readers: tp.readers.clone(),
        colocated: tp.colocated,
        sizes: tp.sizes.clone(),
        tape,
    }
}

pub fn classes_of(o: &Outcome) -> Vec<&'static str> {
    let f = &o.flags;
    let mut c = vec![];
    let mut add = |b: bool, n: &'static str| {
        if b {
            c.push(n)
        }
    };
    add(f.fragmented_on_wire, "fragmented");
    add(f.data_drop, "drop");
    add(f.data_dup, "dup");
    add(f.data_reorder, "reorder");
    add(f.frag_drop, "frag_drop");
    add(f.frag_dup, "frag_dup");
    add(f.frag_reorder, "frag_reorder");
    add(f.interleaved_frags, "frags_of_two_samples_interleaved");
    add(f.repair_acknack, "acknack_with_bits_seen");
    add(f.repair_nack_frag, "nack_frag_seen");
    add(f.repair_gap, "gap_seen");
    add(f.removed_forced > 0, "history_removal_forced");
    add(f.removed_acked > 0, "history_removal_acked");
    add(f.gapped_frag, "fragmented_sample_removed_before_delivery");
    add(f.remove_acked_refused > 0, "history_removal_refused_unacked");
    add(f.unparseable > 0, "unparseable_datagram");
    add(f.storm, "delivery_bound_hit");
    add(o.be_frag_due, "best_effort_fragmented_sample_arrived_completely");
    add(o.two_readers, "two_readers");
    add(o.colocated, "readers_colocated");
    add(o.any_reliable, "reliable_reader");
    add(o.any_best_effort, "best_effort_reader");
    add(f.heal_rounds > 10, "heal_rounds>10");
    add(f.heal_rounds > 50, "heal_rounds>50");
    add(o.deliveries > 2_000, "deliveries>2000");
    add(o.deliveries > 10_000, "deliveries>10000");
    add(!(f.data_drop || f.data_dup || f.data_reorder), "no_data_fault");
    c
}

/// Enumerates one template. Known findings are counted in `stats.excluded_known`; any other verdict becomes a
/// Failure carrying the explicit scenario (first = shortest schedule per signature).
pub fn enumerate(prop: &str, tp: &Template, stats: &mut Stats, known: &Known, failures: &mut Vec<Failure>) -> u64 {
    let mut sc = base_scenario(prop, tp);
    let prefix_len = sc.tape.len();
    // the initial transmission
    let (log, published): (Vec<Dg>, usize) = {
        let mut w = World::new(&sc);
        for ev in &sc.tape {
            w.apply(ev);
        }
        let log = w.net.log.borrow().clone();
        (log, w.published.len())
    };
    let n = log.len();
    let inject = tp.readers.iter().all(|r| !*r);
    let mut count = 0u64;
    let mut nontrivial = 0u64;
    let mut seen_sigs: Vec<String> = failures.iter().map(|f| f.signature.clone()).collect();
    let mut failing = 0u64;
    let mut mult = vec![0u8; n];
    let mut seq: Vec<u16> = vec![];
    for target in 0..=tp.max_len {
        let completed = dfs(target, n, tp.max_mult, &mut mult, &mut seq, &mut |s: &[u16]| {
            sc.tape.truncate(prefix_len);
            sc.tape.extend(s.iter().map(|i| Ev::Redeliver(*i)));
            let out = if inject { model::run_with(&sc, Some((&log, published, prefix_len))) } else { model::run(&sc) };
            count += 1;
            stats.evaluations += 1;
            if out.nontrivial {
                nontrivial += 1;
            }
            for c in classes_of(&out) {
                stats.class(c);
            }
            if let Some(e) = &out.harness_error {
                failures.push(Failure { signature: "harness:error".into(), what: e.clone(), case: serde_json::to_value(&sc).unwrap(), shrunk_from: None, shrunk_to: None });
                return false;
            }
            if let Some((sig, what)) = out.verdict {
                if known.matches(&sig) {
                    *stats.excluded_known.entry(sig).or_insert(0) += 1;
                } else {
                    failing += 1;
                    if !seen_sigs.contains(&sig) {
                        seen_sigs.push(sig.clone());
                        // a failure found from the injected log must reproduce from scratch (that is what --replay does)
                        let confirm = model::run(&sc);
                        let (sig, what) = match confirm.verdict {
                            Some((s2, w2)) if s2 == sig => (s2, w2),
                            other => ("harness:mismatch".to_string(), format!("enumeration verdict {sig} ({what}) not reproduced by a full run: {other:?}")),
                        };
                        let case = serde_json::to_value(&sc).unwrap();
                        let size = case.to_string().len() as u64;
                        failures.push(Failure {
                            signature: sig,
                            what: format!("{what} [exhaustive template '{}', schedule {:?} over the {} datagrams of the initial transmission]", tp.name, s, n),
                            case,
                            shrunk_from: Some(size),
                            shrunk_to: Some(size),
                        });
                    }
                    if failing >= 20 {
                        return false;
                    }
                }
            }
            if stats.wants_sample() && out.nontrivial && count % 9973 == 4000 {
                stats.sample(json!({"template": tp.name, "schedule": s, "presented": out.presented, "datagrams_total": out.datagrams}));
            }
            true
        });
        if !completed {
            // enough failing schedules of this template: the verdicts are recorded, the rest would only cost time
            stats.class("exhaustive_template_cut_short_after_20_failures");
            break;
        }
    }
    stats.nontrivial_by_construction += nontrivial;
    count
}

/// calls `f` for every sequence of exactly `target` more symbols; returns false to abort
fn dfs(target: usize, n: usize, max_mult: u8, mult: &mut Vec<u8>, seq: &mut Vec<u16>, f: &mut dyn FnMut(&[u16]) -> bool) -> bool {
    if seq.len() == target {
        return f(seq);
    }
    for i in 0..n {
        if mult[i] < max_mult {
            mult[i] += 1;
            seq.push(i as u16);
            let go = dfs(target, n, max_mult, mult, seq, f);
            seq.pop();
            mult[i] -= 1;
            if !go {
                return false;
            }
        }
    }
    true
}
