//! E-RTPSD: RtpsStatefulWriter / RtpsStatefulReader objects driven directly by the harness (no DCPS layer, no
//! executor): the harness owns every datagram and its arrival schedule. Second half of C01, C02, C05.
fn main() {
    let ctx = vcore::Ctx::from_args();
    eprintln!("rtpsd: property {} not implemented yet", ctx.id);
    std::process::exit(2);
}
