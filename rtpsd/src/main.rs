//! E-RTPSD: RtpsStatefulWriter / RtpsStatefulReader objects driven directly by the harness (no DCPS layer, no
//! executor): the harness owns every datagram and its arrival schedule. Second half of C01, C02, C05.
//!
//! `rtpsd <C01|C02|C05> <quick|thorough> [--replay <file>]`

mod exh;
mod r#gen;
mod model;

use serde_json::json;
use vcore::{Ctx, Failure, Known, Meta, Report, pt::CaseOutcome};

use model::Scenario;

fn eval_case(sc: &Scenario) -> CaseOutcome {
    let out = model::run(sc);
    let key = vcore::hash_str(&serde_json::to_string(sc).unwrap());
    let mut co = CaseOutcome::pass(key, out.nontrivial);
    for c in exh::classes_of(&out) {
        co.classes.push(c.to_string());
    }
    co.sample = Some(json!({
        "frag": sc.frag, "sizes": sc.sizes, "readers_reliable": sc.readers, "colocated": sc.colocated,
        "tape_len": sc.tape.len(), "datagrams": out.datagrams, "presented": out.presented, "heal_rounds": out.flags.heal_rounds,
    }));
    if let Some(e) = out.harness_error {
        return co.fail("harness:error", e);
    }
    if let Some((s, w)) = out.verdict {
        return co.fail(s, w);
    }
    co
}

fn rule(prop: &str) -> &'static str {
    match prop {
        "C01" => "RTPS-object level: RtpsStatefulWriter + 1-2 RtpsStatefulReader (>=1 RELIABLE) driven directly; (a) exhaustive: every arrival schedule (each datagram of the initial transmission 0, 1 or 2 times, any order, bounded length) of small publication lists, then the heal loop; (b) generated: fragment size 8..=65000, sizes around k*f, history removals, event tape {publish, deliver/drop/duplicate #i, re-deliver old datagram, tick}; non-trivial = a DATA/DATA_FRAG datagram was dropped, duplicated or delivered out of order AND a repair (ACKNACK with bits, NACK_FRAG or GAP) was sent; distinct = exhaustive schedules are distinct by construction, generated cases by hash of the scenario",
        "C02" => "RTPS-object level: RtpsStatefulWriter + 1-2 RtpsStatefulReader (>=1 BEST_EFFORT) driven directly; the harness sees every CacheChange the reader presents with its raw bytes; a RELIABLE companion reader (1 scenario in 8) is held to the same safety demands only; (a) exhaustive arrival schedules of small publication lists, (b) generated scenarios; non-trivial = a DATA/DATA_FRAG datagram was dropped, duplicated or delivered out of order; distinct = exhaustive schedules by construction, generated cases by hash of the scenario",
        _ => "RTPS-object level: fragmenting writer and reassembling reader objects driven directly (RELIABLE and BEST_EFFORT readers); (a) exhaustive arrival schedules over the DATA_FRAG datagrams of small fragmented publication lists with last-fragment remainders k*f-1, k*f, k*f+1, (b) generated scenarios with fragment sizes over 8..=65000 and samples of up to 7 (occasionally > 256) fragments; non-trivial = the sample was fragmented on the wire AND a DATA_FRAG datagram was dropped, duplicated or delivered out of order; distinct = exhaustive schedules by construction, generated cases by hash of the scenario",
    }
}

const ASSUMPTIONS: &[&str] = &[
    "the harness is the transport (WriteMessage), the clock and the message receiver: datagrams are parsed with RtpsMessageRead, iterated with dust-dds' own MessageReceiver and dispatched with the same calls and validity pre-checks as DcpsDomainParticipant::handle_data (reader-id and INFO_DST are not filtered there, so not here)",
    "reader and writer proxies are built as the discovery code builds them (reliability of the proxy = reliability of the reader; match before the first publication; VOLATILE)",
    "every presented CacheChange is taken from RtpsStatefulReader::changes_mut() right after the datagram that produced it, like process_user_defined_received_cache_changes does",
    "after the event tape the network is fault-free: remaining publications are made, everything in flight is delivered in order; with a RELIABLE reader up to 200 rounds of {writer.write_message, deliver all, advance 200 ms (the heartbeat period)}",
    "history removals model lifespan expiry / best-effort KEEP_LAST (unconditional) and the reliable KEEP_LAST rule (oldest sample, only when is_change_acknowledged); a sample released under the second rule must still reach every reliable reader",
];

const BUILTIN_CASES: &[(&str, &str)] = &[
    ("colocated-readers-truncated-reassembly", include_str!("../cases/colocated-readers-truncated-reassembly.json")),
    ("colocated-readers-nackfrag-expect-panic", include_str!("../cases/colocated-readers-nackfrag-expect-panic.json")),
    ("stale-fragments-of-removed-sample-block-acknack", include_str!("../cases/stale-fragments-of-removed-sample-block-acknack.json")),
    ("nackfrag-span-over-256-fragments-panic", include_str!("../cases/nackfrag-span-over-256-fragments-panic.json")),
];

fn main() {
    let ctx = Ctx::from_args();
    let prop: &'static str = match ctx.id.as_str() {
        "C01" => "C01",
        "C02" => "C02",
        "C05" => "C05",
        o => {
            eprintln!("rtpsd: property {o} is not served by this engine (C01, C02, C05)");
            std::process::exit(2);
        }
    };
    model::install_panic_hook();
    let meta = |floor| Meta { rule: rule(prop), assumptions: ASSUMPTIONS, nontrivial_floor: floor };

    if let Some(path) = &ctx.replay {
        let v = vcore::load_replay(path);
        if v.get("engine").and_then(|e| e.as_str()) != Some("rtpsd") {
            eprintln!("rtpsd: {path:?} is not a replay file of this engine");
            std::process::exit(2);
        }
        let mut sc: Scenario = match serde_json::from_value(v.clone()) {
            Ok(s) => s,
            Err(e) => {
                eprintln!("rtpsd: cannot decode the scenario: {e}");
                std::process::exit(2);
            }
        };
        sc.prop = prop.to_string();
        let out = model::run(&sc);
        println!("replay {}: fragment size {}, sizes {:?}, readers reliable {:?}, colocated {}, tape {} events", prop, sc.frag, sc.sizes, sc.readers, sc.colocated, sc.tape.len());
        println!("  datagrams sent in total: {}, heal rounds: {}", out.datagrams, out.flags.heal_rounds);
        for (i, p) in out.presented.iter().enumerate() {
            println!("  reader {i} presented sequence numbers {:?}", p);
        }
        println!("  wire: {:?}", out.flags);
        let mut report = Report::default();
        if let Some(e) = out.harness_error {
            report.inconclusive.push(e);
        }
        match out.verdict {
            Some((signature, what)) => {
                println!("  verdict: {signature}: {what}");
                report.failures.push(Failure { signature, what, case: v, shrunk_from: None, shrunk_to: None });
            }
            None => println!("  verdict: pass"),
        }
        vcore::finish(&ctx, meta(0), report);
    }

    let thorough = ctx.tier == vcore::Tier::Thorough;
    let known = Known::load(&ctx.id);
    let mut report = Report::default();

    // minimal scenarios of the findings of this engine (kept as regression cases) + saved regression cases
    let builtin: Vec<(String, serde_json::Value)> = BUILTIN_CASES.iter().map(|(n, s)| (n.to_string(), serde_json::from_str(s).expect("builtin case"))).collect();
    for (name, case) in builtin.into_iter().chain(vcore::regress_cases(prop)) {
        if case.get("engine").and_then(|e| e.as_str()) != Some("rtpsd") {
            continue;
        }
        let Ok(mut sc) = serde_json::from_value::<Scenario>(case.clone()) else { continue };
        sc.prop = prop.to_string();
        // a case belongs to the property whose kind of reader it has
        let relevant = match prop {
            "C01" => sc.readers.iter().any(|r| *r),
            "C02" => sc.readers.iter().any(|r| !*r),
            _ => true,
        };
        if !relevant {
            continue;
        }
        let out = eval_case(&sc);
        report.stats.case(out.key, out.nontrivial, &out.classes);
        report.stats.class("regress_case");
        if let Some((signature, what)) = out.verdict {
            if known.matches(&signature) {
                *report.stats.excluded_known.entry(signature).or_insert(0) += 1;
            } else {
                report.failures.push(Failure { signature, what: format!("{what} [regress/{name}]"), case, shrunk_from: None, shrunk_to: None });
            }
        }
    }

    // (1) exhaustive small-scope enumeration
    let mut per_template = serde_json::Map::new();
    let mut schedules = 0u64;
    for tp in exh::templates(prop, thorough) {
        let n = exh::enumerate(prop, &tp, &mut report.stats, &known, &mut report.failures);
        per_template.insert(tp.name.clone(), json!({"schedules": n, "max_len": tp.max_len, "frag": tp.frag, "sizes": tp.sizes}));
        schedules += n;
    }
    report.stats.extra.insert("exhaustive".into(), json!(true));
    report.stats.extra.insert("exhaustive_schedules".into(), json!(schedules));
    report.stats.extra.insert("exhaustive_templates".into(), serde_json::Value::Object(per_template));

    // (2) generated scenarios
    // C01 cases are the dearest (heal loop; each non-converging known finding costs 200 rounds)
    let cases: u32 = ctx.pick(if prop == "C01" { 30_000 } else { 50_000 }, 1_000_000);
    report.stats.extra.insert("generated_cases".into(), json!(cases));
    let strat = r#gen::strategy(prop, thorough);
    if let Some(f) = vcore::pt::run_cases(
        cases,
        ctx.rng_seed("generated"),
        2000,
        &strat,
        &mut report.stats,
        &known,
        eval_case,
        |sc| serde_json::to_value(sc).unwrap(),
    ) {
        report.failures.push(f);
    }
    vcore::finish(&ctx, meta(ctx.pick(5_000, 50_000)), report);
}
