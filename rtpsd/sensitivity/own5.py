# own-5: fragment_starting_num of a DATA_FRAG is the 0-based fragment index (as_data_frag_submessage forgets the +1)
p='dds/src/rtps/cache_change.rs'; s=open(p).read()
old='let fragment_starting_num = (fragment_number + 1) as u32;'
assert old in s
s=s.replace(old,'let fragment_starting_num = fragment_number as u32;')
open(p,'w').write(s)
