# own-1: writer answers NACK_FRAG treating the (1-based) fragment numbers as 0-based indices (the pre-c3eed82 behaviour)
p='dds/src/rtps/stateful_writer.rs'; s=open(p).read()
old='''                        let Some(request_fragment_number) =
                            (request_fragment_number as usize).checked_sub(1)
                        else {
                            continue;
                        };'''
assert old in s
s=s.replace(old,'''                        let request_fragment_number = request_fragment_number as usize;''')
open(p,'w').write(s)
