#!/bin/bash
# usage: variant.sh <name> <apply-cmd...>   (run inside /tmp/wt-rtpsd; resets to HEAD first)
set -u
name=$1; shift
cd /tmp/wt-rtpsd
git checkout -q -- . 
eval "$@" || { echo "APPLY FAILED $name"; exit 1; }
git diff --stat | tail -1
cd /tmp/rtpsd-scratch
export CARGO_TARGET_DIR=/tmp/rtpsd-scratch-target CARGO_NET_OFFLINE=true
cargo build --release -p rtpsd 2>&1 | grep -E "^(warning|error)|Finished" -A6
for p in ${PROPS:-C01 C02 C05}; do
  rm -rf /tmp/rtpsd-root/replay
  la=$(cut -d' ' -f1 /proc/loadavg)
  s=$(date +%s.%N)
  VERIF_ROOT=/tmp/rtpsd-root VERIF_EVIDENCE_SUFFIX=rtps /tmp/rtpsd-scratch-target/release/rtpsd $p quick > /tmp/rtpsd-sens/$name.$p.txt 2>&1
  rc=$?
  e=$(date +%s.%N)
  echo "variant=$name prop=$p rc=$rc wall=$(echo "$e - $s" | bc) load=$la" | tee -a /tmp/rtpsd-sens/summary.txt
  grep -E "^VIOLATION|signature:" /tmp/rtpsd-sens/$name.$p.txt | cut -c1-200
  mkdir -p /tmp/rtpsd-sens/replay-$name; cp /tmp/rtpsd-root/replay/*.json /tmp/rtpsd-sens/replay-$name/ 2>/dev/null
done
