# own-3: reliable reader: a GAP range is applied whenever it reaches the expected sequence number or lies beyond it
# (a GAP beyond a still missing change moves the reader past that change)
p='dds/src/rtps/writer_proxy.rs'; s=open(p).read()
old='''                if first <= expected && last >= expected {
                    self.highest_received_change_sn = last;
                }'''
assert old in s
s=s.replace(old,'''                if last >= expected {
                    self.highest_received_change_sn = last;
                }''')
open(p,'w').write(s)
