# own-4: fragment numbering of the last fragment: the slice end of a fragment is not clamped to the payload length but
# the fragment is cut to the remainder computed with a rounding slip (data_size % fragment_size == 0 treated as empty)
p='dds/src/rtps/writer_proxy.rs'; s=open(p).read()
old='''    let total_fragments_correction = if data_size.is_multiple_of(fragment_size) {
        0
    } else {
        1
    };
    data_size / fragment_size + total_fragments_correction'''
assert old in s
s=s.replace(old,'''    data_size / fragment_size + 1''')
open(p,'w').write(s)
