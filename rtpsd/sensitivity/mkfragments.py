#!/usr/bin/env python3
"""Writes /verif/tools/fragments/C0{1,2,5}.rtps.json from the measured runs in /tmp/rtpsd-sens and /tmp/rtpsd-root*."""
import json, re, os

S = "/tmp/rtpsd-sens"

def parse_summary():
    rows = {}
    for fn in ("summary-run1.txt", "summary.txt"):
        p = os.path.join(S, fn)
        if not os.path.exists(p):
            continue
        for line in open(p):
            m = re.match(r"variant=(\S+) prop=(\S+) rc=(\d+) wall=([\d.]+) load=([\d.]+)", line)
            if m:
                rows[(m.group(1), m.group(2))] = (int(m.group(3)), float(m.group(4)), float(m.group(5)))
    return rows

def sigs(variant, prop):
    p = os.path.join(S, f"{variant}.{prop}.txt")
    if not os.path.exists(p):
        return []
    return [l.strip()[len("signature: "):] for l in open(p) if l.strip().startswith("signature: ")]

VARIANTS = [
    ("seeded-C05-1", "/verif/seeded/C05-1/patch.diff", "RtpsWriterProxy::push_data_frag compares a new DATA_FRAG only with the newest buffered fragment (duplicate filter)"),
    ("seeded-C01-1", "/verif/seeded/C01-1/patch.diff", "DATA_FRAGs that answer a NACK_FRAG carry readerId ENTITYID_UNKNOWN, so they differ from the original transmission and are buffered twice"),
    ("seeded-C27-1", "/verif/seeded/C27-1/patch.diff", "a purely positive ACKNACK acknowledges everything sent so far (max(base-1, highest_sent_seq_num))"),
    ("seeded-C04-1", "/verif/seeded/C04-1/patch.diff", "requested-changes path no longer checks first_relevant_sample_seq_num (a VOLATILE late joiner can obtain old samples)"),
    ("own-1", "own break", "writer answers a NACK_FRAG treating the 1-based fragment numbers as 0-based indices (stateful_writer.rs, checked_sub(1) removed): the wrong fragment is re-sent"),
    ("own-2", "own break", "best-effort reader: a DATA that jumps ahead only calls lost_changes_update(sn) and no longer received_change_set(sn) (stateful_reader.rs): the same DATA is accepted again"),
    ("own-3", "own break", "reliable reader applies a GAP range whenever its end reaches the expected sequence number or lies beyond (writer_proxy.rs irrelevant_change_range_set: `first <= expected` dropped): a GAP beyond a missing change skips that change"),
    ("own-4", "own break", "total_fragments_expected = data_size / fragment_size + 1 (writer_proxy.rs): samples whose size is a multiple of the fragment size never complete"),
    ("own-5", "own break", "CacheChange::as_data_frag_submessage numbers fragments from 0 (fragment_starting_num = fragment_number)"),
]

NOTES = {
    ("seeded-C27-1", "C02"): "not detected, as it should be: the change only costs completeness at a RELIABLE reader, which C02 does not demand (C01 and C05 report it as <ID>:missing:*)",
    ("own-1", "C02"): "not detected, as it should be: only the NACK_FRAG repair of a RELIABLE reader is affected (completeness; C01/C05 report it)",
    ("own-3", "C02"): "not detected, as it should be: only completeness at a RELIABLE reader is affected (C01/C05 report it)",
    ("own-5", "C02"): "not detected: the best-effort reader rejects fragment number 0 and never completes any fragmented sample, which C02 (subsequence only) allows; C01/C05 report it. The passing C02 run took 164 s because every reliable companion reader ends in the 50 000-delivery storm bound",
    ("seeded-C01-1", "C02!"): "detected through the RELIABLE companion reader of the mixed scenarios (it presents a truncated payload: a safety violation)",
    ("own-4", "C02!"): "detected through the RELIABLE companion reader (panic while building its NACK_FRAG)",
    ("seeded-C05-1", "C02!"): "detected by the best-effort oracle on the exhaustive templates (the C02 miss of the E-SIM half, DESIGN 11.5)",
    ("seeded-C04-1", "*"): "out of scope of C01/C02/C05 at this level: every reader is matched before the first publication (first_relevant_sample_seq_num = 0), and 'a VOLATILE reader never gets earlier samples' is C04's oracle",
}

def sensitivity(prop, rows):
    out = []
    for v, src, what in VARIANTS:
        r = rows.get((v, prop))
        if r is None:
            continue
        rc, wall, load = r
        s = sigs(v, prop)
        e = {"mutation": v, "source": src, "base": "unchanged tree + the findings of this engine listed as known (scratch VERIF_ROOT)", "what": what,
             "detected": rc == 1, "signatures": s, "tier": "quick", "wall_s": round(wall, 1), "load_average_1m": load}
        if rc != 1:
            e["note"] = NOTES.get((v, prop), NOTES.get((v, "*"), "not detected"))
        elif (v, prop + "!") in NOTES:
            e["note"] = NOTES[(v, prop + "!")]
        out.append(e)
    return out

def ev(root, prop):
    p = f"{root}/evidence/{prop}.rtps.json"
    return json.load(open(p)) if os.path.exists(p) else None

FIND = {
 "A": "two readers of one writer in one participant: fragments addressed to the other reader are counted as additional fragments -> truncated payload presented (corrupt) or expect() panic in NACK_FRAG generation; proposed_fixes/C05-rtps-fragment-identity.diff",
 "B": "fragments of a sample that became irrelevant/lost (removed from the writer history, GAP) stay in the reader's fragment buffer and stop every later ACKNACK from requesting missing changes -> later samples never delivered; proposed_fixes/C01-rtps-stale-fragments.diff",
 "C": "NACK_FRAG for a sample with more than 256 fragments whose missing fragments span more than 256 numbers -> index-out-of-bounds panic in FragmentNumberSet::new in the reader's participant; proposed_fixes/C01-rtps-nackfrag-window.diff",
}

def main():
    rows = parse_summary()
    meas = json.load(open(f"{S}/measured.json")) if os.path.exists(f"{S}/measured.json") else {}
    for prop in ("C01", "C02", "C05"):
        known = json.load(open(f"/verif/tools/fragments/{prop}.rtps.findings.json"))["known"]
        frag = {
            "engine": "E-RTPSD (/verif/rtpsd, binary `rtpsd`), second half of the property (evidence suffix `rtps`); the first half is E-SIM props/comm.rs",
            "technique": "property-based testing at the RTPS object level: dust_dds::rtps::{stateful_writer::RtpsStatefulWriter, stateful_reader::RtpsStatefulReader} driven directly; the harness is the transport (WriteMessage recording every datagram), the virtual clock and each participant's message receiver (RtpsMessageRead + dust-dds' own MessageReceiver, dispatch and validity pre-checks copied from handle_data). Two generators in both tiers: (1) EXHAUSTIVE small-scope enumeration of arrival schedules (each datagram of the initial transmission delivered 0, 1 or 2 times, in any order, up to a length bound) for fixed small publication lists, followed by the fault-free finish/heal phase; (2) proptest-generated scenarios (fragment size 8..=65000, 1-10 samples with sizes k*f-1/k*f/k*f+1 and 0/1, occasionally > 256 fragments, 1-2 readers RELIABLE/BEST_EFFORT in separate participants or the same one, history removals, event tape {publish, deliver/drop/duplicate in-flight datagram #i, re-deliver an old datagram, lose everything in flight, advance time + writer tick}) shrunk to a JSON replay. Oracles from the statement: every presented CacheChange was published, byte-identical (payload bytes depend on (sn, offset)), at most once, strictly increasing; reliable reader after <= 200 fault-free heartbeat periods has every sample the writer still holds (plus those released only after is_change_acknowledged); C05 additionally: a BEST_EFFORT reader must present a fragmented sample all of whose fragments arrived (duplicated/reordered/interleaved) before any later sample arrived completely; no panic (catch_unwind).",
            "level_text": "Held on every enumerated arrival schedule of the listed small publication lists (exhaustive within the stated bounds: <= 2 deliveries per datagram of the initial transmission, schedule length bound, then in-order repair) and on N generated scenarios, except the listed known findings. Nothing is claimed beyond those bounds.",
            "level_note": "subject = the RTPS writer/reader/proxy objects and the message codec of /repo/dds compiled as is; trusted base: the harness' dispatch (a transcription of DcpsDomainParticipant::handle_data and its handle_* functions: if that transcription drifts from the real receiver the check can mis-report), its network/clock model, proptest. The DCPS layer, discovery, the executor and the UDP transport are not exercised (they are in the E-SIM half).",
            "rule": {"C01": "non-trivial = a DATA/DATA_FRAG datagram was dropped (never delivered), duplicated or delivered out of order AND a repair message (ACKNACK with bits, NACK_FRAG or GAP) was sent; exhaustive schedules are distinct by construction, generated cases by hash of the scenario. Floors: quick 5 000, thorough 50 000.",
                     "C02": "non-trivial = a DATA/DATA_FRAG datagram was dropped, duplicated or delivered out of order; distinctness as C01. Floors: quick 5 000, thorough 50 000.",
                     "C05": "non-trivial = the sample was fragmented on the wire AND a DATA_FRAG datagram was dropped, duplicated or delivered out of order; distinctness as C01. Floors: quick 5 000, thorough 50 000."}[prop],
            "quick": meas.get(prop, {}).get("quick", {}),
            "thorough": meas.get(prop, {}).get("thorough", {}),
            "sensitivity": sensitivity(prop, rows),
            "fix_verification": meas.get("fix_verification", {}),
            "tolerances": [
                "nothing is demanded about WHEN a reliable reader gets a sample within the 200 fault-free heartbeat periods (observed need on the unchanged tree: <= 10 rounds; more only in the known non-converging findings)",
                "samples removed unconditionally from the writer history (lifespan-like) before delivery may be missing at a reliable reader; samples released under the reliable KEEP_LAST rule (only when is_change_acknowledged) may not",
                "best-effort readers: any loss is accepted in C02; in C05 a fragmented sample is only demanded when all its fragments arrived before any later sample arrived completely and no GAP/HEARTBEAT reached the reader meanwhile, and only with one reader per participant",
                "source timestamp, instance handle/inline QoS of the presented change are not compared (C14 / key handling are other properties); kind must be ALIVE and the writer GUID right",
                "in a C02 campaign the RELIABLE companion reader (1 scenario in 8) is held to the safety demands only, in a C01 campaign the BEST_EFFORT companion likewise",
                "a datagram dust-dds cannot parse back is treated as lost (class unparseable_datagram; none observed); a message storm (> 50 000 deliveries in one case) ends the case and the oracle judges what was presented (none observed on the unchanged tree: no case above 2 000 deliveries)",
            ],
            "findings": [{"signature": k["signature"], "what": k["what"]} for k in known],
            "findings_summary": [FIND["A"]] + ([FIND["B"], FIND["C"]] if prop != "C02" else []),
            "design_notes": "Additional RTPS-object-level half of C01/C02/C05 (DESIGN §4 only planned a 'direct variant' for C05). Why: through the DCPS API a truncated reassembly is dropped at deserialization and looks like loss; here every presented CacheChange is compared byte for byte, and small scenarios are enumerated exhaustively (microseconds per case, no fork). Deviations/choices: (1) in this tree RtpsStatefulReader has no write_message/on_heartbeat/on_gap of its own: HEARTBEAT and GAP handling live in communication_methods.rs (handle_heartbeat_submessage, handle_gap_submessage) and call RtpsWriterProxy methods directly; the harness transcribes them, including the validity pre-checks, and uses dust-dds' own MessageReceiver for INFO_TS/INFO_DST/INFO_SRC state. ACKNACK/NACK_FRAG are only sent in reaction to a HEARTBEAT, so the 'reader tick' of the plan does not exist; AdvanceTime ticks the writer only. (2) At this level the writer has no reliability of its own: it is expressed by the ReaderProxy kind, which the discovery code sets to the READER's reliability; likewise WriterProxy.reliability_kind is the reader's. (3) 'Two readers in the same participant' (same GUID prefix and locator, each reader sees the datagrams addressed to the other because neither the receiver nor the reader filters on readerId) is part of the scenario space (1 in 4 of the two-reader scenarios) and has its own signatures (+colocated / [colocated readers]) because it has its own root cause (finding A). (4) Signatures carry the situation (+gapped-frag: a fragmented sample left the history before a reliable reader had it; +colocated) so that a known finding only masks its own situation; sensitivity run own-4 was masked by a known panic signature before this was done. (5) Minimal scenarios of the findings are compiled into the binary (rtpsd/cases/*.json) and re-evaluated at the start of every campaign; /verif/regress/<ID>/*.json files carrying \"engine\":\"rtpsd\" are evaluated too, others are skipped. (6) Replay files carry \"engine\":\"rtpsd\"; for a replay file of the other half the binary exits 2 so that the dispatcher tries the other engine. (7) Seeded change C04-1 (VOLATILE/late joiner) is out of scope: all readers are matched before the first publication.",
        }
        json.dump(frag, open(f"/verif/tools/fragments/{prop}.rtps.json", "w"), indent=1)
        print("wrote", prop, "sensitivity rows:", len(frag["sensitivity"]))

main()
