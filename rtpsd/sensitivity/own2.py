# own-2: best-effort reader: a DATA that jumps ahead only marks the skipped changes lost (lost_changes_update) and is
# no longer recorded as received
p='dds/src/rtps/stateful_reader.rs'; s=open(p).read()
old='''                    if sequence_number >= expected_seq_num {
                        writer_proxy.received_change_set(sequence_number);
                        if sequence_number > expected_seq_num {
                            writer_proxy.lost_changes_update(sequence_number);
                        }
'''
assert old in s
s=s.replace(old,'''                    if sequence_number >= expected_seq_num {
                        if sequence_number > expected_seq_num {
                            writer_proxy.lost_changes_update(sequence_number);
                        } else {
                            writer_proxy.received_change_set(sequence_number);
                        }
''')
open(p,'w').write(s)
