//! Trigger features of confirmed findings.
//!
//! Every confirmed root cause has a structural trigger (a predicate over type, value and
//! encoding). A failing evaluation whose case shows a trigger is attributed to that root cause
//! (its signature names the feature, not the payload); a failing evaluation without any trigger
//! gets a generic signature and is a new violation. In "clean" mode the generator output is
//! rewritten so that no trigger of a finding listed for the property occurs, which keeps the
//! remaining space explored at full power; the number of clean/unrestricted cases is reported.

use crate::rxcdr::{Enc, Ver};
use crate::types::*;

#[derive(Clone, Copy, Debug, PartialEq, Eq, PartialOrd, Ord)]
pub enum Feat {
    /// char8 value above 0x7f (written as two UTF-8 bytes, read back as one Latin-1 byte)
    Char8NonAscii,
    /// XCDR1: optional member in a final/appendable struct (parameter header; reader rewinds)
    V1OptionalInFinal,
    /// XCDR1: 8-byte aligned primitive behind a parameter header (alignment origin differs between writer and reader)
    V1Align8AfterParam,
    /// XCDR1: member id >= 0x3F00 needs the extended parameter header
    V1BigId,
    /// XCDR1: parameter value longer than 65535 bytes needs the extended parameter header
    V1LongParam,
    /// collection whose element type is an appendable (XCDR2) or mutable union: written as final union
    NonFinalUnionElem,
    /// XCDR2: mutable struct/union below the top level, or a mutable struct with an absent member:
    /// the reader ignores the DHEADER (does not skip the body, searches members past its end)
    V2MutableDheaderIgnored,
    /// XCDR1: mutable union below the top level (the reader never consumes the parameter list)
    V1NestedMutableUnion,
    /// XCDR1: nested mutable struct with a member id 1 (= RTPS PID_SENTINEL, which dust-dds uses as
    /// list terminator instead of PID_LIST_END 0x3F02; the reader stops at the member)
    V1NestedMutableId1,
    /// XCDR1: any mutable aggregate: parameter list terminated by PID 0x0001 instead of 0x3F02 (C10)
    V1ListEnd,
    /// XCDR2: EMHEADER LC 6/7 on a sequence of 4/8-byte primitives (reader does not share NEXTINT) (C10, decode)
    V2ReaderLc67,
    /// XCDR1: appendable union (the reader expects a DHEADER that XCDR1 does not have)
    V1AppendableUnion,
    /// XCDR1: float128 member (written with 8-byte alignment, read with 16-byte alignment)
    V1Float128,
    /// XCDR2: two member ids of one mutable struct equal modulo 65536
    V2IdsCollideMod16,
    /// XCDR2: mutable member that is a sequence of primitives wider than one byte (LC 5 used with an element count)
    V2MutablePrimSeqLc,
    /// wide string member
    WString,
}

impl Feat {
    pub fn name(self) -> &'static str {
        match self {
            Feat::Char8NonAscii => "char8-non-ascii",
            Feat::V1OptionalInFinal => "xcdr1-optional-in-final-struct",
            Feat::V1Align8AfterParam => "xcdr1-align8-after-parameter-header",
            Feat::V1BigId => "xcdr1-member-id-needs-extended-pid",
            Feat::V1LongParam => "xcdr1-member-longer-than-65535",
            Feat::NonFinalUnionElem => "collection-of-non-final-union",
            Feat::V2MutableDheaderIgnored => "xcdr2-mutable-dheader-ignored",
            Feat::V1NestedMutableUnion => "xcdr1-nested-mutable-union",
            Feat::V1NestedMutableId1 => "xcdr1-member-id-1-taken-for-sentinel",
            Feat::V1ListEnd => "xcdr1-list-terminated-by-pid-1-not-0x3f02",
            Feat::V2ReaderLc67 => "xcdr2-lc6-lc7-nextint-not-shared",
            Feat::V1AppendableUnion => "xcdr1-appendable-union",
            Feat::V1Float128 => "xcdr1-float128-alignment",
            Feat::V2IdsCollideMod16 => "xcdr2-member-ids-equal-mod-65536",
            Feat::V2MutablePrimSeqLc => "xcdr2-mutable-member-primitive-sequence",
            Feat::WString => "wstring",
        }
    }
    pub fn all() -> Vec<Feat> {
        vec![
            Feat::Char8NonAscii,
            Feat::V1OptionalInFinal,
            Feat::V1Align8AfterParam,
            Feat::V1BigId,
            Feat::V1LongParam,
            Feat::NonFinalUnionElem,
            Feat::V2MutableDheaderIgnored,
            Feat::V1NestedMutableUnion,
            Feat::V1NestedMutableId1,
            Feat::V1AppendableUnion,
            Feat::V1Float128,
            Feat::V2IdsCollideMod16,
            Feat::V2MutablePrimSeqLc,
            Feat::V2ReaderLc67,
            Feat::V1ListEnd,
            Feat::WString,
        ]
    }

    /// does the root cause sit in the serializer / in the deserializer?
    pub fn affects_writer(self) -> bool {
        matches!(
            self,
            Feat::Char8NonAscii | Feat::V1BigId | Feat::V1LongParam | Feat::NonFinalUnionElem | Feat::V2MutablePrimSeqLc | Feat::V1ListEnd
        )
    }
    pub fn affects_reader(self) -> bool {
        !matches!(self, Feat::Char8NonAscii | Feat::NonFinalUnionElem | Feat::V2MutablePrimSeqLc | Feat::WString)
    }
}

/// Which features are confirmed findings for a property (failures showing them are attributed
/// to them, clean mode avoids them).
#[derive(Clone, Debug)]
pub struct Allowed {
    pub known: Vec<Feat>,
}

impl Allowed {
    pub fn everything() -> Self {
        Allowed { known: Feat::all() }
    }
    pub fn none() -> Self {
        Allowed { known: vec![] }
    }
    pub fn for_property(id: &str) -> Self {
        if std::env::var("XCDR_NO_FEATURES").is_ok() {
            return Allowed::none();
        }
        match id {
            "C09" => Allowed {
                known: vec![
                    Feat::Char8NonAscii,
                    Feat::V1OptionalInFinal,
                    Feat::V1Align8AfterParam,
                    Feat::V1BigId,
                    Feat::V1LongParam,
                    Feat::NonFinalUnionElem,
                    Feat::V2MutableDheaderIgnored,
                    Feat::V1NestedMutableUnion,
                    Feat::V1NestedMutableId1,
                    Feat::V1AppendableUnion,
                    Feat::V1Float128,
                    Feat::V2IdsCollideMod16,
                    Feat::V2MutablePrimSeqLc,
                ],
            },
            "C10" => Allowed { known: Feat::all().into_iter().filter(|f| *f != Feat::WString).collect() },
            // (V1ListEnd and V2ReaderLc67 are only consulted by C10)
            "C39" => Allowed {
                known: vec![
                    Feat::Char8NonAscii,
                    Feat::V1OptionalInFinal,
                    Feat::V1Align8AfterParam,
                    Feat::V1BigId,
                    Feat::V1LongParam,
                    Feat::NonFinalUnionElem,
                    Feat::V2MutableDheaderIgnored,
                    Feat::V1NestedMutableUnion,
                    Feat::V1NestedMutableId1,
                    Feat::V1AppendableUnion,
                    Feat::V1Float128,
                    Feat::V2IdsCollideMod16,
                    Feat::V2MutablePrimSeqLc,
                ],
            },
            _ => Allowed::none(),
        }
    }
    pub fn has(&self, f: Feat) -> bool {
        self.known.contains(&f)
    }
}

fn has_wide_prim(t: &Ty) -> bool {
    t.any(&|x| matches!(x, Ty::Prim(Prim::I64 | Prim::U64 | Prim::F64 | Prim::F128)))
}

fn uses_param_header_v1(t: &Ty) -> bool {
    t.any(&|x| match x {
        Ty::Struct(s) => s.ext == Ext::Mutable || s.members.iter().any(|m| m.optional),
        Ty::Union(u) => u.ext == Ext::Mutable,
        _ => false,
    })
}

/// predicate holds for a type node strictly below the top level
fn nested_any(ty: &Ty, p: &dyn Fn(&Ty) -> bool) -> bool {
    let mut first = true;
    let mut r = false;
    ty.visit(&mut |t| {
        if first {
            first = false;
        } else {
            r |= p(t);
        }
    });
    r
}

fn val_any(ty: &Ty, v: &Val, p: &mut dyn FnMut(&Ty, &Val) -> bool) -> bool {
    if p(ty, v) {
        return true;
    }
    match (ty, v) {
        (Ty::Struct(s), Val::Struct(ms)) => s.members.iter().zip(ms).any(|(m, mv)| mv.as_ref().map(|x| val_any(&m.ty, x, p)).unwrap_or(false)),
        (Ty::Union(u), Val::Union { case: Some(ci), val: Some(mv), .. }) => u.cases[*ci].ty.as_ref().map(|t| val_any(t, mv, p)).unwrap_or(false),
        (Ty::Seq(e, _) | Ty::Array(e, _), Val::List(l)) => {
            // long primitive lists: look at a prefix only
            l.iter().take(200).any(|x| val_any(e, x, p))
        }
        _ => false,
    }
}

/// rough XCDR size of a value (upper estimate is fine: only used against the 65535 limit)
fn approx_size(ty: &Ty, v: &Val) -> usize {
    match (ty, v) {
        (Ty::Prim(p), _) => p.size(),
        (_, Val::Str(s)) => 5 + s.len(),
        (Ty::Enum(_), _) => 4,
        (Ty::Struct(s), Val::Struct(ms)) => s.members.iter().zip(ms).map(|(m, mv)| 8 + mv.as_ref().map(|x| approx_size(&m.ty, x)).unwrap_or(0)).sum::<usize>() + 8,
        (Ty::Union(u), Val::Union { case: Some(ci), val: Some(mv), .. }) => 24 + u.cases[*ci].ty.as_ref().map(|t| approx_size(t, mv)).unwrap_or(0),
        (Ty::Seq(e, _) | Ty::Array(e, _), Val::List(l)) => match &**e {
            Ty::Prim(p) => 8 + p.size() * l.len(),
            _ => 8 + l.iter().map(|x| approx_size(e, x) + 7).sum::<usize>(),
        },
        _ => 16,
    }
}

pub fn scan(ty: &Ty, v: &Val, enc: Enc) -> Vec<Feat> {
    let mut f = vec![];
    let v1 = enc.ver == Ver::V1;
    if val_any(ty, v, &mut |t, x| matches!((t, x), (Ty::Prim(Prim::Char8), Val::U8(b)) if *b >= 0x80)) {
        f.push(Feat::Char8NonAscii);
    }
    if ty.any(&|t| matches!(t, Ty::WStr(_))) {
        f.push(Feat::WString);
    }
    if v1 {
        if ty.any(&|t| matches!(t, Ty::Struct(s) if s.ext != Ext::Mutable && s.members.iter().any(|m| m.optional))) {
            f.push(Feat::V1OptionalInFinal);
        }
        if uses_param_header_v1(ty) && has_wide_prim(ty) {
            f.push(Feat::V1Align8AfterParam);
        }
        if ty.any(&|t| match t {
            Ty::Struct(s) => s.members.iter().any(|m| m.id >= 0x3F00 && (s.ext == Ext::Mutable || m.optional)),
            Ty::Union(u) => u.ext == Ext::Mutable && u.cases.iter().any(|c| c.id >= 0x3F00),
            _ => false,
        }) {
            f.push(Feat::V1BigId);
        }
        if val_any(ty, v, &mut |t, x| match (t, x) {
            (Ty::Struct(s), Val::Struct(ms)) => s
                .members
                .iter()
                .zip(ms)
                .any(|(m, mv)| (s.ext == Ext::Mutable || m.optional) && mv.as_ref().map(|x| approx_size(&m.ty, x) > 65_000).unwrap_or(false)),
            (Ty::Union(u), Val::Union { case: Some(ci), val: Some(mv), .. }) => {
                u.ext == Ext::Mutable && u.cases[*ci].ty.as_ref().map(|t| approx_size(t, mv) > 65_000).unwrap_or(false)
            }
            _ => false,
        }) {
            f.push(Feat::V1LongParam);
        }
    }
    if ty.any(&|t| match t {
        Ty::Seq(e, _) | Ty::Array(e, _) => match &**e {
            Ty::Union(u) => u.ext == Ext::Mutable || (u.ext == Ext::Appendable && !v1),
            _ => false,
        },
        _ => false,
    }) {
        f.push(Feat::NonFinalUnionElem);
    }
    if v1 {
        if nested_any(ty, &|t| matches!(t, Ty::Union(u) if u.ext == Ext::Mutable)) {
            f.push(Feat::V1NestedMutableUnion);
        }
        if nested_any(ty, &|t| matches!(t, Ty::Struct(s) if s.ext == Ext::Mutable && s.members.iter().any(|m| m.id == 1))) {
            f.push(Feat::V1NestedMutableId1);
        }
        if ty.any(&|t| matches!(t, Ty::Union(u) if u.ext == Ext::Appendable)) {
            f.push(Feat::V1AppendableUnion);
        }
        if ty.any(&|t| matches!(t, Ty::Prim(Prim::F128))) {
            f.push(Feat::V1Float128);
        }
        if ty.any(&|t| matches!(t.ext(), Some(Ext::Mutable))) {
            f.push(Feat::V1ListEnd);
        }
    }
    if !v1 {
        if nested_any(ty, &|t| matches!(t.ext(), Some(Ext::Mutable)))
            || val_any(ty, v, &mut |t, x| match (t, x) {
                (Ty::Struct(s), Val::Struct(ms)) => s.ext == Ext::Mutable && ms.iter().any(|m| m.is_none()),
                _ => false,
            })
        {
            f.push(Feat::V2MutableDheaderIgnored);
        }
        if ty.any(&|t| match t {
            Ty::Struct(s) if s.ext == Ext::Mutable => {
                let mut low: Vec<u32> = s.members.iter().map(|m| m.id & 0xFFFF).collect();
                low.sort();
                low.windows(2).any(|w| w[0] == w[1])
            }
            _ => false,
        }) {
            f.push(Feat::V2IdsCollideMod16);
        }
        if ty.any(&|t| match t {
            Ty::Struct(s) if s.ext == Ext::Mutable => s.members.iter().any(|m| matches!(&m.ty, Ty::Seq(e, _) if matches!(**e, Ty::Prim(p) if p.size() > 1))),
            Ty::Union(u) if u.ext == Ext::Mutable => u.cases.iter().any(|c| matches!(&c.ty, Some(Ty::Seq(e, _)) if matches!(**e, Ty::Prim(p) if p.size() > 1))),
            _ => false,
        }) {
            f.push(Feat::V2MutablePrimSeqLc);
        }
        if ty.any(&|t| match t {
            Ty::Struct(s) if s.ext == Ext::Mutable => s.members.iter().any(|m| matches!(&m.ty, Ty::Seq(e, _) if matches!(**e, Ty::Prim(p) if p.size() >= 4 && p.size() <= 8))),
            Ty::Union(u) if u.ext == Ext::Mutable => u.cases.iter().any(|c| matches!(&c.ty, Some(Ty::Seq(e, _)) if matches!(**e, Ty::Prim(p) if p.size() >= 4 && p.size() <= 8))),
            _ => false,
        }) {
            f.push(Feat::V2ReaderLc67);
        }
    }
    // attribution takes the first known feature present: structural, always-failing triggers
    // first, value-level ones last
    const ORDER: [Feat; 16] = [
        Feat::V1OptionalInFinal,
        Feat::V1AppendableUnion,
        Feat::V1NestedMutableUnion,
        Feat::V1NestedMutableId1,
        Feat::V2MutableDheaderIgnored,
        Feat::V1Align8AfterParam,
        Feat::V1BigId,
        Feat::V1LongParam,
        Feat::V1Float128,
        Feat::V2IdsCollideMod16,
        Feat::V2MutablePrimSeqLc,
        Feat::V2ReaderLc67,
        Feat::NonFinalUnionElem,
        Feat::Char8NonAscii,
        Feat::WString,
        Feat::V1ListEnd,
    ];
    f.sort_by_key(|x| ORDER.iter().position(|o| o == x).unwrap_or(99));
    f
}

/// The feature a failure is attributed to: the first known one present.
pub fn blame(feats: &[Feat], allowed: &Allowed) -> Option<Feat> {
    feats.iter().copied().find(|f| allowed.has(*f))
}
pub fn blame_writer(feats: &[Feat], allowed: &Allowed) -> Option<Feat> {
    feats.iter().copied().find(|f| allowed.has(*f) && f.affects_writer())
}
pub fn blame_reader(feats: &[Feat], allowed: &Allowed) -> Option<Feat> {
    feats.iter().copied().find(|f| allowed.has(*f) && f.affects_reader())
}

/// Rewrite a generated type so that none of the known trigger shapes occurs.
pub fn sanitize(ty: &Ty, allowed: &Allowed) -> Ty {
    let mut t = ty.clone();
    if allowed.has(Feat::V2MutableDheaderIgnored) || allowed.has(Feat::V1NestedMutableUnion) || allowed.has(Feat::V1NestedMutableId1) {
        // no mutable aggregate below the top level
        match &mut t {
            Ty::Struct(s) => s.members.iter_mut().for_each(|m| demote_mutable(&mut m.ty)),
            Ty::Union(u) => u.cases.iter_mut().filter_map(|c| c.ty.as_mut()).for_each(demote_mutable),
            _ => {}
        }
    }
    // 8-byte primitives cannot coexist with XCDR1 parameter headers: alternate which one gives way
    let drop_wide = allowed.has(Feat::V1Align8AfterParam) && uses_param_header_v1(&t) && has_wide_prim(&t);
    rewrite(&mut t, allowed, drop_wide);
    t
}

fn demote_mutable(t: &mut Ty) {
    match t {
        Ty::Struct(s) => {
            if s.ext == Ext::Mutable {
                s.ext = Ext::Appendable;
                for (i, m) in s.members.iter_mut().enumerate() {
                    m.id = i as u32;
                }
            }
            s.members.iter_mut().for_each(|m| demote_mutable(&mut m.ty));
        }
        Ty::Union(u) => {
            if u.ext == Ext::Mutable {
                u.ext = Ext::Appendable;
            }
            u.cases.iter_mut().filter_map(|c| c.ty.as_mut()).for_each(demote_mutable);
        }
        Ty::Seq(e, _) | Ty::Array(e, _) => demote_mutable(e),
        _ => {}
    }
}

fn rewrite(t: &mut Ty, a: &Allowed, drop_wide: bool) {
    match t {
        Ty::Prim(p) => {
            if a.has(Feat::V1Float128) && *p == Prim::F128 {
                *p = Prim::F64;
            }
            if drop_wide {
                *p = match *p {
                    Prim::I64 => Prim::I32,
                    Prim::U64 => Prim::U32,
                    Prim::F64 => Prim::F32,
                    Prim::F128 => Prim::U16,
                    o => o,
                };
            }
        }
        Ty::WStr(b) => {
            if a.has(Feat::WString) {
                *t = Ty::Str(*b);
            }
        }
        Ty::Struct(s) => {
            if a.has(Feat::V1OptionalInFinal) && s.ext != Ext::Mutable {
                for m in s.members.iter_mut() {
                    m.optional = false;
                }
            }
            if s.ext == Ext::Mutable {
                if a.has(Feat::V1BigId) {
                    for m in s.members.iter_mut() {
                        m.id %= 0x3F00;
                    }
                }
                if a.has(Feat::V2IdsCollideMod16) || a.has(Feat::V1BigId) {
                    let mut seen = std::collections::BTreeSet::new();
                    for m in s.members.iter_mut() {
                        while !seen.insert(m.id & 0xFFFF) {
                            m.id = (m.id + 1) % 0x3F00;
                        }
                    }
                }
                if a.has(Feat::V2MutableDheaderIgnored) {
                    for m in s.members.iter_mut() {
                        m.optional = false;
                    }
                }
                if a.has(Feat::V2MutablePrimSeqLc) {
                    for m in s.members.iter_mut() {
                        if let Ty::Seq(e, _) = &mut m.ty {
                            if let Ty::Prim(p) = &mut **e {
                                if p.size() > 1 {
                                    *p = Prim::U8;
                                }
                            }
                        }
                    }
                }
            }
            for m in s.members.iter_mut() {
                rewrite(&mut m.ty, a, drop_wide);
            }
        }
        Ty::Union(u) => {
            if u.ext == Ext::Mutable && a.has(Feat::V2MutablePrimSeqLc) {
                for c in u.cases.iter_mut() {
                    if let Some(Ty::Seq(e, _)) = &mut c.ty {
                        if let Ty::Prim(p) = &mut **e {
                            if p.size() > 1 {
                                *p = Prim::U8;
                            }
                        }
                    }
                }
            }
            for c in u.cases.iter_mut() {
                if let Some(ct) = &mut c.ty {
                    rewrite(ct, a, drop_wide);
                }
            }
        }
        Ty::Seq(e, _) | Ty::Array(e, _) => {
            if a.has(Feat::NonFinalUnionElem) {
                if let Ty::Union(u) = &mut **e {
                    u.ext = Ext::Final;
                }
            }
            rewrite(e, a, drop_wide);
        }
        _ => {}
    }
}

pub fn clean_val_cfg(vc: &ValCfg, a: &Allowed, ty: &Ty) -> ValCfg {
    let mut v = *vc;
    if a.has(Feat::Char8NonAscii) {
        v.latin1 = false;
    }
    if a.has(Feat::V1LongParam) && uses_param_header_v1(ty) {
        v.thorough = false; // no 65 535±1 lists behind a 16-bit parameter length
    }
    v
}
