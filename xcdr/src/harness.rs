//! Glue shared by the five checks: calling dust-dds under `catch_unwind`, panic signatures, a
//! campaign driver that keeps exploring after a violation (each distinct signature is reported
//! once, minimised), replay plumbing.

use crate::rxcdr::{Enc, Ver};
use dust_dds::verif_hooks::{self, VerifEncoding};
use dust_dds::xtypes::dynamic_type::{DynamicData, DynamicType};
use proptest::strategy::Strategy;
use serde_json::Value;
use std::cell::RefCell;
use std::collections::BTreeSet;
use std::panic::{AssertUnwindSafe, catch_unwind};
use vcore::{Ctx, Failure, Known, Report};

thread_local! {
    static LAST_PANIC: RefCell<Option<String>> = const { RefCell::new(None) };
    static GUARDED: std::cell::Cell<bool> = const { std::cell::Cell::new(false) };
}

pub fn install_panic_hook() {
    std::panic::set_hook(Box::new(|info| {
        let loc = info.location().map(|l| l.file().to_string()).unwrap_or_default();
        let msg = if let Some(s) = info.payload().downcast_ref::<&str>() {
            s.to_string()
        } else if let Some(s) = info.payload().downcast_ref::<String>() {
            s.clone()
        } else {
            "panic".to_string()
        };
        if !GUARDED.with(|g| g.get()) {
            eprintln!("harness panic at {loc}: {msg}");
        }
        LAST_PANIC.with(|p| *p.borrow_mut() = Some(format!("{loc}|{msg}")));
    }));
}

/// `<file>:<message with digit runs replaced by N>`; harness panics are marked so they never
/// become violations.
pub fn panic_signature(raw: &str) -> (bool, String) {
    let (file, msg) = raw.split_once('|').unwrap_or(("", raw));
    let mut m = String::new();
    let mut in_digits = false;
    for c in msg.chars() {
        if c.is_ascii_digit() {
            if !in_digits {
                m.push('N');
            }
            in_digits = true;
        } else {
            in_digits = false;
            m.push(if c == '\n' { ' ' } else { c });
        }
    }
    let m: String = m.chars().take(90).collect();
    let short = file.rsplit("/repo/").next().unwrap_or(file).to_string();
    let in_dust = file.contains("/repo/") || file.contains("dds/src") || file.starts_with("/tmp/wt-");
    let short = if let Some(i) = short.find("dds/src") { short[i..].to_string() } else { short };
    (in_dust, format!("{short}:{m}"))
}

pub enum Caught<T> {
    Ok(T),
    /// (raised inside dust-dds?, signature tail)
    Panic(bool, String),
}

pub fn guarded<T>(f: impl FnOnce() -> T) -> Caught<T> {
    LAST_PANIC.with(|p| *p.borrow_mut() = None);
    let was = GUARDED.with(|g| g.replace(true));
    let r = catch_unwind(AssertUnwindSafe(f));
    GUARDED.with(|g| g.set(was));
    match r {
        Ok(v) => Caught::Ok(v),
        Err(_) => {
            let raw = LAST_PANIC.with(|p| p.borrow_mut().take()).unwrap_or_else(|| "|unknown panic".into());
            let (in_dust, sig) = panic_signature(&raw);
            Caught::Panic(in_dust, sig)
        }
    }
}

pub fn verif_enc(e: Enc) -> VerifEncoding {
    match (e.ver, e.be) {
        (Ver::V1, false) => VerifEncoding::Xcdr1Le,
        (Ver::V1, true) => VerifEncoding::Xcdr1Be,
        (Ver::V2, false) => VerifEncoding::Xcdr2Le,
        (Ver::V2, true) => VerifEncoding::Xcdr2Be,
    }
}

pub fn dust_serialize(d: &DynamicData<'static>, e: Enc) -> Caught<Result<Vec<u8>, String>> {
    guarded(|| verif_hooks::serialize(d, verif_enc(e)).map_err(|x| format!("{x:?}")))
}

pub fn dust_deserialize(t: DynamicType<'static>, bytes: &[u8]) -> Caught<Result<DynamicData<'static>, String>> {
    guarded(|| verif_hooks::deserialize(t, bytes).map_err(|x| format!("{x:?}")))
}

pub fn dust_handle(d: &DynamicData<'static>) -> Caught<Result<[u8; 16], String>> {
    guarded(|| verif_hooks::instance_handle(d).map(<[u8; 16]>::from).map_err(|x| format!("{x:?}")))
}

pub fn hex(b: &[u8]) -> String {
    let mut s = String::new();
    for (i, x) in b.iter().enumerate() {
        if i > 0 && i % 4 == 0 {
            s.push(' ');
        }
        s.push_str(&format!("{x:02x}"));
        if i > 95 {
            s.push_str(&format!(" …(+{} bytes)", b.len() - i - 1));
            break;
        }
    }
    s
}

/// What the evaluation of one case reports (crosses the fork boundary as JSON).
#[derive(Clone, Debug, Default, serde::Serialize, serde::Deserialize)]
pub struct Outcome {
    /// every oracle rejection inside the case, at most one per signature
    pub verdicts: Vec<(String, String)>,
    pub classes: Vec<String>,
    /// number of oracle evaluations inside the case (value x encoding, pairs, ...)
    pub evaluations: u64,
    pub nontrivial: bool,
}

impl Outcome {
    pub fn fail(&mut self, sig: impl Into<String>, what: impl Into<String>) {
        let sig = sig.into();
        if !self.verdicts.iter().any(|(s, _)| *s == sig) {
            self.verdicts.push((sig, what.into()));
        }
    }
    pub fn class(&mut self, c: impl Into<String>) {
        self.classes.push(c.into());
    }
}

/// Evaluator process. All calls into dust-dds happen in a forked worker: decoding a mis-framed
/// stream (which the C09/C10 findings make dust-dds do with its own output) can request absurd
/// allocations (abort, not panic) or spin while allocating; the worker also owns all the leaked
/// `'static` type descriptors. The parent generates and shrinks cases and talks to the worker
/// over pipes (one JSON line per case / outcome). A worker that dies or exceeds its per-case CPU
/// allowance is an observation about the case it was working on; a new worker is forked for the
/// next case.
pub struct Worker<'a, C> {
    eval: &'a dyn Fn(&C, i32) -> Outcome,
    on_death: &'a dyn Fn(&C, &ChildDeath) -> Outcome,
    chan: Option<(i32, std::io::BufReader<std::fs::File>, i32)>, // (write fd, reader, pid)
    served: u32,
    pub deaths: u32,
}

const WORKER_RECYCLE: u32 = 4000;
static CASE_CPU_MILLIS: std::sync::atomic::AtomicI64 = std::sync::atomic::AtomicI64::new(60);

/// per-case CPU allowance of the evaluator process (quick tier 60 ms, thorough 400 ms: long lists)
pub fn set_case_cpu_millis(ms: i64) {
    CASE_CPU_MILLIS.store(ms, std::sync::atomic::Ordering::Relaxed);
}
const WORKER_AS_BYTES: u64 = 160 << 20;

impl<'a, C: serde::Serialize + serde::de::DeserializeOwned> Worker<'a, C> {
    pub fn new(eval: &'a dyn Fn(&C, i32) -> Outcome, on_death: &'a dyn Fn(&C, &ChildDeath) -> Outcome) -> Self {
        Worker { eval, on_death, chan: None, served: 0, deaths: 0 }
    }

    fn spawn(&mut self) {
        use std::io::{BufRead, Write};
        use std::os::fd::FromRawFd;
        unsafe {
            let mut down = [0i32; 2]; // parent -> worker
            let mut up = [0i32; 2]; // worker -> parent
            assert!(libc::pipe(down.as_mut_ptr()) == 0 && libc::pipe(up.as_mut_ptr()) == 0, "pipe");
            let pid = libc::fork();
            assert!(pid >= 0, "fork");
            if pid == 0 {
                libc::close(down[1]);
                libc::close(up[0]);
                libc::prctl(libc::PR_SET_PDEATHSIG, libc::SIGKILL);
                let rl = libc::rlimit { rlim_cur: WORKER_AS_BYTES, rlim_max: WORKER_AS_BYTES };
                libc::setrlimit(libc::RLIMIT_AS, &rl);
                let rl = libc::rlimit { rlim_cur: 0, rlim_max: 0 };
                libc::setrlimit(libc::RLIMIT_CORE, &rl);
                let null = libc::open(c"/dev/null".as_ptr(), libc::O_WRONLY);
                if null >= 0 {
                    libc::dup2(null, 2);
                }
                let mut input = std::io::BufReader::new(std::fs::File::from_raw_fd(down[0]));
                let mut output = std::fs::File::from_raw_fd(up[1]);
                let mut line = String::new();
                loop {
                    line.clear();
                    match input.read_line(&mut line) {
                        Ok(0) | Err(_) => libc::_exit(0),
                        Ok(_) => {}
                    }
                    // message = "<cpu allowance in ms> <case json>"
                    let (ms, body) = match line.split_once(' ') {
                        Some((a, b)) => (a.parse::<i64>().unwrap_or(1000), b),
                        None => libc::_exit(3),
                    };
                    let case: C = match serde_json::from_str(body) {
                        Ok(c) => c,
                        Err(_) => libc::_exit(3),
                    };
                    // per-case CPU allowance (process CPU time)
                    let tv = libc::itimerval {
                        it_interval: libc::timeval { tv_sec: 0, tv_usec: 0 },
                        it_value: libc::timeval { tv_sec: ms / 1000, tv_usec: (ms % 1000) * 1000 },
                    };
                    libc::setitimer(libc::ITIMER_PROF, &tv, std::ptr::null_mut());
                    let o = (self.eval)(&case, up[1]);
                    let off = libc::itimerval {
                        it_interval: libc::timeval { tv_sec: 0, tv_usec: 0 },
                        it_value: libc::timeval { tv_sec: 0, tv_usec: 0 },
                    };
                    libc::setitimer(libc::ITIMER_PROF, &off, std::ptr::null_mut());
                    let mut reply = b"#DONE ".to_vec();
                    reply.extend(serde_json::to_vec(&o).unwrap());
                    reply.push(b'\n');
                    if output.write_all(&reply).is_err() {
                        libc::_exit(0);
                    }
                }
            }
            libc::close(down[0]);
            libc::close(up[1]);
            self.chan = Some((down[1], std::io::BufReader::new(std::fs::File::from_raw_fd(up[0])), pid));
            self.served = 0;
        }
    }

    fn reap(&mut self) -> String {
        if let Some((w, _r, pid)) = self.chan.take() {
            unsafe {
                libc::close(w);
                let mut status = 0i32;
                libc::waitpid(pid, &mut status, 0);
                if libc::WIFSIGNALED(status) {
                    return format!("signal {}", libc::WTERMSIG(status));
                } else if libc::WIFEXITED(status) {
                    return format!("exit {}", libc::WEXITSTATUS(status));
                }
            }
        }
        "gone".into()
    }

    pub fn eval(&mut self, case: &C) -> Outcome {
        if std::env::var("XCDR_INPROCESS").is_ok() {
            return (self.eval)(case, -1);
        }
        let ms = CASE_CPU_MILLIS.load(std::sync::atomic::Ordering::Relaxed);
        match self.eval_once(case, ms) {
            Ok(o) => o,
            Err(d) if d.exit == "signal 27" => {
                // CPU allowance exceeded: could be machine load right after a fork (copy-on-write
                // faults are charged to the worker). Decide with a 20x allowance in a fresh worker so
                // that the verdict does not depend on timing.
                match self.eval_once(case, ms * 20) {
                    Ok(o) => o,
                    Err(d) => {
                        self.deaths += 1;
                        (self.on_death)(case, &d)
                    }
                }
            }
            Err(d) => {
                self.deaths += 1;
                (self.on_death)(case, &d)
            }
        }
    }

    fn eval_once(&mut self, case: &C, ms: i64) -> Result<Outcome, ChildDeath> {
        use std::io::BufRead;
        if self.chan.is_none() || self.served >= WORKER_RECYCLE {
            self.reap();
            self.spawn();
        }
        self.served += 1;
        let mut msg = format!("{ms} ").into_bytes();
        msg.extend(serde_json::to_vec(case).unwrap());
        msg.push(b'\n');
        let (wfd, reader, _pid) = self.chan.as_mut().unwrap();
        let mut off = 0;
        let mut write_failed = false;
        while off < msg.len() {
            let n = unsafe { libc::write(*wfd, msg[off..].as_ptr() as *const libc::c_void, msg.len() - off) };
            if n <= 0 {
                write_failed = true;
                break;
            }
            off += n as usize;
        }
        let mut marker = String::new();
        if !write_failed {
            let mut line = String::new();
            loop {
                line.clear();
                match reader.read_line(&mut line) {
                    Ok(0) | Err(_) => break,
                    Ok(_) => {
                        if let Some(js) = line.strip_prefix("#DONE ") {
                            if let Ok(o) = serde_json::from_str::<Outcome>(js) {
                                return Ok(o);
                            }
                        } else if let Some(m) = line.strip_prefix('@') {
                            marker = m.trim().to_string();
                        }
                    }
                }
            }
        }
        // the worker died on this case
        let exit = self.reap();
        let refused = if exit == "signal 6" { Some(0) } else { None };
        Err(ChildDeath { marker, refused_alloc: refused, exit })
    }
}

impl<'a, C> Drop for Worker<'a, C> {
    fn drop(&mut self) {
        if let Some((w, _r, pid)) = self.chan.take() {
            unsafe {
                libc::close(w);
                let mut status = 0i32;
                libc::waitpid(pid, &mut status, 0);
            }
        }
    }
}

pub struct CampaignCfg<'a> {
    pub stream: &'a str,
    pub cases: u32,
    pub batch: usize,
    pub max_shrink: u32,
}

/// Campaign driver: deterministic generation with the proptest runner, batched fork-per-batch
/// evaluation, known-finding exclusion, and after a violation with a new signature: minimisation
/// of that case (proptest simplify/complicate) and continuation (each distinct signature is
/// reported once per run).
pub fn campaign<S, C>(
    ctx: &Ctx,
    cfg: CampaignCfg,
    strategy: &S,
    report: &mut Report,
    realize: &dyn Fn(&S::Value) -> C,
    eval: &dyn Fn(&C, i32) -> Outcome,
    on_death: &dyn Fn(&C, &ChildDeath) -> Outcome,
    sample: &dyn Fn(&C) -> Value,
) where
    S: Strategy,
    C: serde::Serialize + serde::de::DeserializeOwned,
{
    use proptest::strategy::ValueTree;
    let mut cfg = cfg;
    if let Some(n) = std::env::var("XCDR_CASES").ok().and_then(|x| x.parse().ok()) {
        cfg.cases = n; // development aid
    }
    if let Some(n) = std::env::var("XCDR_SHRINK").ok().and_then(|x| x.parse().ok()) {
        cfg.max_shrink = n;
    }
    let worker = RefCell::new(Worker::new(eval, on_death));
    let known = Known::load(&ctx.id);
    let mut seen: BTreeSet<String> = BTreeSet::new();
    let stop_at_first = std::env::var("XCDR_STOP_AT_FIRST").is_ok();
    // at most this many new signatures are minimised per run; further ones are reported as found
    const MAX_MINIMISATIONS: usize = 6;
    let mut minimised = 0usize;
    let mut runner = vcore::pt::runner(cfg.cases, ctx.rng_seed(cfg.stream), cfg.max_shrink);
    let mut done = 0u32;
    let mut total_evals = 0u64;
    while done < cfg.cases {
        if stop_at_first && !report.failures.is_empty() {
            break;
        }
        let n = (cfg.batch as u32).min(cfg.cases - done) as usize;
        let mut trees = Vec::with_capacity(n);
        for _ in 0..n {
            trees.push(strategy.new_tree(&mut runner).expect("strategy"));
        }
        let cases: Vec<C> = trees.iter().map(|t| realize(&t.current())).collect();
        let outs: Vec<Outcome> = cases.iter().map(|c| worker.borrow_mut().eval(c)).collect();
        for (idx, o) in outs.into_iter().enumerate() {
            let js = serde_json::to_value(&cases[idx]).unwrap();
            let key = vcore::hash_json(&js);
            let mut classes = o.classes.clone();
            classes.sort();
            classes.dedup();
            report.stats.case(key, o.nontrivial, &classes);
            total_evals += o.evaluations;
            if report.stats.wants_sample() && (o.nontrivial || report.stats.samples.is_empty()) {
                report.stats.sample(sample(&cases[idx]));
            }
            for (sig, what) in o.verdicts {
                if sig.starts_with("harness:") {
                    report.failures.push(Failure { signature: sig, what, case: js.clone(), shrunk_from: None, shrunk_to: None });
                } else if known.matches(&sig) {
                    *report.stats.excluded_known.entry(sig).or_insert(0) += 1;
                } else if seen.contains(&sig) {
                    report.stats.class(&format!("also-hit:{sig}"));
                } else if minimised >= MAX_MINIMISATIONS {
                    seen.insert(sig.clone());
                    report.failures.push(Failure { signature: sig, what, case: js.clone(), shrunk_from: None, shrunk_to: None });
                } else {
                    // minimise this case with respect to this signature
                    minimised += 1;
                    if !report.stats.extra.contains_key("first_violation_wall_s") {
                        report.stats.extra.insert("first_violation_wall_s".into(), serde_json::json!(ctx.t0.elapsed().as_secs_f64()));
                    }
                    if std::env::var("XCDR_DEBUG").is_ok() {
                        eprintln!("[{}] new signature {sig} at case {}; shrinking", cfg.stream, done as usize + idx);
                    }
                    let from = js.to_string().len() as u64;
                    let tree = &mut trees[idx];
                    let mut best: (Value, String, String) = (js.clone(), sig.clone(), what);
                    let fails = |c: &C| -> Option<(String, String)> {
                        let o = worker.borrow_mut().eval(c);
                        // minimise with respect to this signature only (no drifting to another root cause)
                        o.verdicts.into_iter().find(|(s, _)| *s == sig)
                    };
                    let mut iters = 0;
                    if tree.simplify() {
                        loop {
                            iters += 1;
                            if iters > cfg.max_shrink {
                                break;
                            }
                            let c = realize(&tree.current());
                            match fails(&c) {
                                Some((s, w)) => {
                                    best = (serde_json::to_value(&c).unwrap(), s, w);
                                    if !tree.simplify() {
                                        break;
                                    }
                                }
                                None => {
                                    if !tree.complicate() {
                                        break;
                                    }
                                }
                            }
                        }
                    }
                    if std::env::var("XCDR_DEBUG").is_ok() {
                        eprintln!("[{}]   shrunk in {iters} steps to {} ({} deaths so far)", cfg.stream, best.1, worker.borrow().deaths);
                    }
                    seen.insert(sig);
                    seen.insert(best.1.clone());
                    let to = best.0.to_string().len() as u64;
                    report.failures.push(Failure { signature: best.1, what: best.2, case: best.0, shrunk_from: Some(from), shrunk_to: Some(to) });
                    // the tree has been consumed by shrinking: later verdicts of this case are
                    // met again by other cases
                    break;
                }
            }
        }
        done += n as u32;
        if std::env::var("XCDR_DEBUG").is_ok() {
            eprintln!("[{}] {done}/{} cases, {} deaths, {} failures, {:.1}s", cfg.stream, cfg.cases, worker.borrow().deaths, report.failures.len(), ctx.t0.elapsed().as_secs_f64());
        }
    }
    report.stats.extra.insert("cases".into(), serde_json::json!(report.stats.evaluations));
    report.stats.extra.insert("worker_deaths".into(), serde_json::json!(worker.borrow().deaths));
    report.stats.extra.insert("oracle_evaluations".into(), serde_json::json!(total_evals));
    report.stats.evaluations = total_evals;
}

/// Evaluate one saved case (replay) in a child and record the result.
pub fn replay_case<C: serde::Serialize + serde::de::DeserializeOwned>(
    report: &mut Report,
    case: &C,
    eval: &dyn Fn(&C, i32) -> Outcome,
    on_death: &dyn Fn(&C, &ChildDeath) -> Outcome,
) {
    let o = Worker::new(eval, on_death).eval(case);
    report.stats.evaluations = 1;
    if o.verdicts.is_empty() {
        println!("replay: the case passes (classes: {:?})", o.classes);
    }
    for (signature, what) in o.verdicts {
        println!("replay: FAIL {signature}\n  {what}");
        report.failures.push(Failure { signature, what, case: serde_json::to_value(case).unwrap(), shrunk_from: None, shrunk_to: None });
    }
}

// ------------------------------------------------------------------------------------------
// fork per case: decoding a mis-framed stream can request absurd allocations (abort, not panic);
// the child also takes all the leaked `'static` type descriptors with it when it exits.

pub struct ChildDeath {
    /// last progress marker the child wrote before dying
    pub marker: String,
    #[allow(dead_code)]
    pub refused_alloc: Option<usize>,
    pub exit: String,
}

pub fn mark(fd: i32, s: &str) {
    if fd < 0 {
        return;
    }
    let line = format!("@{s}\n");
    unsafe {
        libc::write(fd, line.as_ptr() as *const libc::c_void, line.len());
    }
}

