//! R-TYPES: the type/value universe shared by all xcdr checks.
//!
//! `Ty` is a small AST of the XTypes shapes dust-dds handles, `Val` a value of such a type.
//! Generators are recursive proptest strategies with a depth bound; values are derived from a
//! `Ty` and a shrinkable "tape" of random words so that proptest shrinks types structurally and
//! values towards the first (simplest) alternative.

use proptest::prelude::*;
use serde::{Deserialize, Serialize};

#[derive(Clone, Copy, Debug, PartialEq, Eq, Serialize, Deserialize, PartialOrd, Ord)]
pub enum Prim {
    Bool,
    Byte,
    I8,
    U8,
    I16,
    U16,
    I32,
    U32,
    I64,
    U64,
    F32,
    F64,
    F128,
    Char8,
}

impl Prim {
    pub fn size(self) -> usize {
        match self {
            Prim::Bool | Prim::Byte | Prim::I8 | Prim::U8 | Prim::Char8 => 1,
            Prim::I16 | Prim::U16 => 2,
            Prim::I32 | Prim::U32 | Prim::F32 => 4,
            Prim::I64 | Prim::U64 | Prim::F64 => 8,
            Prim::F128 => 16,
        }
    }
    pub fn name(self) -> &'static str {
        match self {
            Prim::Bool => "bool",
            Prim::Byte => "byte",
            Prim::I8 => "i8",
            Prim::U8 => "u8",
            Prim::I16 => "i16",
            Prim::U16 => "u16",
            Prim::I32 => "i32",
            Prim::U32 => "u32",
            Prim::I64 => "i64",
            Prim::U64 => "u64",
            Prim::F32 => "f32",
            Prim::F64 => "f64",
            Prim::F128 => "f128",
            Prim::Char8 => "char8",
        }
    }
}

pub const ALL_PRIMS: [Prim; 14] = [
    Prim::Bool,
    Prim::Byte,
    Prim::I8,
    Prim::U8,
    Prim::I16,
    Prim::U16,
    Prim::I32,
    Prim::U32,
    Prim::I64,
    Prim::U64,
    Prim::F32,
    Prim::F64,
    Prim::F128,
    Prim::Char8,
];

/// Discriminator kinds dust-dds can evaluate (`get_discriminator_*_as_i32`).
pub const DISC_PRIMS: [Prim; 6] = [Prim::I32, Prim::U16, Prim::U8, Prim::I8, Prim::I16, Prim::U32];

#[derive(Clone, Copy, Debug, PartialEq, Eq, Serialize, Deserialize)]
pub enum Ext {
    Final,
    Appendable,
    Mutable,
}

impl Ext {
    pub fn name(self) -> &'static str {
        match self {
            Ext::Final => "final",
            Ext::Appendable => "appendable",
            Ext::Mutable => "mutable",
        }
    }
}

#[derive(Clone, Debug, PartialEq, Eq, Serialize, Deserialize)]
pub struct EnumDef {
    pub name: String,
    /// 8, 16 or 32 (the holder types dust-dds supports)
    pub bit_bound: u8,
    /// (label name, value); values distinct
    pub labels: Vec<(String, i32)>,
}

#[derive(Clone, Debug, PartialEq, Eq, Serialize, Deserialize)]
pub struct Member {
    pub name: String,
    pub id: u32,
    pub ty: Ty,
    #[serde(default)]
    pub key: bool,
    #[serde(default)]
    pub optional: bool,
    #[serde(default)]
    pub must_understand: bool,
}

#[derive(Clone, Debug, PartialEq, Eq, Serialize, Deserialize)]
pub struct StructDef {
    pub name: String,
    pub ext: Ext,
    pub members: Vec<Member>,
}

#[derive(Clone, Debug, PartialEq, Eq, Serialize, Deserialize)]
pub struct Case {
    pub name: String,
    /// member id (>= 1; 0 is the discriminator)
    pub id: u32,
    pub labels: Vec<i32>,
    #[serde(default)]
    pub default: bool,
    /// None = case without a member (unit variant)
    pub ty: Option<Ty>,
}

#[derive(Clone, Debug, PartialEq, Eq, Serialize, Deserialize)]
pub struct UnionDef {
    pub name: String,
    pub ext: Ext,
    pub disc: Prim,
    pub cases: Vec<Case>,
}

#[derive(Clone, Debug, PartialEq, Eq, Serialize, Deserialize)]
pub enum Ty {
    Prim(Prim),
    /// bound (None = unbounded)
    Str(Option<u32>),
    /// wide string (C09 only)
    WStr(Option<u32>),
    Enum(EnumDef),
    Struct(Box<StructDef>),
    Union(Box<UnionDef>),
    Seq(Box<Ty>, Option<u32>),
    Array(Box<Ty>, u32),
}

#[derive(Clone, Debug, PartialEq, Eq, Serialize, Deserialize)]
pub enum Val {
    Bool(bool),
    /// byte / uint8 / char8 (Latin-1 code point)
    U8(u8),
    I8(i8),
    I16(i16),
    U16(u16),
    I32(i32),
    U32(u32),
    I64(i64),
    U64(u64),
    /// raw bits
    F32(u32),
    /// raw bits
    F64(u64),
    /// raw bits, rendered as string in JSON (serde_json has no u128)
    F128(#[serde(with = "u128_str")] u128),
    Str(String),
    Enum(i32),
    /// one entry per member in declaration order; None = absent (optional, or member missing)
    Struct(Vec<Option<Val>>),
    /// discriminator value, selected case index (None = no case), member value (None for unit case)
    Union { disc: i64, case: Option<usize>, val: Option<Box<Val>> },
    /// sequence or array
    List(Vec<Val>),
}

mod u128_str {
    use serde::{Deserialize, Deserializer, Serializer};
    pub fn serialize<S: Serializer>(v: &u128, s: S) -> Result<S::Ok, S::Error> {
        s.serialize_str(&format!("{v:x}"))
    }
    pub fn deserialize<'de, D: Deserializer<'de>>(d: D) -> Result<u128, D::Error> {
        let s = String::deserialize(d)?;
        u128::from_str_radix(&s, 16).map_err(serde::de::Error::custom)
    }
}

impl Ty {
    pub fn ext(&self) -> Option<Ext> {
        match self {
            Ty::Struct(s) => Some(s.ext),
            Ty::Union(u) => Some(u.ext),
            _ => None,
        }
    }
    /// aggregation depth counting only struct/union levels
    pub fn agg_depth(&self) -> u32 {
        match self {
            Ty::Prim(_) | Ty::Str(_) | Ty::WStr(_) | Ty::Enum(_) => 0,
            Ty::Struct(s) => 1 + s.members.iter().map(|m| m.ty.agg_depth()).max().unwrap_or(0),
            Ty::Union(u) => {
                1 + u.cases.iter().filter_map(|c| c.ty.as_ref()).map(|t| t.agg_depth()).max().unwrap_or(0)
            }
            Ty::Seq(e, _) | Ty::Array(e, _) => e.agg_depth(),
        }
    }
    /// visit every type node (pre-order)
    pub fn visit<'a>(&'a self, f: &mut dyn FnMut(&'a Ty)) {
        f(self);
        match self {
            Ty::Struct(s) => s.members.iter().for_each(|m| m.ty.visit(f)),
            Ty::Union(u) => u.cases.iter().filter_map(|c| c.ty.as_ref()).for_each(|t| t.visit(f)),
            Ty::Seq(e, _) | Ty::Array(e, _) => e.visit(f),
            _ => {}
        }
    }
    pub fn any(&self, p: &dyn Fn(&Ty) -> bool) -> bool {
        let mut r = false;
        self.visit(&mut |t| r |= p(t));
        r
    }
    /// short structural tag for signatures/classes (no names, no values)
    pub fn tag(&self) -> String {
        match self {
            Ty::Prim(p) => p.name().to_string(),
            Ty::Str(None) => "string".into(),
            Ty::Str(Some(_)) => "bstring".into(),
            Ty::WStr(_) => "wstring".into(),
            Ty::Enum(e) => format!("enum{}", e.bit_bound),
            Ty::Struct(s) => format!("{}-struct", s.ext.name()),
            Ty::Union(u) => format!("{}-union", u.ext.name()),
            Ty::Seq(e, b) => format!("{}seq<{}>", if b.is_some() { "b" } else { "" }, e.tag()),
            Ty::Array(e, _) => format!("array<{}>", e.tag()),
        }
    }
}

/// Class labels of a type for the evidence histogram.
pub fn type_classes(ty: &Ty) -> Vec<String> {
    let mut c = std::collections::BTreeSet::new();
    ty.visit(&mut |t| match t {
        Ty::Struct(s) => {
            c.insert(format!("struct-{}", s.ext.name()));
            if s.members.iter().any(|m| m.optional) {
                c.insert("optional-member".into());
            }
            if s.members.iter().any(|m| m.key) {
                c.insert("keyed".into());
            }
        }
        Ty::Union(u) => {
            c.insert(format!("union-{}", u.ext.name()));
        }
        Ty::Seq(e, b) => {
            match &**e {
                Ty::Struct(_) => c.insert("seq-of-struct".to_string()),
                Ty::Union(_) => c.insert("seq-of-union".to_string()),
                Ty::Enum(_) => c.insert("seq-of-enum".to_string()),
                Ty::Str(_) | Ty::WStr(_) => c.insert("seq-of-string".to_string()),
                _ => c.insert("seq-of-prim".to_string()),
            };
            if b.is_some() {
                c.insert("bounded-seq".into());
            }
        }
        Ty::Array(e, _) => {
            match &**e {
                Ty::Struct(_) => c.insert("array-of-struct".to_string()),
                Ty::Union(_) => c.insert("array-of-union".to_string()),
                Ty::Enum(_) => c.insert("array-of-enum".to_string()),
                Ty::Str(_) | Ty::WStr(_) => c.insert("array-of-string".to_string()),
                _ => c.insert("array-of-prim".to_string()),
            };
        }
        Ty::Enum(_) => {
            c.insert("enum".into());
        }
        Ty::Str(Some(_)) => {
            c.insert("bounded-string".into());
        }
        Ty::Str(None) => {
            c.insert("string".into());
        }
        Ty::WStr(_) => {
            c.insert("wstring".into());
        }
        Ty::Prim(_) => {}
    });
    c.insert(format!("agg-depth-{}", ty.agg_depth().min(5)));
    c.into_iter().collect()
}

/// DESIGN.md §4 rule for C09/C10: nesting depth >= 2 or an optional / mutable / union member.
pub fn nontrivial_type(ty: &Ty) -> bool {
    ty.agg_depth() >= 2
        || ty.any(&|t| match t {
            Ty::Struct(s) => s.ext == Ext::Mutable || s.members.iter().any(|m| m.optional),
            Ty::Union(_) => true,
            _ => false,
        })
}

// ------------------------------------------------------------------------------------------
// generation

/// Knobs of the type generator. Every `allow_*` flag that is false removes a shape from the
/// generated universe (used to exclude confirmed findings by construction, see fragments).
#[derive(Clone, Copy, Debug)]
pub struct GenCfg {
    pub depth: u32,
    pub max_members: usize,
    pub wstr: bool,
    pub f128: bool,
    /// member ids >= 0x3F00 (need the XCDR1 extended parameter header) allowed
    pub big_ids: bool,
    /// keys are generated (C11/C12) – otherwise a few members are keys at random
    pub keyed: bool,
}

impl GenCfg {
    pub fn new(thorough: bool) -> Self {
        GenCfg { depth: if thorough { 5 } else { 3 }, max_members: 5, wstr: false, f128: true, big_ids: true, keyed: false }
    }
}

fn ident(prefix: &'static str) -> impl Strategy<Value = String> {
    (0u32..1000).prop_map(move |n| format!("{prefix}{n}"))
}

pub fn prim_strategy(cfg: GenCfg) -> BoxedStrategy<Prim> {
    // float128 has no Rust mapping in the derive macro (only the XML/dynamic route): keep it rare
    let mut v: Vec<Prim> = vec![];
    for p in ALL_PRIMS {
        if p == Prim::F128 {
            if cfg.f128 {
                v.push(p);
            }
        } else {
            v.extend([p; 4]);
        }
    }
    proptest::sample::select(v).boxed()
}

fn bound_strategy() -> BoxedStrategy<Option<u32>> {
    prop_oneof![
        3 => Just(None),
        1 => (1u32..12).prop_map(Some),
        1 => prop_oneof![Just(255u32), Just(256), Just(100_000)].prop_map(Some),
    ]
    .boxed()
}

fn enum_strategy() -> BoxedStrategy<EnumDef> {
    (ident("E"), prop_oneof![Just(32u8), Just(8), Just(16)], 1usize..5, any::<u16>())
        .prop_map(|(name, bit_bound, n, seed)| {
            // distinct values; first enumerator not necessarily 0
            let base: i32 = match seed % 4 {
                0 => 0,
                1 => 1,
                2 => -3,
                _ => (seed as i32 % 50) + 2,
            };
            let step = 1 + (seed as i32 / 7) % 3;
            let labels = (0..n)
                .map(|i| (format!("L{i}"), base + step * i as i32))
                .map(|(l, v)| {
                    let v = match bit_bound {
                        8 => v.clamp(-128, 127),
                        16 => v.clamp(-32768, 32767),
                        _ => v,
                    };
                    (l, v)
                })
                .collect();
            EnumDef { name, bit_bound, labels }
        })
        .boxed()
}

fn leaf_strategy(cfg: GenCfg) -> BoxedStrategy<Ty> {
    let mut alts: Vec<(u32, BoxedStrategy<Ty>)> = vec![
        (8, prim_strategy(cfg).prop_map(Ty::Prim).boxed()),
        (3, bound_strategy().prop_map(Ty::Str).boxed()),
        (2, enum_strategy().prop_map(Ty::Enum).boxed()),
    ];
    if cfg.wstr {
        alts.push((1, bound_strategy().prop_map(Ty::WStr).boxed()));
    }
    proptest::strategy::Union::new_weighted(alts).boxed()
}

fn ext_strategy() -> BoxedStrategy<Ext> {
    prop_oneof![Just(Ext::Final), Just(Ext::Appendable), Just(Ext::Mutable)].boxed()
}

/// element types dust-dds can put in a collection: primitives, strings, enums, structs, unions
/// (collections of collections hit `todo!()` in the serializer and cannot be expressed with the
/// derive macro)
fn element_strategy(cfg: GenCfg, depth: u32) -> BoxedStrategy<Ty> {
    if depth == 0 {
        leaf_strategy(cfg)
    } else {
        prop_oneof![
            3 => leaf_strategy(cfg),
            2 => struct_strategy(cfg, depth - 1, false).prop_map(|s| Ty::Struct(Box::new(s))),
            1 => union_strategy(cfg, depth - 1).prop_map(|u| Ty::Union(Box::new(u))),
        ]
        .boxed()
    }
}

fn array_len() -> BoxedStrategy<u32> {
    prop_oneof![4 => 1u32..6, 1 => Just(8u32), 1 => Just(17u32)].boxed()
}

pub fn member_type_strategy(cfg: GenCfg, depth: u32) -> BoxedStrategy<Ty> {
    if depth == 0 {
        return leaf_strategy(cfg);
    }
    prop_oneof![
        6 => leaf_strategy(cfg),
        3 => struct_strategy(cfg, depth - 1, false).prop_map(|s| Ty::Struct(Box::new(s))),
        2 => union_strategy(cfg, depth - 1).prop_map(|u| Ty::Union(Box::new(u))),
        3 => (element_strategy(cfg, depth - 1), bound_strategy()).prop_map(|(e, b)| Ty::Seq(Box::new(e), b)),
        2 => (element_strategy(cfg, depth - 1), array_len()).prop_map(|(e, n)| Ty::Array(Box::new(e), n)),
    ]
    .boxed()
}

/// member id layout: mostly small sequential ids; sometimes sparse / reordered / large
fn ids_strategy(cfg: GenCfg, n: usize, ext_mutable: bool) -> BoxedStrategy<Vec<u32>> {
    if !ext_mutable {
        // final and appendable types: ids are the member index (derive macro, XML loader)
        return Just((0..n as u32).collect()).boxed();
    }
    let big = cfg.big_ids;
    (any::<u8>(), proptest::collection::vec(any::<u32>(), n))
        .prop_map(move |(mode, raw)| {
            let mut ids: Vec<u32> = match mode % 8 {
                0..=3 => (0..n as u32).collect(),
                4 => (0..n as u32).map(|i| 10 + 3 * i).rev().collect(),
                5 => raw.iter().map(|r| r % 200).collect(),
                6 => raw.iter().map(|r| r % 0x3F00).collect(),
                _ => {
                    if big {
                        raw.iter().map(|r| r % 0x0FFF_FFFF).collect()
                    } else {
                        raw.iter().map(|r| r % 0x3F00).collect()
                    }
                }
            };
            // make unique
            let mut seen = std::collections::BTreeSet::new();
            for id in ids.iter_mut() {
                while !seen.insert(*id) {
                    *id = (*id + 1) % 0x0FFF_FFFF;
                }
            }
            ids
        })
        .boxed()
}

pub fn struct_strategy(cfg: GenCfg, depth: u32, top: bool) -> BoxedStrategy<StructDef> {
    let maxm = cfg.max_members;
    (ident("S"), ext_strategy(), 1usize..=maxm)
        .prop_flat_map(move |(name, ext, n)| {
            (
                Just(name),
                Just(ext),
                proptest::collection::vec((member_type_strategy(cfg, depth), any::<u8>()), n),
                ids_strategy(cfg, n, ext == Ext::Mutable),
            )
        })
        .prop_map(move |(name, ext, mts, ids)| {
            let mut members = vec![];
            for (i, ((ty, flags), id)) in mts.into_iter().zip(ids).enumerate() {
                let mut key = false;
                let mut optional = false;
                let mut must_understand = false;
                if cfg.keyed || top {
                    // keys only on top-level members or (keyed mode) anywhere
                    key = flags % 4 == 0;
                }
                if !key {
                    optional = flags % 5 == 1;
                    must_understand = flags % 11 == 3;
                }
                if key {
                    must_understand = true;
                }
                members.push(Member { name: format!("m{i}"), id, ty, key, optional, must_understand });
            }
            StructDef { name, ext, members }
        })
        .boxed()
}

pub fn union_strategy(cfg: GenCfg, depth: u32) -> BoxedStrategy<UnionDef> {
    (
        ident("U"),
        ext_strategy(),
        proptest::sample::select(DISC_PRIMS.to_vec()),
        proptest::collection::vec((proptest::option::weighted(0.85, member_type_strategy(cfg, depth)), any::<u16>()), 1..4),
        any::<u8>(),
    )
        .prop_map(|(name, ext, disc, cs, dflt)| {
            let n = cs.len();
            let (lo, hi): (i64, i64) = match disc {
                Prim::I8 => (-128, 127),
                Prim::U8 => (0, 255),
                Prim::I16 => (-32768, 32767),
                Prim::U16 => (0, 65535),
                Prim::I32 => (i32::MIN as i64, i32::MAX as i64),
                _ => (0, i32::MAX as i64), // U32: labels are i32 in dust-dds; stay in the common range
            };
            let mut used = std::collections::BTreeSet::new();
            let mut cases = vec![];
            for (i, (ty, seed)) in cs.into_iter().enumerate() {
                let nlabels = 1 + (seed % 5 == 0) as usize;
                let mut labels = vec![];
                for k in 0..nlabels {
                    let mut v: i64 = match seed % 4 {
                        0 => i as i64 + 1,
                        1 => lo + (seed as i64 % 7),
                        2 => hi - (seed as i64 % 7),
                        _ => (seed as i64 * 3 + k as i64 * 17) % (hi - lo + 1) + lo,
                    } + k as i64 * 31;
                    v = v.clamp(lo, hi);
                    while !used.insert(v) {
                        v = if v < hi { v + 1 } else { lo };
                    }
                    labels.push(v as i32);
                }
                cases.push(Case { name: format!("c{i}"), id: i as u32 + 1, labels, default: false, ty });
            }
            // optionally make one case the default case: the last one (the usual way to write a union)
            // or any other one (IDL allows `default:` anywhere in the switch body)
            if dflt % 3 == 0 {
                let at = if (dflt / 3) % 2 == 0 { n - 1 } else { (dflt as usize / 6) % n };
                cases[at].default = true;
            }
            UnionDef { name, ext, disc, cases }
        })
        .boxed()
}

/// Top-level type: a struct (mostly) or a union.
pub fn top_strategy(cfg: GenCfg) -> BoxedStrategy<Ty> {
    let d = cfg.depth.saturating_sub(1);
    prop_oneof![
        6 => struct_strategy(cfg, d, true).prop_map(|s| Ty::Struct(Box::new(s))),
        1 => union_strategy(cfg, d).prop_map(|u| Ty::Union(Box::new(u))),
    ]
    .boxed()
}

// ------------------------------------------------------------------------------------------
// values from a tape

pub struct Tape<'a> {
    words: &'a [u32],
    pos: usize,
}

impl<'a> Tape<'a> {
    pub fn new(words: &'a [u32]) -> Self {
        Tape { words, pos: 0 }
    }
    pub fn next(&mut self) -> u32 {
        let w = self.words.get(self.pos).copied().unwrap_or(0);
        self.pos += 1;
        w
    }
    pub fn next64(&mut self) -> u64 {
        ((self.next() as u64) << 32) | self.next() as u64
    }
}

pub const TAPE_LEN: usize = 48;

pub fn tape_strategy() -> BoxedStrategy<Vec<u32>> {
    proptest::collection::vec(any::<u32>(), 0..TAPE_LEN).boxed()
}

#[derive(Clone, Copy, Debug)]
pub struct ValCfg {
    pub thorough: bool,
    /// total budget of list elements per value (keeps cases small)
    pub max_elems: usize,
    /// char8 values above 0x7f allowed
    pub latin1: bool,
}

impl ValCfg {
    pub fn new(thorough: bool) -> Self {
        ValCfg { thorough, max_elems: if thorough { 200 } else { 60 }, latin1: true }
    }
}

fn pick_len(t: &mut Tape, cfg: &ValCfg, bound: Option<u32>, budget: &mut usize, elem_is_small: bool) -> usize {
    let w = t.next();
    let mut len = match w % 16 {
        0..=3 => 0,
        4..=6 => 1,
        7 => 2,
        8..=9 => 3,
        10..=11 => 4,
        12..=13 => 5,
        14 => 8 + (w >> 8) as usize % 9,
        _ => {
            if cfg.thorough && elem_is_small && (w >> 4) % 8 == 0 {
                // around the 16-bit limit of the XCDR1 short parameter header
                [65_535usize, 65_534, 65_536, 65_531, 65_532][(w >> 8) as usize % 5]
            } else {
                6 + (w >> 8) as usize % 30
            }
        }
    };
    if let Some(b) = bound {
        len = len.min(b as usize);
    }
    if len < 60_000 {
        len = len.min(*budget);
        *budget -= len;
    }
    len
}

fn prim_val(p: Prim, t: &mut Tape, cfg: &ValCfg) -> Val {
    let w = t.next64();
    let sel = (w % 8) as u8;
    let r = w >> 3;
    match p {
        Prim::Bool => Val::Bool(w & 1 == 1),
        Prim::Byte | Prim::U8 => Val::U8(match sel {
            0 => 0,
            1 => 255,
            2 => 1,
            _ => r as u8,
        }),
        Prim::Char8 => {
            let c = match sel {
                0 => b'a',
                1 => 0,
                2 => 0x7f,
                3 if cfg.latin1 => 0x80 | (r as u8 & 0x7f),
                _ => (r % 128) as u8,
            };
            Val::U8(c)
        }
        Prim::I8 => Val::I8(match sel {
            0 => 0,
            1 => i8::MIN,
            2 => i8::MAX,
            3 => -1,
            _ => r as i8,
        }),
        Prim::I16 => Val::I16(match sel {
            0 => 0,
            1 => i16::MIN,
            2 => i16::MAX,
            3 => -1,
            _ => r as i16,
        }),
        Prim::U16 => Val::U16(match sel {
            0 => 0,
            1 => u16::MAX,
            2 => 1,
            _ => r as u16,
        }),
        Prim::I32 => Val::I32(match sel {
            0 => 0,
            1 => i32::MIN,
            2 => i32::MAX,
            3 => -1,
            _ => r as i32,
        }),
        Prim::U32 => Val::U32(match sel {
            0 => 0,
            1 => u32::MAX,
            2 => 1,
            _ => r as u32,
        }),
        Prim::I64 => Val::I64(match sel {
            0 => 0,
            1 => i64::MIN,
            2 => i64::MAX,
            3 => -1,
            _ => (w.rotate_left(17)) as i64,
        }),
        Prim::U64 => Val::U64(match sel {
            0 => 0,
            1 => u64::MAX,
            2 => 1,
            _ => w.rotate_left(17),
        }),
        Prim::F32 => Val::F32(match sel {
            0 => 0,
            1 => 1.0f32.to_bits(),
            2 => f32::NAN.to_bits(),
            3 => f32::NEG_INFINITY.to_bits(),
            4 => 0x8000_0000,
            5 => 0x7fc0_1234, // NaN with payload
            _ => r as u32,
        }),
        Prim::F64 => Val::F64(match sel {
            0 => 0,
            1 => 1.0f64.to_bits(),
            2 => f64::NAN.to_bits(),
            3 => f64::MIN_POSITIVE.to_bits(),
            4 => 0x8000_0000_0000_0000,
            5 => 0x7ff8_0000_dead_beef,
            _ => w.rotate_left(29),
        }),
        Prim::F128 => Val::F128(match sel {
            0 => 0,
            1 => u128::MAX,
            2 => 1,
            _ => ((w as u128) << 64) | (w.rotate_left(13) as u128),
        }),
    }
}

fn string_val(t: &mut Tape, cfg: &ValCfg, bound: Option<u32>, budget: &mut usize, wide: bool) -> String {
    let len = pick_len(t, cfg, bound, budget, true);
    let w = t.next();
    let mut s = String::with_capacity(len);
    let multi = w % 7 == 0;
    // wide strings: also characters of 3 UTF-8 bytes (one UTF-16 unit) and of the supplementary planes
    // (4 UTF-8 bytes, a surrogate pair in UTF-16)
    let astral = wide && w % 5 == 0;
    for i in 0..len {
        if astral && i % 4 == 2 && s.len() + 4 <= len {
            s.push(if i % 8 == 2 { '\u{1F600}' } else { '\u{1D11E}' });
        } else if astral && i % 4 == 0 && s.len() + 3 <= len {
            s.push('\u{8A9E}');
        } else if multi && i % 3 == 1 && s.len() + 2 <= len {
            s.push('é'); // two UTF-8 bytes
        } else if s.len() < len {
            s.push((b'a' + ((w as usize + i * 7) % 26) as u8) as char);
        }
        if s.len() >= len {
            break;
        }
    }
    s
}

/// Discriminator value selecting case `ci` (a label of it, or for the default case a value that
/// is no label of any case).
fn disc_for_case(u: &UnionDef, ci: usize, w: u32) -> i64 {
    let c = &u.cases[ci];
    if !c.labels.is_empty() && !(c.default && w % 2 == 0) {
        return c.labels[w as usize % c.labels.len()] as i64;
    }
    let (lo, hi): (i64, i64) = match u.disc {
        Prim::I8 => (-128, 127),
        Prim::U8 => (0, 255),
        Prim::I16 => (-32768, 32767),
        Prim::U16 => (0, 65535),
        Prim::I32 => (i32::MIN as i64, i32::MAX as i64),
        _ => (0, i32::MAX as i64),
    };
    let mut v = lo + (w as i64 % (hi - lo + 1));
    let all: Vec<i64> = u.cases.iter().flat_map(|c| c.labels.iter().map(|l| *l as i64)).collect();
    while all.contains(&v) {
        v = if v < hi { v + 1 } else { lo };
    }
    v
}

pub fn make_val(ty: &Ty, t: &mut Tape, cfg: &ValCfg, budget: &mut usize) -> Val {
    match ty {
        Ty::Prim(p) => prim_val(*p, t, cfg),
        Ty::Str(b) => Val::Str(string_val(t, cfg, *b, budget, false)),
        Ty::WStr(b) => Val::Str(string_val(t, cfg, *b, budget, true)),
        Ty::Enum(e) => Val::Enum(e.labels[t.next() as usize % e.labels.len()].1),
        Ty::Struct(s) => Val::Struct(
            s.members
                .iter()
                .map(|m| {
                    if m.optional && t.next() % 3 == 0 {
                        None
                    } else {
                        Some(make_val(&m.ty, t, cfg, budget))
                    }
                })
                .collect(),
        ),
        Ty::Union(u) => {
            let w = t.next();
            let ci = w as usize % u.cases.len();
            let disc = disc_for_case(u, ci, w >> 8);
            let val = u.cases[ci].ty.as_ref().map(|ct| Box::new(make_val(ct, t, cfg, budget)));
            Val::Union { disc, case: Some(ci), val }
        }
        Ty::Seq(e, b) => {
            let small = matches!(**e, Ty::Prim(p) if p.size() == 1);
            let n = pick_len(t, cfg, *b, budget, small);
            if n > 60_000 {
                // long byte-like sequence: cheap construction
                let v = prim_val(match **e { Ty::Prim(p) => p, _ => Prim::U8 }, t, cfg);
                return Val::List(vec![v; n]);
            }
            Val::List((0..n).map(|_| make_val(e, t, cfg, budget)).collect())
        }
        Ty::Array(e, n) => Val::List((0..*n).map(|_| make_val(e, t, cfg, budget)).collect()),
    }
}

pub fn make_value(ty: &Ty, tape: &[u32], cfg: &ValCfg) -> Val {
    let mut t = Tape::new(tape);
    let mut budget = cfg.max_elems;
    make_val(ty, &mut t, cfg, &mut budget)
}

/// XTypes default value of a type (7.2.2.4.4.4.? default values: zero, empty, first enumerator,
/// absent optional; union: default-discriminator case).
pub fn default_val(ty: &Ty) -> Val {
    match ty {
        Ty::Prim(p) => match p {
            Prim::Bool => Val::Bool(false),
            Prim::Byte | Prim::U8 | Prim::Char8 => Val::U8(0),
            Prim::I8 => Val::I8(0),
            Prim::I16 => Val::I16(0),
            Prim::U16 => Val::U16(0),
            Prim::I32 => Val::I32(0),
            Prim::U32 => Val::U32(0),
            Prim::I64 => Val::I64(0),
            Prim::U64 => Val::U64(0),
            Prim::F32 => Val::F32(0),
            Prim::F64 => Val::F64(0),
            Prim::F128 => Val::F128(0),
        },
        Ty::Str(_) | Ty::WStr(_) => Val::Str(String::new()),
        Ty::Enum(e) => Val::Enum(e.labels[0].1),
        Ty::Struct(s) => Val::Struct(s.members.iter().map(|m| if m.optional { None } else { Some(default_val(&m.ty)) }).collect()),
        Ty::Union(_) => Val::Union { disc: 0, case: None, val: None },
        Ty::Seq(_, _) => Val::List(vec![]),
        Ty::Array(e, n) => Val::List((0..*n).map(|_| default_val(e)).collect()),
    }
}
