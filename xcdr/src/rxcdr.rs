//! R-XCDR: independent XCDR1 / XCDR2 encoder and decoder over `Ty`/`Val`, transcribed from
//! DDS-XTypes 1.3 §7.4.3 (serialization rules (1)–(30) of §7.4.3.5.3, EMHEADER/LC of §7.4.3.4.5,
//! encapsulation identifiers and padding bits of §7.6.3.1.2 / Table 60). Shares no code with
//! dust-dds.
//!
//! Where the standard leaves the encoder a choice, the choice is a field of `Policy`; the decoder
//! accepts every legal alternative and reports which alternatives it met.

use crate::types::*;

#[derive(Clone, Copy, Debug, PartialEq, Eq)]
pub enum Ver {
    V1,
    V2,
}

#[derive(Clone, Copy, Debug, PartialEq, Eq)]
pub struct Enc {
    pub ver: Ver,
    pub be: bool,
}

pub const ALL_ENC: [Enc; 4] = [
    Enc { ver: Ver::V1, be: false },
    Enc { ver: Ver::V1, be: true },
    Enc { ver: Ver::V2, be: false },
    Enc { ver: Ver::V2, be: true },
];

impl Enc {
    pub fn name(self) -> &'static str {
        match (self.ver, self.be) {
            (Ver::V1, false) => "xcdr1-le",
            (Ver::V1, true) => "xcdr1-be",
            (Ver::V2, false) => "xcdr2-le",
            (Ver::V2, true) => "xcdr2-be",
        }
    }
    pub fn vname(self) -> &'static str {
        match self.ver {
            Ver::V1 => "xcdr1",
            Ver::V2 => "xcdr2",
        }
    }
}

pub const PID_EXTENDED: u16 = 0x3F01;
pub const PID_LIST_END: u16 = 0x3F02;
pub const PID_IGNORE: u16 = 0x3F03;
pub const PID_SENTINEL_RTPS: u16 = 0x0001;
pub const FLAG_M: u16 = 0x4000;

/// Encoder choices the standard leaves open (or where deployed implementations differ and a
/// reader has to accept both).
#[derive(Clone, Copy, Debug, PartialEq, Eq)]
pub struct Policy {
    /// mutable aggregates: emit members in ascending member-id order instead of declaration order
    /// (readers look members up by id, both are decodable)
    pub order_by_id: bool,
    /// XCDR2 EMHEADER: use LC 0..3 for *every* member whose serialized size is 1/2/4/8
    /// (otherwise only for primitive/enum members; everything else gets LC 4)
    pub lc_by_size_any: bool,
    /// XCDR2 EMHEADER: use LC 5/6/7 (NEXTINT shared with the member's own leading UInt32:
    /// DHEADER, string length, or the length of a sequence of 1/4/8-byte primitives)
    pub share_nextint: bool,
    /// XCDR1 PL_CDR: member length rounded up to a multiple of 4 (RTPS parameter-list habit)
    pub v1_len_padded: bool,
    /// XCDR1 PL_CDR: terminate with RTPS PID_SENTINEL (0x0001) instead of PID_LIST_END (0x3F02)
    pub v1_rtps_sentinel: bool,
    /// XCDR1: the alignment origin set at the start of a parameter value (rule (24) PUSH(ORIGIN=0))
    /// stays in force after the parameter instead of being restored. (Tolerated reading: the scope
    /// of PUSH is described in prose only and implementations differ; it matters only when an
    /// 8-byte aligned item follows a parameter inside a final/appendable struct.)
    pub v1_origin_sticky: bool,
}

impl Policy {
    /// the encoding obtained by reading §7.4.3.5.3 literally
    pub const SPEC: Policy =
        Policy { order_by_id: false, lc_by_size_any: false, share_nextint: true, v1_len_padded: false, v1_rtps_sentinel: false, v1_origin_sticky: false };
    pub fn all() -> Vec<Policy> {
        let mut v = vec![];
        for a in [false, true] {
            for b in [false, true] {
                for c in [false, true] {
                    for d in [false, true] {
                        for e in [false, true] {
                            for f in [false, true] {
                                v.push(Policy { order_by_id: a, lc_by_size_any: b, share_nextint: c, v1_len_padded: d, v1_rtps_sentinel: e, v1_origin_sticky: f });
                            }
                        }
                    }
                }
            }
        }
        v
    }
}

// ------------------------------------------------------------------------------------------
// helpers on types

pub fn holder_size(e: &EnumDef) -> usize {
    match e.bit_bound {
        1..=8 => 1,
        9..=16 => 2,
        _ => 4,
    }
}

/// "primitive" in the sense of rules (8) and (11): collections of these have no DHEADER
pub fn is_primitive_elem(t: &Ty) -> bool {
    matches!(t, Ty::Prim(_))
}

/// does the XCDR2 encoding of a value of this type start with a DHEADER?
pub fn has_dheader(t: &Ty) -> bool {
    match t {
        Ty::Struct(s) => s.ext != Ext::Final,
        Ty::Union(u) => u.ext != Ext::Final,
        Ty::Seq(e, _) | Ty::Array(e, _) => !is_primitive_elem(e),
        _ => false,
    }
}

// ------------------------------------------------------------------------------------------
// writer

struct W {
    buf: Vec<u8>,
    origin: usize,
    be: bool,
    maxalign: usize,
}

impl W {
    fn align(&mut self, n: usize) {
        let a = n.min(self.maxalign);
        let pos = self.buf.len() - self.origin;
        let pad = (a - pos % a) % a;
        self.buf.extend(std::iter::repeat(0u8).take(pad));
    }
    fn u8(&mut self, v: u8) {
        self.buf.push(v);
    }
    fn u16(&mut self, v: u16) {
        self.align(2);
        self.buf.extend_from_slice(&if self.be { v.to_be_bytes() } else { v.to_le_bytes() });
    }
    fn u32(&mut self, v: u32) {
        self.align(4);
        self.buf.extend_from_slice(&if self.be { v.to_be_bytes() } else { v.to_le_bytes() });
    }
    fn u64(&mut self, v: u64) {
        self.align(8);
        self.buf.extend_from_slice(&if self.be { v.to_be_bytes() } else { v.to_le_bytes() });
    }
    fn u128(&mut self, v: u128) {
        self.align(16);
        self.buf.extend_from_slice(&if self.be { v.to_be_bytes() } else { v.to_le_bytes() });
    }
    fn patch_u32(&mut self, at: usize, v: u32) {
        let b = if self.be { v.to_be_bytes() } else { v.to_le_bytes() };
        self.buf[at..at + 4].copy_from_slice(&b);
    }
}

#[derive(Debug, Clone)]
pub struct EncodeError(pub String);

pub struct Encoder {
    w: W,
    ver: Ver,
    pol: Policy,
    /// statistics: LC values emitted
    pub lcs: [u32; 8],
    pub ext_pid_used: bool,
}

pub fn enc_header_id(ver: Ver, be: bool, top_ext: Ext) -> u16 {
    let base: u16 = match (ver, top_ext) {
        (Ver::V1, Ext::Final | Ext::Appendable) => 0x0000, // CDR
        (Ver::V1, Ext::Mutable) => 0x0002,                 // PL_CDR
        (Ver::V2, Ext::Final) => 0x0006,                   // PLAIN_CDR2
        (Ver::V2, Ext::Appendable) => 0x0008,              // DELIMITED_CDR2
        (Ver::V2, Ext::Mutable) => 0x000a,                 // PL_CDR2
    };
    base + if be { 0 } else { 1 }
}

/// Serialize a top-level value with encapsulation header and trailing padding (rule (1)).
pub fn encode(ty: &Ty, v: &Val, enc: Enc, pol: Policy) -> Result<(Vec<u8>, [u32; 8]), EncodeError> {
    let top_ext = ty.ext().ok_or_else(|| EncodeError("top-level type must be aggregated".into()))?;
    let id = enc_header_id(enc.ver, enc.be, top_ext);
    let mut e = Encoder {
        w: W { buf: vec![(id >> 8) as u8, id as u8, 0, 0], origin: 4, be: enc.be, maxalign: if enc.ver == Ver::V1 { 8 } else { 4 } },
        ver: enc.ver,
        pol,
        lcs: [0; 8],
        ext_pid_used: false,
    };
    e.value(ty, v)?;
    let mut buf = e.w.buf;
    let pad = (4 - buf.len() % 4) % 4;
    buf.extend(std::iter::repeat(0u8).take(pad));
    buf[3] = pad as u8;
    Ok((buf, e.lcs))
}

/// Serialize a value without encapsulation header (used for key hashes): big endian, origin 0.
pub fn encode_bare(ty: &Ty, v: &Val, ver: Ver, be: bool, pol: Policy) -> Result<Vec<u8>, EncodeError> {
    let mut e = Encoder {
        w: W { buf: vec![], origin: 0, be, maxalign: if ver == Ver::V1 { 8 } else { 4 } },
        ver,
        pol,
        lcs: [0; 8],
        ext_pid_used: false,
    };
    e.value(ty, v)?;
    Ok(e.w.buf)
}

impl Encoder {
    fn value(&mut self, ty: &Ty, v: &Val) -> Result<(), EncodeError> {
        match (ty, v) {
            (Ty::Prim(p), v) => self.prim(*p, v),
            (Ty::Str(_), Val::Str(s)) => {
                // rule (3): length includes the terminating NUL
                self.w.u32(s.len() as u32 + 1);
                self.w.buf.extend_from_slice(s.as_bytes());
                self.w.u8(0);
                Ok(())
            }
            (Ty::WStr(_), _) => Err(EncodeError("wstring is outside the differential subset".into())),
            (Ty::Enum(e), Val::Enum(x)) => {
                // rule (5): holder type chosen by bit_bound
                match holder_size(e) {
                    1 => self.w.u8(*x as i8 as u8),
                    2 => self.w.u16(*x as i16 as u16),
                    _ => self.w.u32(*x as u32),
                }
                Ok(())
            }
            (Ty::Array(e, n), Val::List(l)) => {
                if l.len() != *n as usize {
                    return Err(EncodeError("array length".into()));
                }
                if is_primitive_elem(e) || self.ver == Ver::V1 {
                    // rules (8), (10)
                    for x in l {
                        self.value(e, x)?;
                    }
                    Ok(())
                } else {
                    // rule (9)
                    let at = self.dheader_begin();
                    for x in l {
                        self.value(e, x)?;
                    }
                    self.dheader_end(at);
                    Ok(())
                }
            }
            (Ty::Seq(e, _), Val::List(l)) => {
                if is_primitive_elem(e) || self.ver == Ver::V1 {
                    // rules (11), (13)
                    self.w.u32(l.len() as u32);
                    for x in l {
                        self.value(e, x)?;
                    }
                    Ok(())
                } else {
                    // rule (12)
                    let at = self.dheader_begin();
                    self.w.u32(l.len() as u32);
                    for x in l {
                        self.value(e, x)?;
                    }
                    self.dheader_end(at);
                    Ok(())
                }
            }
            (Ty::Struct(s), Val::Struct(ms)) => match (s.ext, self.ver) {
                (Ext::Final, _) | (Ext::Appendable, Ver::V1) => self.fstruct(s, ms), // rules (17), (29)
                (Ext::Appendable, Ver::V2) => {
                    // rule (30)
                    let at = self.dheader_begin();
                    self.fstruct(s, ms)?;
                    self.dheader_end(at);
                    Ok(())
                }
                (Ext::Mutable, Ver::V2) => {
                    // rule (21)
                    let at = self.dheader_begin();
                    for i in self.member_order(s) {
                        if let Some(Some(mv)) = ms.get(i) {
                            let m = &s.members[i];
                            self.mmember2(m.id, m.must_understand || m.key, &m.ty, mv)?;
                        }
                    }
                    self.dheader_end(at);
                    Ok(())
                }
                (Ext::Mutable, Ver::V1) => {
                    // rule (23)
                    for i in self.member_order(s) {
                        if let Some(Some(mv)) = ms.get(i) {
                            let m = &s.members[i];
                            self.mmember1(m.id, m.must_understand || m.key, Some((&m.ty, mv)))?;
                        }
                    }
                    self.sentinel();
                    Ok(())
                }
            },
            (Ty::Union(u), Val::Union { disc, case, val }) => {
                let sel: Option<(&Case, &Val)> = match (case, val) {
                    (Some(ci), Some(mv)) => Some((&u.cases[*ci], mv)),
                    _ => None,
                };
                let disc_ty = Ty::Prim(u.disc);
                let disc_val = disc_to_val(u.disc, *disc);
                match (u.ext, self.ver) {
                    (Ext::Final, _) | (Ext::Appendable, Ver::V1) => self.funion(&disc_ty, &disc_val, sel), // rule (26)
                    (Ext::Appendable, Ver::V2) => {
                        let at = self.dheader_begin();
                        self.funion(&disc_ty, &disc_val, sel)?;
                        self.dheader_end(at);
                        Ok(())
                    }
                    (Ext::Mutable, Ver::V2) => {
                        // rule (27)
                        let at = self.dheader_begin();
                        self.mmember2(0, true, &disc_ty, &disc_val)?;
                        if let Some((c, mv)) = sel {
                            self.mmember2(c.id, false, c.ty.as_ref().unwrap(), mv)?;
                        }
                        self.dheader_end(at);
                        Ok(())
                    }
                    (Ext::Mutable, Ver::V1) => {
                        // rule (28)
                        self.mmember1(0, true, Some((&disc_ty, &disc_val)))?;
                        if let Some((c, mv)) = sel {
                            self.mmember1(c.id, false, Some((c.ty.as_ref().unwrap(), mv)))?;
                        }
                        self.sentinel();
                        Ok(())
                    }
                }
            }
            _ => Err(EncodeError(format!("value does not match type {}", ty.tag()))),
        }
    }

    fn member_order(&self, s: &StructDef) -> Vec<usize> {
        let mut idx: Vec<usize> = (0..s.members.len()).collect();
        if self.pol.order_by_id {
            idx.sort_by_key(|i| s.members[*i].id);
        }
        idx
    }

    fn prim(&mut self, p: Prim, v: &Val) -> Result<(), EncodeError> {
        // rule (2): ALIGN(ssize) then the bytes in stream endianness
        match (p, v) {
            (Prim::Bool, Val::Bool(b)) => self.w.u8(*b as u8),
            (Prim::Byte | Prim::U8 | Prim::Char8, Val::U8(b)) => self.w.u8(*b),
            (Prim::I8, Val::I8(b)) => self.w.u8(*b as u8),
            (Prim::I16, Val::I16(x)) => self.w.u16(*x as u16),
            (Prim::U16, Val::U16(x)) => self.w.u16(*x),
            (Prim::I32, Val::I32(x)) => self.w.u32(*x as u32),
            (Prim::U32, Val::U32(x)) => self.w.u32(*x),
            (Prim::F32, Val::F32(x)) => self.w.u32(*x),
            (Prim::I64, Val::I64(x)) => self.w.u64(*x as u64),
            (Prim::U64, Val::U64(x)) => self.w.u64(*x),
            (Prim::F64, Val::F64(x)) => self.w.u64(*x),
            (Prim::F128, Val::F128(x)) => self.w.u128(*x),
            _ => return Err(EncodeError(format!("primitive mismatch {p:?}/{v:?}"))),
        }
        Ok(())
    }

    fn dheader_begin(&mut self) -> usize {
        self.w.u32(0);
        self.w.buf.len()
    }
    fn dheader_end(&mut self, at: usize) {
        let size = (self.w.buf.len() - at) as u32;
        self.w.patch_u32(at - 4, size);
    }

    fn fstruct(&mut self, s: &StructDef, ms: &[Option<Val>]) -> Result<(), EncodeError> {
        for (i, m) in s.members.iter().enumerate() {
            let mv = ms.get(i).and_then(|x| x.as_ref());
            self.fmember(m.id, m.optional, m.must_understand || m.key, &m.ty, mv)?;
        }
        Ok(())
    }

    fn fmember(&mut self, id: u32, optional: bool, mu: bool, ty: &Ty, mv: Option<&Val>) -> Result<(), EncodeError> {
        if !optional {
            // rule (18)
            let mv = mv.ok_or_else(|| EncodeError("non-optional member without value".into()))?;
            return self.value(ty, mv);
        }
        match self.ver {
            // rule (19): optional member of a final type in version 1 = MMEMBER (length 0 when absent)
            Ver::V1 => self.mmember1(id, mu, mv.map(|v| (ty, v))),
            // rule (20)
            Ver::V2 => {
                self.w.u8(mv.is_some() as u8);
                if let Some(v) = mv {
                    self.value(ty, v)?;
                }
                Ok(())
            }
        }
    }

    fn funion(&mut self, disc_ty: &Ty, disc: &Val, sel: Option<(&Case, &Val)>) -> Result<(), EncodeError> {
        self.value(disc_ty, disc)?;
        if let Some((c, mv)) = sel {
            self.value(c.ty.as_ref().unwrap(), mv)?;
        }
        Ok(())
    }

    /// rules (24)/(25): XCDR1 parameter header + value with ORIGIN reset for the value
    fn mmember1(&mut self, id: u32, mu: bool, tv: Option<(&Ty, &Val)>) -> Result<(), EncodeError> {
        self.w.align(4);
        // encode the value first into a scratch writer to learn its size (origin = 0)
        let mut sub = Encoder {
            w: W { buf: vec![], origin: 0, be: self.w.be, maxalign: self.w.maxalign },
            ver: self.ver,
            pol: self.pol,
            lcs: [0; 8],
            ext_pid_used: false,
        };
        if let Some((ty, v)) = tv {
            sub.value(ty, v)?;
        }
        for i in 0..8 {
            self.lcs[i] += sub.lcs[i];
        }
        self.ext_pid_used |= sub.ext_pid_used;
        let mut size = sub.w.buf.len();
        let sub_origin = sub.w.origin;
        let mut body = sub.w.buf;
        if self.pol.v1_len_padded {
            while size % 4 != 0 {
                body.push(0);
                size += 1;
            }
        }
        let flag = if mu { FLAG_M } else { 0 };
        if id < 0x3F00 && size <= 0xFFFF {
            self.w.u16(id as u16 | flag);
            self.w.u16(size as u16);
        } else {
            self.ext_pid_used = true;
            self.w.u16(PID_EXTENDED | flag);
            self.w.u16(8);
            self.w.u32(id);
            self.w.u32(size as u32);
        }
        // PUSH(ORIGIN=0) scoped to the member value: the scratch buffer was produced with origin 0;
        // appending it keeps the outer origin for whatever follows (unless the sticky reading is asked for).
        let at = self.w.buf.len();
        self.w.buf.extend_from_slice(&body);
        if self.pol.v1_origin_sticky {
            self.w.origin = at + sub_origin;
        }
        Ok(())
    }

    fn sentinel(&mut self) {
        self.w.align(4);
        self.w.u16(if self.pol.v1_rtps_sentinel { PID_SENTINEL_RTPS } else { PID_LIST_END });
        self.w.u16(0);
    }

    /// rule (22): EMHEADER1 [NEXTINT] value
    fn mmember2(&mut self, id: u32, mu: bool, ty: &Ty, v: &Val) -> Result<(), EncodeError> {
        self.w.align(4);
        let hdr_at = self.w.buf.len();
        self.w.u32(0);
        // decide how the length is conveyed
        let fixed = match ty {
            Ty::Prim(p) => Some(p.size()),
            Ty::Enum(e) => Some(holder_size(e)),
            _ => None,
        };
        let lc_of_size = |n: usize| match n {
            1 => Some(0u32),
            2 => Some(1),
            4 => Some(2),
            8 => Some(3),
            _ => None,
        };
        if let Some(lc) = fixed.and_then(lc_of_size) {
            self.value(ty, v)?;
            self.finish_em(hdr_at, mu, lc, id);
            return Ok(());
        }
        // can NEXTINT be shared with the leading UInt32 of the value?
        let share: Option<u32> = if !self.pol.share_nextint {
            None
        } else if has_dheader(ty) && self.ver == Ver::V2 {
            Some(5)
        } else {
            match ty {
                Ty::Str(_) => Some(5),
                Ty::Seq(e, _) => match &**e {
                    Ty::Prim(p) => match p.size() {
                        1 => Some(5),
                        4 => Some(6),
                        8 => Some(7),
                        _ => None,
                    },
                    _ => None,
                },
                _ => None,
            }
        };
        if let Some(lc) = share {
            self.value(ty, v)?;
            self.finish_em(hdr_at, mu, lc, id);
            return Ok(());
        }
        // LC 4 (explicit NEXTINT) unless the policy uses LC 0..3 for every member of that size
        let nextint_at = self.w.buf.len();
        self.w.u32(0);
        let start = self.w.buf.len();
        self.value(ty, v)?;
        let size = self.w.buf.len() - start;
        if self.pol.lc_by_size_any {
            if let Some(lc) = lc_of_size(size) {
                // drop the NEXTINT placeholder (all offsets stay 4-aligned: MAXALIGN is 4)
                self.w.buf.drain(nextint_at..nextint_at + 4);
                self.finish_em(hdr_at, mu, lc, id);
                return Ok(());
            }
        }
        self.w.patch_u32(nextint_at, size as u32);
        self.finish_em(hdr_at, mu, 4, id);
        Ok(())
    }

    fn finish_em(&mut self, hdr_at: usize, mu: bool, lc: u32, id: u32) {
        self.lcs[lc as usize] += 1;
        let h = ((mu as u32) << 31) | (lc << 28) | (id & 0x0FFF_FFFF);
        self.w.patch_u32(hdr_at, h);
    }
}

pub fn disc_to_val(p: Prim, d: i64) -> Val {
    match p {
        Prim::I8 => Val::I8(d as i8),
        Prim::U8 => Val::U8(d as u8),
        Prim::I16 => Val::I16(d as i16),
        Prim::U16 => Val::U16(d as u16),
        Prim::I32 => Val::I32(d as i32),
        Prim::U32 => Val::U32(d as u32),
        Prim::I64 => Val::I64(d),
        Prim::U64 => Val::U64(d as u64),
        Prim::Bool => Val::Bool(d != 0),
        _ => Val::U8(d as u8),
    }
}

pub fn val_to_disc(v: &Val) -> i64 {
    match v {
        Val::I8(x) => *x as i64,
        Val::U8(x) => *x as i64,
        Val::I16(x) => *x as i64,
        Val::U16(x) => *x as i64,
        Val::I32(x) => *x as i64,
        Val::U32(x) => *x as i64,
        Val::I64(x) => *x,
        Val::U64(x) => *x as i64,
        Val::Bool(b) => *b as i64,
        _ => 0,
    }
}

// ------------------------------------------------------------------------------------------
// decoder

#[derive(Debug, Clone)]
pub struct DecodeError {
    pub what: String,
    /// clause of XTypes 1.3 the stream violates
    pub clause: &'static str,
    /// structural tag of the construct at which decoding failed
    #[allow(dead_code)]
    pub at: String,
}

#[derive(Debug, Clone, Default)]
pub struct DecodeNotes {
    /// legal alternatives met while decoding
    pub lcs: [u32; 8],
    pub rtps_sentinel: bool,
    pub padded_len: bool,
    pub out_of_order: bool,
}

struct R<'a> {
    buf: &'a [u8],
    pos: usize,
    origin: usize,
    be: bool,
    maxalign: usize,
    end: usize,
}

type DRes<T> = Result<T, DecodeError>;

fn derr<T>(what: String, clause: &'static str, at: &str) -> DRes<T> {
    Err(DecodeError { what, clause, at: at.to_string() })
}

impl<'a> R<'a> {
    fn align(&mut self, n: usize) -> DRes<()> {
        let a = n.min(self.maxalign);
        let rel = self.pos - self.origin;
        let pad = (a - rel % a) % a;
        if self.pos + pad > self.end {
            return derr(format!("padding runs past the end at offset {}", self.pos), "7.4.3.5.3 rule (2)", "align");
        }
        self.pos += pad;
        Ok(())
    }
    fn take(&mut self, n: usize, at: &str) -> DRes<&'a [u8]> {
        if self.pos + n > self.end {
            return derr(format!("need {n} bytes at offset {} but the enclosing object ends at {}", self.pos, self.end), "7.4.3.5.3", at);
        }
        let s = &self.buf[self.pos..self.pos + n];
        self.pos += n;
        Ok(s)
    }
    fn u8(&mut self, at: &str) -> DRes<u8> {
        Ok(self.take(1, at)?[0])
    }
    fn u16(&mut self, at: &str) -> DRes<u16> {
        self.align(2)?;
        let b = self.take(2, at)?;
        Ok(if self.be { u16::from_be_bytes([b[0], b[1]]) } else { u16::from_le_bytes([b[0], b[1]]) })
    }
    fn u32(&mut self, at: &str) -> DRes<u32> {
        self.align(4)?;
        let b = self.take(4, at)?;
        let a = [b[0], b[1], b[2], b[3]];
        Ok(if self.be { u32::from_be_bytes(a) } else { u32::from_le_bytes(a) })
    }
    fn u64(&mut self, at: &str) -> DRes<u64> {
        self.align(8)?;
        let b = self.take(8, at)?;
        let mut a = [0u8; 8];
        a.copy_from_slice(b);
        Ok(if self.be { u64::from_be_bytes(a) } else { u64::from_le_bytes(a) })
    }
    fn u128(&mut self, at: &str) -> DRes<u128> {
        self.align(16)?;
        let b = self.take(16, at)?;
        let mut a = [0u8; 16];
        a.copy_from_slice(b);
        Ok(if self.be { u128::from_be_bytes(a) } else { u128::from_le_bytes(a) })
    }
}

pub struct Decoder<'a> {
    r: R<'a>,
    ver: Ver,
    /// XCDR1: alignment origin of a parameter value stays in force after the parameter
    sticky_origin: bool,
    pub notes: DecodeNotes,
}

/// Decode a top-level value (with encapsulation header). Strict: the header must announce the
/// representation the type's extensibility demands, the padding bits must match, every DHEADER
/// and member length must equal the size actually used, nothing may be left over.
pub fn decode(ty: &Ty, bytes: &[u8], expect: Option<Enc>) -> DRes<(Val, DecodeNotes)> {
    decode_opt(ty, bytes, expect, false)
}

/// `sticky_origin`: see `Policy::v1_origin_sticky`.
pub fn decode_opt(ty: &Ty, bytes: &[u8], expect: Option<Enc>, sticky_origin: bool) -> DRes<(Val, DecodeNotes)> {
    if bytes.len() < 4 {
        return derr("shorter than the encapsulation header".into(), "7.6.3.1.2", "header");
    }
    let id = u16::from_be_bytes([bytes[0], bytes[1]]);
    let (ver, be, kind_ext) = match id {
        0x0000 => (Ver::V1, true, 0),
        0x0001 => (Ver::V1, false, 0),
        0x0002 => (Ver::V1, true, 2),
        0x0003 => (Ver::V1, false, 2),
        0x0006 => (Ver::V2, true, 0),
        0x0007 => (Ver::V2, false, 0),
        0x0008 => (Ver::V2, true, 1),
        0x0009 => (Ver::V2, false, 1),
        0x000a => (Ver::V2, true, 2),
        0x000b => (Ver::V2, false, 2),
        _ => return derr(format!("unknown representation identifier {id:#06x}"), "7.6.3.1.2 Table 60", "header"),
    };
    let top_ext = ty.ext().unwrap_or(Ext::Final);
    let want = enc_header_id(ver, be, top_ext);
    if want != id {
        return derr(
            format!("representation identifier {id:#06x} but a {} type in this version/endianness is announced as {want:#06x}", top_ext.name()),
            "7.6.3.1.2 Table 60 / 7.4.3.5.3 rule (1) ENC_HEADER",
            "header",
        );
    }
    let _ = kind_ext;
    if let Some(e) = expect {
        if e.ver != ver || e.be != be {
            return derr(format!("stream is {:?}/{} but {} was requested", ver, if be { "BE" } else { "LE" }, e.name()), "7.6.3.1.2", "header");
        }
    }
    if bytes.len() % 4 != 0 {
        return derr(format!("total length {} is not a multiple of 4", bytes.len()), "7.6.3.1.2 (padding to a 4-byte boundary)", "padding");
    }
    let pad = (bytes[3] & 0x03) as usize;
    if bytes[2] != 0 || bytes[3] & !0x03 != 0 {
        return derr(format!("options bytes {:02x} {:02x}: only the two padding bits may be set", bytes[2], bytes[3]), "7.6.3.1.2", "padding");
    }
    if 4 + pad > bytes.len() {
        return derr("padding count larger than the payload".into(), "7.6.3.1.2", "padding");
    }
    let end = bytes.len() - pad;
    let (v, pos, notes) = decode_end_opt(ty, bytes, ver, be, sticky_origin)?;
    if pos != end {
        return derr(
            format!(
                "value ends at offset {} but the stream (minus the {} padding bytes announced in the options) ends at {}",
                pos, pad, end
            ),
            "7.6.3.1.2 (options padding bits = number of padding bytes appended)",
            "padding",
        );
    }
    Ok((v, notes))
}

/// Decode the body only (header already validated or deliberately ignored); returns the offset at
/// which the value ends. The readable window is the whole buffer.
pub fn decode_end(ty: &Ty, bytes: &[u8], ver: Ver, be: bool) -> DRes<(Val, usize, DecodeNotes)> {
    match decode_end_opt(ty, bytes, ver, be, false) {
        Ok(x) => Ok(x),
        Err(e) if ver == Ver::V1 => decode_end_opt(ty, bytes, ver, be, true).map_err(|_| e),
        Err(e) => Err(e),
    }
}

pub fn decode_end_opt(ty: &Ty, bytes: &[u8], ver: Ver, be: bool, sticky_origin: bool) -> DRes<(Val, usize, DecodeNotes)> {
    let mut d = Decoder {
        r: R { buf: bytes, pos: 4, origin: 4, be, maxalign: if ver == Ver::V1 { 8 } else { 4 }, end: bytes.len() },
        ver,
        sticky_origin,
        notes: DecodeNotes::default(),
    };
    let v = d.value(ty)?;
    Ok((v, d.r.pos, d.notes))
}

impl<'a> Decoder<'a> {
    fn value(&mut self, ty: &Ty) -> DRes<Val> {
        let tag = ty.tag();
        match ty {
            Ty::Prim(p) => self.prim(*p),
            Ty::Str(_) => {
                let n = self.r.u32(&tag)? as usize;
                if n == 0 {
                    return derr("string length 0 (must count the NUL)".into(), "7.4.3.5.3 rule (3)", &tag);
                }
                let b = self.r.take(n, &tag)?;
                if b[n - 1] != 0 {
                    return derr("string not NUL terminated".into(), "7.4.3.5.3 rule (3)", &tag);
                }
                match std::str::from_utf8(&b[..n - 1]) {
                    Ok(s) => Ok(Val::Str(s.to_string())),
                    Err(_) => derr("string is not UTF-8".into(), "7.4.3.5.3 rule (3)", &tag),
                }
            }
            Ty::WStr(_) => derr("wstring is outside the differential subset".into(), "-", &tag),
            Ty::Enum(e) => {
                let x = match holder_size(e) {
                    1 => self.r.u8(&tag)? as i8 as i32,
                    2 => self.r.u16(&tag)? as i16 as i32,
                    _ => self.r.u32(&tag)? as i32,
                };
                Ok(Val::Enum(x))
            }
            Ty::Array(e, n) => {
                if is_primitive_elem(e) || self.ver == Ver::V1 {
                    let mut l = Vec::with_capacity(*n as usize);
                    for _ in 0..*n {
                        l.push(self.value(e)?);
                    }
                    Ok(Val::List(l))
                } else {
                    let (save, end) = self.dheader_begin(&tag)?;
                    let mut l = vec![];
                    for _ in 0..*n {
                        l.push(self.value(e)?);
                    }
                    self.dheader_end(save, end, &tag, true)?;
                    Ok(Val::List(l))
                }
            }
            Ty::Seq(e, _) => {
                let delimited = !(is_primitive_elem(e) || self.ver == Ver::V1);
                let de = if delimited { Some(self.dheader_begin(&tag)?) } else { None };
                let n = self.r.u32(&tag)? as usize;
                if n > self.r.end - self.r.pos && n > 0 {
                    return derr(format!("sequence length {n} exceeds the remaining bytes"), "7.4.3.5.3 rules (11)-(13)", &tag);
                }
                let mut l = Vec::with_capacity(n.min(1 << 16));
                for _ in 0..n {
                    l.push(self.value(e)?);
                }
                if let Some((save, end)) = de {
                    self.dheader_end(save, end, &tag, true)?;
                }
                Ok(Val::List(l))
            }
            Ty::Struct(s) => match (s.ext, self.ver) {
                (Ext::Final, _) | (Ext::Appendable, Ver::V1) => self.fstruct(s),
                (Ext::Appendable, Ver::V2) => {
                    let (save, end) = self.dheader_begin(&tag)?;
                    let v = self.fstruct(s)?;
                    self.dheader_end(save, end, &tag, true)?;
                    Ok(v)
                }
                (Ext::Mutable, Ver::V2) => {
                    let (save, end) = self.dheader_begin(&tag)?;
                    let mut out: Vec<Option<Val>> = vec![None; s.members.len()];
                    let mut last_idx: Option<usize> = None;
                    while self.r.pos < self.r.end {
                        let (id, _mu, body_end) = self.emheader(&tag)?;
                        match s.members.iter().position(|m| m.id == id) {
                            Some(i) => {
                                if out[i].is_some() {
                                    return derr(format!("member id {id} appears twice"), "7.4.3.5.3 rule (21)", &tag);
                                }
                                if let Some(li) = last_idx {
                                    if i < li {
                                        self.notes.out_of_order = true;
                                    }
                                }
                                last_idx = Some(i);
                                let v = self.member_body2(&s.members[i].ty, body_end, id)?;
                                out[i] = Some(v);
                            }
                            None => {
                                return derr(format!("member id {id} is not a member of {}", s.name), "7.4.3.5.3 rule (21) (same-type decode)", &tag);
                            }
                        }
                    }
                    self.dheader_end(save, end, &tag, true)?;
                    self.check_required(s, &out, &tag)?;
                    Ok(Val::Struct(out))
                }
                (Ext::Mutable, Ver::V1) => {
                    let mut out: Vec<Option<Val>> = vec![None; s.members.len()];
                    let mut last_idx: Option<usize> = None;
                    loop {
                        match self.pl_header(&tag)? {
                            None => break,
                            Some((id, _mu, len)) => match s.members.iter().position(|m| m.id == id) {
                                Some(i) => {
                                    if out[i].is_some() {
                                        return derr(format!("member id {id} appears twice"), "7.4.3.5.3 rule (23)", &tag);
                                    }
                                    if let Some(li) = last_idx {
                                        if i < li {
                                            self.notes.out_of_order = true;
                                        }
                                    }
                                    last_idx = Some(i);
                                    out[i] = self.member_body1(&s.members[i].ty, len, id, false)?;
                                }
                                None => return derr(format!("parameter id {id} is not a member of {}", s.name), "7.4.3.5.3 rule (23) (same-type decode)", &tag),
                            },
                        }
                    }
                    self.check_required(s, &out, &tag)?;
                    Ok(Val::Struct(out))
                }
            },
            Ty::Union(u) => {
                let disc_ty = Ty::Prim(u.disc);
                match (u.ext, self.ver) {
                    (Ext::Final, _) | (Ext::Appendable, Ver::V1) => self.funion(u),
                    (Ext::Appendable, Ver::V2) => {
                        let (save, end) = self.dheader_begin(&tag)?;
                        let v = self.funion(u)?;
                        self.dheader_end(save, end, &tag, true)?;
                        Ok(v)
                    }
                    (Ext::Mutable, Ver::V2) => {
                        let (save, end) = self.dheader_begin(&tag)?;
                        let (id, _mu, body_end) = self.emheader(&tag)?;
                        if id != 0 {
                            return derr(format!("first member of a mutable union has id {id}, expected the discriminator"), "7.4.3.5.3 rule (27)", &tag);
                        }
                        let dv = self.member_body2(&disc_ty, body_end, 0)?;
                        let disc = val_to_disc(&dv);
                        let sel = crate::lower::select_case(u, disc);
                        let mut val = None;
                        if self.r.pos < self.r.end {
                            let (id, _mu, body_end) = self.emheader(&tag)?;
                            match sel {
                                Some(ci) if u.cases[ci].id == id && u.cases[ci].ty.is_some() => {
                                    val = Some(Box::new(self.member_body2(u.cases[ci].ty.as_ref().unwrap(), body_end, id)?));
                                }
                                _ => return derr(format!("union member id {id} present but discriminator {disc} selects {sel:?}"), "7.4.3.5.3 rule (27)", &tag),
                            }
                        } else if let Some(ci) = sel {
                            if u.cases[ci].ty.is_some() {
                                return derr(format!("discriminator {disc} selects a member but none is present"), "7.4.3.5.3 rule (27)", &tag);
                            }
                        }
                        self.dheader_end(save, end, &tag, true)?;
                        Ok(Val::Union { disc, case: sel, val })
                    }
                    (Ext::Mutable, Ver::V1) => {
                        let (id, _mu, len) = match self.pl_header(&tag)? {
                            Some(h) => h,
                            None => return derr("mutable union without discriminator".into(), "7.4.3.5.3 rule (28)", &tag),
                        };
                        if id != 0 {
                            return derr(format!("first parameter of a mutable union has id {id}, expected the discriminator"), "7.4.3.5.3 rule (28)", &tag);
                        }
                        let dv = self.member_body1(&disc_ty, len, 0, true)?.unwrap();
                        let disc = val_to_disc(&dv);
                        let sel = crate::lower::select_case(u, disc);
                        let mut val = None;
                        match self.pl_header(&tag)? {
                            None => {
                                if let Some(ci) = sel {
                                    if u.cases[ci].ty.is_some() {
                                        return derr(format!("discriminator {disc} selects a member but none is present"), "7.4.3.5.3 rule (28)", &tag);
                                    }
                                }
                            }
                            Some((id, _mu, len)) => {
                                match sel {
                                    Some(ci) if u.cases[ci].id == id && u.cases[ci].ty.is_some() => {
                                        val = self.member_body1(u.cases[ci].ty.as_ref().unwrap(), len, id, true)?.map(Box::new);
                                    }
                                    _ => return derr(format!("union parameter id {id} present but discriminator {disc} selects {sel:?}"), "7.4.3.5.3 rule (28)", &tag),
                                }
                                if self.pl_header(&tag)?.is_some() {
                                    return derr("more than one selected member in a mutable union".into(), "7.4.3.5.3 rule (28)", &tag);
                                }
                            }
                        }
                        Ok(Val::Union { disc, case: sel, val })
                    }
                }
            }
        }
    }

    fn check_required(&self, s: &StructDef, out: &[Option<Val>], tag: &str) -> DRes<()> {
        for (i, m) in s.members.iter().enumerate() {
            if out[i].is_none() && !m.optional {
                return derr(format!("non-optional member {} (id {}) missing from the mutable encoding of the same type", m.name, m.id), "7.4.3.5.3 rules (21)/(23)", tag);
            }
        }
        Ok(())
    }

    fn prim(&mut self, p: Prim) -> DRes<Val> {
        let at = p.name();
        Ok(match p {
            Prim::Bool => match self.r.u8(at)? {
                0 => Val::Bool(false),
                1 => Val::Bool(true),
                x => return derr(format!("boolean byte {x}"), "7.4.3.5.3 rule (2) / Table 38?: boolean is 0 or 1", at),
            },
            Prim::Byte | Prim::U8 | Prim::Char8 => Val::U8(self.r.u8(at)?),
            Prim::I8 => Val::I8(self.r.u8(at)? as i8),
            Prim::I16 => Val::I16(self.r.u16(at)? as i16),
            Prim::U16 => Val::U16(self.r.u16(at)?),
            Prim::I32 => Val::I32(self.r.u32(at)? as i32),
            Prim::U32 => Val::U32(self.r.u32(at)?),
            Prim::F32 => Val::F32(self.r.u32(at)?),
            Prim::I64 => Val::I64(self.r.u64(at)? as i64),
            Prim::U64 => Val::U64(self.r.u64(at)?),
            Prim::F64 => Val::F64(self.r.u64(at)?),
            Prim::F128 => Val::F128(self.r.u128(at)?),
        })
    }

    /// reads a DHEADER, narrows the readable window to the delimited object; returns (outer end, object end)
    fn dheader_begin(&mut self, at: &str) -> DRes<(usize, usize)> {
        let n = self.r.u32(at)? as usize;
        let obj_end = self.r.pos + n;
        if obj_end > self.r.end {
            return derr(format!("DHEADER {n} reaches past the enclosing object (offset {} + {n} > {})", self.r.pos, self.r.end), "7.4.3.5.3 rules (9),(12),(21),(27),(30): DHEADER(O) = O.ssize", at);
        }
        let save = self.r.end;
        self.r.end = obj_end;
        Ok((save, obj_end))
    }
    fn dheader_end(&mut self, save: usize, obj_end: usize, at: &str, exact: bool) -> DRes<()> {
        if exact && self.r.pos != obj_end {
            return derr(
                format!("DHEADER announces an object ending at offset {obj_end} but its content ends at {}", self.r.pos),
                "7.4.3.5.3 rules (9),(12),(21),(27),(30): DHEADER(O) = O.ssize",
                at,
            );
        }
        self.r.pos = obj_end;
        self.r.end = save;
        Ok(())
    }

    fn fstruct(&mut self, s: &StructDef) -> DRes<Val> {
        let mut out = vec![];
        for m in &s.members {
            if !m.optional {
                out.push(Some(self.value(&m.ty)?));
            } else {
                match self.ver {
                    Ver::V2 => {
                        let present = match self.r.u8("optional-flag")? {
                            0 => false,
                            1 => true,
                            x => return derr(format!("<is_present> byte {x}"), "7.4.3.5.3 rule (20)", "optional-flag"),
                        };
                        out.push(if present { Some(self.value(&m.ty)?) } else { None });
                    }
                    Ver::V1 => {
                        let tag = format!("{}-struct.optional", s.ext.name());
                        match self.pl_header_in(&tag, false)? {
                            None => return derr("list end where an optional member header was expected".into(), "7.4.3.5.3 rule (19)", &tag),
                            Some((id, _mu, len)) => {
                                if id != m.id {
                                    return derr(format!("optional member header carries id {id}, expected {}", m.id), "7.4.3.5.3 rule (19)", &tag);
                                }
                                out.push(self.member_body1(&m.ty, len, id, true)?);
                            }
                        }
                    }
                }
            }
        }
        Ok(Val::Struct(out))
    }

    fn funion(&mut self, u: &UnionDef) -> DRes<Val> {
        let dv = self.prim(u.disc)?;
        let disc = val_to_disc(&dv);
        let sel = crate::lower::select_case(u, disc);
        let val = match sel {
            Some(ci) => match &u.cases[ci].ty {
                Some(t) => Some(Box::new(self.value(t)?)),
                None => None,
            },
            None => None,
        };
        Ok(Val::Union { disc, case: sel, val })
    }

    /// XCDR1 parameter header; None at the end-of-list marker
    fn pl_header(&mut self, at: &str) -> DRes<Option<(u32, bool, usize)>> {
        self.pl_header_in(at, true)
    }

    /// `in_list`: inside a mutable parameter list (where a terminator can occur); an optional member
    /// of a final struct is a lone parameter: (id 1, length 0) there is an absent member with id 1
    fn pl_header_in(&mut self, at: &str, in_list: bool) -> DRes<Option<(u32, bool, usize)>> {
        self.r.align(4)?;
        let pid = self.r.u16(at)?;
        let len = self.r.u16(at)? as usize;
        let mu = pid & FLAG_M != 0;
        let p = pid & 0x3FFF;
        if p == PID_LIST_END && in_list {
            return Ok(None);
        }
        if in_list && p == PID_SENTINEL_RTPS && len == 0 && pid & 0xC000 == 0 {
            // RTPS PID_SENTINEL: tolerated as end marker (noted)
            self.notes.rtps_sentinel = true;
            return Ok(None);
        }
        if p == PID_EXTENDED {
            if len != 8 {
                return derr(format!("PID_EXTENDED with slength {len}"), "7.4.3.5.3 rule (25)", at);
            }
            let id = self.r.u32(at)? & 0x0FFF_FFFF;
            let l = self.r.u32(at)? as usize;
            return Ok(Some((id, mu, l)));
        }
        if p > PID_IGNORE {
            return derr(format!("reserved parameter id {p:#06x}"), "7.4.3.4? Table 'Reserved PID values'", at);
        }
        Ok(Some((p as u32, mu, len)))
    }

    /// value of an XCDR1 parameter: ORIGIN reset for the value, restored afterwards
    fn member_body1(&mut self, ty: &Ty, len: usize, id: u32, zero_is_absent: bool) -> DRes<Option<Val>> {
        let tag = format!("param<{}>", ty.tag());
        let start = self.r.pos;
        if start + len > self.r.end {
            return derr(format!("parameter {id} length {len} reaches past the end"), "7.4.3.5.3 rule (24)", &tag);
        }
        if len == 0 && zero_is_absent {
            if self.sticky_origin {
                self.r.origin = start;
            }
            return Ok(None);
        }
        let (so, se) = (self.r.origin, self.r.end);
        self.r.origin = start;
        self.r.end = start + len;
        let v = self.value(ty)?;
        let used = self.r.pos - start;
        if !self.sticky_origin {
            self.r.origin = so;
        }
        self.r.end = se;
        if used != len {
            let padded = (used + 3) & !3;
            if len == padded {
                self.notes.padded_len = true;
            } else {
                return derr(
                    format!("parameter {id} announces {len} bytes but its value occupies {used}"),
                    "7.4.3.5.3 rule (24): { M.value.ssize : UInt16 }",
                    &tag,
                );
            }
        }
        self.r.pos = start + len;
        Ok(Some(v))
    }

    /// EMHEADER1 (+NEXTINT): returns (member id, must-understand, end offset of the member value)
    fn emheader(&mut self, at: &str) -> DRes<(u32, bool, usize)> {
        let h = self.r.u32(at)?;
        let mu = h >> 31 == 1;
        let lc = (h >> 28) & 7;
        let id = h & 0x0FFF_FFFF;
        self.notes.lcs[lc as usize] += 1;
        let end = match lc {
            0 => self.r.pos + 1,
            1 => self.r.pos + 2,
            2 => self.r.pos + 4,
            3 => self.r.pos + 8,
            4 => {
                let n = self.r.u32(at)? as usize;
                self.r.pos + n
            }
            _ => {
                // LC 5,6,7: NEXTINT is also the first UInt32 of the member
                let n = self.r.u32(at)? as usize;
                self.r.pos -= 4;
                let mult = match lc {
                    5 => 1,
                    6 => 4,
                    _ => 8,
                };
                self.r.pos + 4 + n * mult
            }
        };
        if end > self.r.end {
            return derr(format!("member {id} (LC {lc}) reaches past the enclosing object"), "7.4.3.4.5 EMHEADER1/LC", at);
        }
        Ok((id, mu, end))
    }

    fn member_body2(&mut self, ty: &Ty, body_end: usize, id: u32) -> DRes<Val> {
        let tag = format!("emember<{}>", ty.tag());
        let save = self.r.end;
        self.r.end = body_end;
        let v = self.value(ty)?;
        if self.r.pos != body_end {
            return derr(
                format!("EMHEADER of member {id} announces a value ending at offset {body_end} but the value ends at {}", self.r.pos),
                "7.4.3.4.5 (LC/NEXTINT give the member's serialized size) and 7.4.3.5.3 rule (22)",
                &tag,
            );
        }
        self.r.end = save;
        Ok(v)
    }
}
