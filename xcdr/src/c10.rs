//! C10 — XCDR encoding matches DDS-XTypes as implemented independently (differential vs R-XCDR),
//! in both directions:
//!   encode: the bytes dust-dds produces must be a legal XCDR encoding of the value: the strict
//!           R-XCDR decoder reads them back to the same value (header id, padding bits, every
//!           DHEADER / parameter length / EMHEADER length code consistent, nothing left over);
//!           byte equality with the R-XCDR encoder is recorded per encoder policy;
//!   decode: the bytes R-XCDR produces (for several legal encoder policies) must decode in
//!           dust-dds to the same value.

use crate::c09::{Case, GenCase, case_strategy, describe, generic_shape, realize};
use crate::features::{self, Feat};
use crate::golden;
use crate::harness::*;
use crate::lower::*;
use crate::rxcdr::{self, ALL_ENC, Enc, Policy, Ver};
use crate::types::*;
use proptest::prelude::*;
use serde_json::json;
use vcore::{Ctx, Meta, Report};

/// encoder policies whose output dust-dds has to accept (all legal per §7.4.3; see fragment tolerances)
fn decode_policies() -> Vec<(&'static str, Policy)> {
    vec![
        ("spec", Policy::SPEC),
        ("lc4-no-sharing", Policy { share_nextint: false, ..Policy::SPEC }),
        ("lc-by-size", Policy { lc_by_size_any: true, ..Policy::SPEC }),
        ("id-order+padded-length", Policy { order_by_id: true, v1_len_padded: true, ..Policy::SPEC }),
    ]
}

fn sig(dir: &str, feat: Option<Feat>, enc: Enc, ty: &Ty) -> String {
    match feat {
        Some(f) => format!("C10:{dir}:{}", f.name()),
        None => format!("C10:{dir}:{}:{}", enc.vname(), ty.tag()),
    }
}

pub fn eval_case(c: &Case, allowed: &features::Allowed, fd: i32) -> Outcome {
    let mut o = Outcome { classes: type_classes(&c.ty), nontrivial: nontrivial_type(&c.ty), ..Default::default() };
    let lt = match guarded(|| lower(&c.ty)) {
        Caught::Ok(l) => l,
        Caught::Panic(_, s) => {
            o.fail(format!("harness:lower:{s}"), "type lowering panicked");
            return o;
        }
    };
    let has_v1_mutable = c.ty.any(&|t| matches!(t.ext(), Some(Ext::Mutable)));
    for (vi, val) in c.vals.iter().enumerate() {
        let data = match guarded(|| lower_data(&c.ty, &lt, val)) {
            Caught::Ok(d) => d,
            Caught::Panic(_, s) => {
                o.fail(format!("harness:lower-data:{s}"), "value lowering panicked");
                continue;
            }
        };
        for (ei, enc) in ALL_ENC.into_iter().enumerate() {
            mark(fd, &format!("{vi} {ei}"));
            let feats = features::scan(&c.ty, val, enc);
            // the list-end finding is checked by its own sub-oracle; blame the others first
            let others: Vec<Feat> = feats.iter().copied().filter(|f| *f != Feat::V1ListEnd).collect();
            let wb = features::blame_writer(&others, allowed);
            let rb = features::blame_reader(&others, allowed);

            // ---------------- encode direction
            o.evaluations += 1;
            match dust_serialize(&data, enc) {
                Caught::Panic(true, s) => {
                    let sg = match wb {
                        Some(f) => sig("encode", Some(f), enc, &c.ty),
                        None => format!("C10:panic:{s}"),
                    };
                    o.fail(sg, format!("serialize ({}) panicked: {s}; type {}", enc.name(), describe(&c.ty)));
                }
                Caught::Panic(false, s) => o.fail(format!("harness:panic:{s}"), "panic outside dust-dds"),
                Caught::Ok(Err(e)) => o.fail(
                    sig("encode", wb, enc, &c.ty),
                    format!("serialize ({}) of a valid value failed with {e}; type {}", enc.name(), describe(&c.ty)),
                ),
                Caught::Ok(Ok(bytes)) => {
                    let mut strict = rxcdr::decode(&c.ty, &bytes, Some(enc));
                    let strict_wrong = match &strict {
                        Err(_) => true,
                        Ok((v2, _)) => v2 != val,
                    };
                    if strict_wrong && enc.ver == Ver::V1 {
                        // tolerated reading of PUSH(ORIGIN=0): not restored after the parameter
                        if let Ok(x) = rxcdr::decode_opt(&c.ty, &bytes, Some(enc), true) {
                            if &x.0 == val {
                                o.class("tolerated:xcdr1-origin-not-restored-after-parameter");
                                strict = Ok(x);
                            }
                        }
                    }
                    match strict {
                        Err(e) => {
                            o.fail(
                                sig("encode", wb, enc, &c.ty),
                                format!(
                                    "dust-dds bytes ({}) are not a legal encoding: {} — XTypes 1.3 {}; type {}; value {}; dust-dds bytes {}; R-XCDR bytes {}",
                                    enc.name(),
                                    e.what,
                                    e.clause,
                                    describe(&c.ty),
                                    short(val),
                                    hex(&bytes),
                                    rxcdr::encode(&c.ty, val, enc, Policy::SPEC).map(|b| hex(&b.0)).unwrap_or_default()
                                ),
                            );
                        }
                        Ok((v2, notes)) => {
                            if let Some(path) = diff(&c.ty, val, &v2) {
                                o.fail(
                                    sig("encode", wb, enc, &c.ty),
                                    format!(
                                        "dust-dds bytes ({}) decode (R-XCDR) to a different value at {path}; type {}; value {}; bytes {}",
                                        enc.name(),
                                        describe(&c.ty),
                                        short(val),
                                        hex(&bytes)
                                    ),
                                );
                            } else {
                                // legal encoding of the value. Which encoder policy reproduces it byte for byte?
                                let spec = rxcdr::encode(&c.ty, val, enc, Policy::SPEC).map(|b| b.0).unwrap_or_default();
                                if spec == bytes {
                                    o.class("bytes-equal:spec-policy");
                                } else if rxcdr::encode(&c.ty, val, enc, golden::DUST).map(|b| b.0).unwrap_or_default() == bytes {
                                    o.class("bytes-equal:alternative-policy(id-order,lc-by-size,pid-1-terminator)");
                                } else if Policy::all().into_iter().any(|p| rxcdr::encode(&c.ty, val, enc, p).map(|b| b.0 == bytes).unwrap_or(false)) {
                                    o.class("bytes-equal:other-enumerated-policy");
                                } else {
                                    o.class("bytes-differ:decodes-strictly(unenumerated-choice)");
                                }
                                for (lc, n) in notes.lcs.iter().enumerate() {
                                    if *n > 0 {
                                        o.class(format!("dust-emits-LC{lc}"));
                                    }
                                }
                                if notes.rtps_sentinel {
                                    o.fail(
                                        format!("C10:encode:{}", Feat::V1ListEnd.name()),
                                        format!(
                                            "XCDR1 parameter list of a user-defined mutable type terminated with PID 0x0001 (RTPS PID_SENTINEL) instead of PID_LIST_END 0x3F02 — XTypes 1.3 7.4.3.5.3 rules (23)/(28) with the reserved PIDs of 7.4.3.4 (PID_EXTENDED 0x3F01, PID_LIST_END 0x3F02, PID_IGNORE 0x3F03); 0x0001 is a valid member id of user types; type {}; bytes ({}) {}",
                                            describe(&c.ty),
                                            enc.name(),
                                            hex(&bytes)
                                        ),
                                    );
                                }
                            }
                        }
                    }
                }
            }

            // ---------------- decode direction
            for (pname, pol) in decode_policies() {
                // an evaluation that shows the trigger of a confirmed reader finding is confirmed once
                // (literal policy), not once per policy: each one may cost an evaluator process
                if rb.is_some() && pname != "spec" {
                    o.class("decode-policies-skipped(known reader finding present)");
                    break;
                }
                // variants that differ only for this encoding version are skipped
                if enc.ver == Ver::V1 && (pname == "lc4-no-sharing" || pname == "lc-by-size") {
                    continue;
                }
                if enc.ver == Ver::V2 && pname == "id-order+padded-length" && !c.ty.any(&|t| matches!(t, Ty::Struct(s) if s.ext == Ext::Mutable)) {
                    continue;
                }
                let mut variants = vec![(pol, false)];
                if enc.ver == Ver::V1 && has_v1_mutable {
                    // tolerance variant: same stream terminated the RTPS way, so that the rest of
                    // XCDR1 mutable decoding is still explored behind the list-end finding
                    variants.push((Policy { v1_rtps_sentinel: true, ..pol }, true));
                }
                for (pol, rtps_variant) in variants {
                    let (rbytes, lcs) = match rxcdr::encode(&c.ty, val, enc, pol) {
                        Ok(b) => b,
                        Err(e) => {
                            o.fail("harness:rxcdr-encode", e.0);
                            continue;
                        }
                    };
                    o.evaluations += 1;
                    for (lc, n) in lcs.iter().enumerate() {
                        if *n > 0 {
                            o.class(format!("rxcdr-emits-LC{lc}"));
                        }
                    }
                    let list_end_variant = enc.ver == Ver::V1 && has_v1_mutable && !rtps_variant;
                    // LC 6/7 only occur with the sharing policies
                    let rb_here = if pol.share_nextint { rb } else { rb.filter(|f| *f != Feat::V2ReaderLc67) };
                    let rb_here = match rb_here {
                        Some(Feat::V2ReaderLc67) if lcs[6] + lcs[7] == 0 => None,
                        x => x,
                    };
                    let fail_sig = |generic: bool| -> String {
                        if list_end_variant {
                            format!("C10:decode:{}", Feat::V1ListEnd.name())
                        } else if generic {
                            sig("decode", rb_here, enc, &c.ty)
                        } else {
                            sig("decode", rb_here, enc, &c.ty)
                        }
                    };
                    let ctxt = |what: String| -> String {
                        format!(
                            "{what}; encoding {} policy {pname}{}; type {}; value {}; R-XCDR bytes {}",
                            enc.name(),
                            if rtps_variant { " (PID 1 terminator variant)" } else { "" },
                            describe(&c.ty),
                            short(val),
                            hex(&rbytes)
                        )
                    };
                    match dust_deserialize(lt.dt, &rbytes) {
                        Caught::Panic(true, s) => {
                            let sg = if list_end_variant || rb_here.is_some() { fail_sig(false) } else { format!("C10:panic:{s}") };
                            o.fail(sg, ctxt(format!("deserialize of a conformant stream panicked: {s}")));
                        }
                        Caught::Panic(false, s) => o.fail(format!("harness:panic:{s}"), "panic outside dust-dds"),
                        Caught::Ok(Err(e)) => o.fail(fail_sig(true), ctxt(format!("dust-dds rejects a conformant stream with {e}"))),
                        Caught::Ok(Ok(d2)) => match read_data(&c.ty, &d2) {
                            Err(e) => o.fail(fail_sig(true), ctxt(format!("dust-dds decodes a conformant stream into malformed data ({e})"))),
                            Ok(back) => {
                                if let Some(path) = diff(&c.ty, val, &back) {
                                    o.fail(fail_sig(true), ctxt(format!("dust-dds decodes a conformant stream to a different value at {path}")));
                                }
                            }
                        },
                    }
                }
            }
        }
    }
    o
}

pub fn on_death(c: &Case, d: &ChildDeath, allowed: &features::Allowed) -> Outcome {
    let mut it = d.marker.split_whitespace();
    let vi: usize = it.next().and_then(|x| x.parse().ok()).unwrap_or(0);
    let ei: usize = it.next().and_then(|x| x.parse().ok()).unwrap_or(0);
    let enc = ALL_ENC[ei.min(3)];
    let val = c.vals.get(vi).unwrap_or(&c.vals[0]);
    let feats = features::scan(&c.ty, val, enc);
    let f = features::blame_reader(&feats, allowed);
    let mut o = Outcome { classes: type_classes(&c.ty), evaluations: 1, nontrivial: nontrivial_type(&c.ty), ..Default::default() };
    o.fail(
        sig("decode", f, enc, &c.ty),
        format!(
            "evaluator process died ({}) while dust-dds decoded a conformant stream ({}): signal 6 = abort on a failed giant allocation, signal 27 = CPU allowance exceeded; type {}; value {}",
            d.exit,
            enc.name(),
            describe(&c.ty),
            short(val)
        ),
    );
    o
}

pub const RULE: &str = "non-trivial = the top-level type has aggregation depth >= 2 or contains an optional member, a mutable struct or a union; distinct by (type, values) hash; evaluations = value x encoding x (1 encode comparison + up to 4 decode policies)";

pub fn main(ctx: &Ctx) -> ! {
    let thorough = ctx.tier == vcore::Tier::Thorough;
    let gc = GenCfg::new(thorough);
    let vc = ValCfg::new(thorough);
    let allowed = features::Allowed::for_property("C10");
    let mut report = Report::default();
    let meta = Meta {
        rule: RULE,
        assumptions: &[
            "independent implementation = R-XCDR (this harness), transcribed from XTypes 1.3 7.4.3 and gated by the golden-vector self-test",
            "common subset: no wstring (vendors disagree on its encoding), no float128 keys; otherwise the C09 universe",
            "where the standard leaves the encoder a choice every choice is accepted on encode and several are exercised on decode (see fragment tolerances)",
        ],
        nontrivial_floor: ctx.pick(300, 3000),
    };
    // oracle self-test gate
    match golden::self_test() {
        Ok(n) => {
            report.stats.extra.insert("oracle_self_test_vectors".into(), json!(n));
        }
        Err(errs) => {
            for e in errs.iter().take(5) {
                eprintln!("R-XCDR self-test: {e}");
            }
            report.inconclusive.push(format!("R-XCDR oracle self-test failed on {} golden vectors", errs.len()));
            vcore::finish(ctx, meta, report);
        }
    }
    let everything = features::Allowed::everything();
    if let Some(path) = &ctx.replay {
        let v = vcore::load_replay(path);
        let case: Case = serde_json::from_value(v).unwrap_or_else(|e| {
            eprintln!("replay file does not hold a C10 case: {e}");
            std::process::exit(2)
        });
        replay_case(&mut report, &case, &|c, fd| eval_case(c, &allowed, fd), &|c, d| on_death(c, d, &everything));
        vcore::finish(ctx, meta, report);
    }
    let strat = (case_strategy(gc, 2), any::<u8>()).boxed();
    campaign(
        ctx,
        CampaignCfg { stream: "c10", cases: ctx.pick(1_500, 50_000), batch: 128, max_shrink: ctx.pick(600, 3000) },
        &strat,
        &mut report,
        &|(g, mode): &(GenCase, u8)| realize(g, &vc, &allowed, mode % 20 < 17),
        &|c, fd| eval_case(c, &allowed, fd),
        &|c, d| on_death(c, d, &allowed),
        &|c| json!({"type": generic_shape(&c.ty), "values": c.vals.len()}),
    );
    vcore::finish(ctx, meta, report)
}
