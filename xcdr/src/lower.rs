//! Lowering of R-TYPES to dust-dds: `Ty` -> `DynamicType<'static>` through the public
//! `DynamicTypeBuilderFactory`, `Val` -> `DynamicData` through the public setters in exactly the
//! way the derive macro's `create_dynamic_sample` does, and the way back (`DynamicData` -> `Val`)
//! by walking the data with the type.

use crate::types::*;
use dust_dds::xtypes::dynamic_type::{
    DynamicData, DynamicDataFactory, DynamicType, DynamicTypeBuilderFactory, ExtensibilityKind, MemberDescriptor,
    TryConstructKind, TypeDescriptor, TypeKind,
};

fn leak_str(s: &str) -> &'static str {
    Box::leak(s.to_string().into_boxed_str())
}

pub fn kind_of(p: Prim) -> TypeKind {
    match p {
        Prim::Bool => TypeKind::BOOLEAN,
        Prim::Byte => TypeKind::BYTE,
        Prim::I8 => TypeKind::INT8,
        Prim::U8 => TypeKind::UINT8,
        Prim::I16 => TypeKind::INT16,
        Prim::U16 => TypeKind::UINT16,
        Prim::I32 => TypeKind::INT32,
        Prim::U32 => TypeKind::UINT32,
        Prim::I64 => TypeKind::INT64,
        Prim::U64 => TypeKind::UINT64,
        Prim::F32 => TypeKind::FLOAT32,
        Prim::F64 => TypeKind::FLOAT64,
        Prim::F128 => TypeKind::FLOAT128,
        Prim::Char8 => TypeKind::CHAR8,
    }
}

fn ext_of(e: Ext) -> ExtensibilityKind {
    match e {
        Ext::Final => ExtensibilityKind::Final,
        Ext::Appendable => ExtensibilityKind::Appendable,
        Ext::Mutable => ExtensibilityKind::Mutable,
    }
}

fn member_desc(name: &str, id: u32, index: u32, ty: DynamicType<'static>) -> MemberDescriptor {
    MemberDescriptor {
        name: leak_str(name),
        id,
        r#type: ty,
        default_value: None,
        index,
        label: &[],
        try_construct_kind: TryConstructKind::Discard,
        is_key: false,
        is_optional: false,
        is_must_understand: false,
        is_shared: false,
        is_default_label: false,
        is_external: false,
    }
}

fn agg_descriptor(kind: TypeKind, name: &str, ext: Ext, disc: Option<DynamicType<'static>>, nested: bool) -> TypeDescriptor {
    TypeDescriptor {
        kind,
        name: leak_str(name),
        base_type: None,
        discriminator_type: disc,
        bound: &[],
        element_type: None,
        key_element_type: None,
        extensibility_kind: ext_of(ext),
        is_nested: nested,
    }
}

/// Lower a type. All allocations are leaked (the builder API hands out `'static` references).
pub fn lower_type(ty: &Ty) -> DynamicType<'static> {
    lower_type_n(ty, false)
}

fn lower_type_n(ty: &Ty, nested: bool) -> DynamicType<'static> {
    match ty {
        Ty::Prim(p) => DynamicTypeBuilderFactory::get_primitive_type(kind_of(*p)),
        Ty::Str(b) => DynamicTypeBuilderFactory::create_string_type(b.unwrap_or(0)).build(),
        Ty::WStr(b) => DynamicTypeBuilderFactory::create_wstring_type(b.unwrap_or(0)).build(),
        Ty::Enum(e) => {
            let holder = DynamicTypeBuilderFactory::get_primitive_type(match e.bit_bound {
                8 => TypeKind::INT8,
                16 => TypeKind::INT16,
                _ => TypeKind::INT32,
            });
            let mut b = DynamicTypeBuilderFactory::create_type(agg_descriptor(TypeKind::ENUM, &e.name, Ext::Final, Some(holder), true));
            for (i, (l, v)) in e.labels.iter().enumerate() {
                let mut d = member_desc(l, i as u32, i as u32, holder);
                d.label = Vec::leak(vec![*v]);
                b.add_member(d).expect("enum member");
            }
            b.build()
        }
        Ty::Struct(s) => {
            let mut b = DynamicTypeBuilderFactory::create_type(agg_descriptor(TypeKind::STRUCTURE, &s.name, s.ext, None, nested));
            for (i, m) in s.members.iter().enumerate() {
                let mut d = member_desc(&m.name, m.id, i as u32, lower_type_n(&m.ty, true));
                d.is_key = m.key;
                d.is_optional = m.optional;
                d.is_must_understand = m.must_understand || m.key;
                b.add_member(d).expect("struct member");
            }
            b.build()
        }
        Ty::Union(u) => {
            let disc = DynamicTypeBuilderFactory::get_primitive_type(kind_of(u.disc));
            let mut b = DynamicTypeBuilderFactory::create_type(agg_descriptor(TypeKind::UNION, &u.name, u.ext, Some(disc), nested));
            let mut d = member_desc("discriminator", 0, 0, disc);
            d.is_must_understand = true;
            b.add_member(d).expect("disc");
            for (i, c) in u.cases.iter().enumerate() {
                let cty = match &c.ty {
                    Some(t) => lower_type_n(t, true),
                    None => DynamicTypeBuilderFactory::get_primitive_type(TypeKind::NONE),
                };
                let mut d = member_desc(&c.name, c.id, i as u32 + 1, cty);
                d.label = Vec::leak(c.labels.clone());
                d.is_default_label = c.default;
                b.add_member(d).expect("case");
            }
            b.build()
        }
        Ty::Seq(e, bound) => DynamicTypeBuilderFactory::create_sequence_type(lower_type_n(e, true), bound.unwrap_or(0)).build(),
        Ty::Array(e, n) => DynamicTypeBuilderFactory::create_array_type(lower_type_n(e, true), Vec::leak(vec![*n])).build(),
    }
}

/// A lowered type together with the lowered types of all its sub-terms (same tree shape as `Ty`),
/// so that values can be lowered without rebuilding (and re-leaking) types.
pub struct LTy {
    pub dt: DynamicType<'static>,
    pub kids: Vec<LTy>,
}

pub fn lower(ty: &Ty) -> LTy {
    let dt = lower_type(ty);
    index_lowered(ty, dt)
}

fn index_lowered(ty: &Ty, dt: DynamicType<'static>) -> LTy {
    let kids = match ty {
        Ty::Struct(s) => s
            .members
            .iter()
            .enumerate()
            .map(|(i, m)| index_lowered(&m.ty, dt.member_list[i].descriptor.r#type))
            .collect(),
        Ty::Union(u) => u
            .cases
            .iter()
            .enumerate()
            .map(|(i, c)| match &c.ty {
                Some(t) => index_lowered(t, dt.member_list[i + 1].descriptor.r#type),
                None => LTy { dt: dt.member_list[i + 1].descriptor.r#type, kids: vec![] },
            })
            .collect(),
        Ty::Seq(e, _) | Ty::Array(e, _) => vec![index_lowered(e, dt.descriptor.element_type.expect("element type"))],
        _ => vec![],
    };
    LTy { dt, kids }
}

// ------------------------------------------------------------------------------------------
// Val -> DynamicData

fn char_of(b: u8) -> char {
    b as char // Latin-1
}

fn enum_data(lt: &LTy, e: &EnumDef, v: i32) -> DynamicData<'static> {
    let mut d = DynamicDataFactory::create_data(lt.dt);
    match e.bit_bound {
        8 => d.set_int8_value(0, v as i8).unwrap(),
        16 => d.set_int16_value(0, v as i16).unwrap(),
        _ => d.set_int32_value(0, v).unwrap(),
    }
    d
}

fn set_disc(d: &mut DynamicData<'static>, p: Prim, v: i64) {
    match p {
        Prim::I8 => d.set_int8_value(0, v as i8).unwrap(),
        Prim::U8 => d.set_uint8_value(0, v as u8).unwrap(),
        Prim::I16 => d.set_int16_value(0, v as i16).unwrap(),
        Prim::U16 => d.set_uint16_value(0, v as u16).unwrap(),
        Prim::I32 => d.set_int32_value(0, v as i32).unwrap(),
        Prim::U32 => d.set_uint32_value(0, v as u32).unwrap(),
        _ => panic!("unsupported discriminator kind in harness"),
    }
}

/// Lower an aggregated value (struct / union / enum) to a DynamicData of its own.
pub fn lower_data(ty: &Ty, lt: &LTy, v: &Val) -> DynamicData<'static> {
    match (ty, v) {
        (Ty::Struct(s), Val::Struct(ms)) => {
            let mut d = DynamicDataFactory::create_data(lt.dt);
            for (i, m) in s.members.iter().enumerate() {
                if let Some(Some(mv)) = ms.get(i) {
                    set_member(&mut d, m.id, &m.ty, &lt.kids[i], mv);
                }
            }
            d
        }
        (Ty::Union(u), Val::Union { disc, case, val }) => {
            let mut d = DynamicDataFactory::create_data(lt.dt);
            set_disc(&mut d, u.disc, *disc);
            if let (Some(ci), Some(mv)) = (case, val) {
                let c = &u.cases[*ci];
                if let Some(ct) = &c.ty {
                    set_member(&mut d, c.id, ct, &lt.kids[*ci], mv);
                }
            }
            d
        }
        (Ty::Enum(e), Val::Enum(x)) => enum_data(lt, e, *x),
        _ => panic!("harness: value does not match type {ty:?} / {v:?}"),
    }
}

macro_rules! prim_list {
    ($l:expr, $variant:ident, $t:ty) => {
        $l.iter()
            .map(|x| match x {
                Val::$variant(v) => *v as $t,
                o => panic!("harness: list element {o:?}"),
            })
            .collect::<Vec<$t>>()
    };
}

fn set_member(d: &mut DynamicData<'static>, id: u32, ty: &Ty, lt: &LTy, v: &Val) {
    match (ty, v) {
        (Ty::Prim(p), v) => match (p, v) {
            (Prim::Bool, Val::Bool(x)) => d.set_boolean_value(id, *x).unwrap(),
            (Prim::Byte, Val::U8(x)) => d.set_byte_value(id, *x).unwrap(),
            (Prim::U8, Val::U8(x)) => d.set_uint8_value(id, *x).unwrap(),
            (Prim::Char8, Val::U8(x)) => d.set_char8_value(id, char_of(*x)).unwrap(),
            (Prim::I8, Val::I8(x)) => d.set_int8_value(id, *x).unwrap(),
            (Prim::I16, Val::I16(x)) => d.set_int16_value(id, *x).unwrap(),
            (Prim::U16, Val::U16(x)) => d.set_uint16_value(id, *x).unwrap(),
            (Prim::I32, Val::I32(x)) => d.set_int32_value(id, *x).unwrap(),
            (Prim::U32, Val::U32(x)) => d.set_uint32_value(id, *x).unwrap(),
            (Prim::I64, Val::I64(x)) => d.set_int64_value(id, *x).unwrap(),
            (Prim::U64, Val::U64(x)) => d.set_uint64_value(id, *x).unwrap(),
            (Prim::F32, Val::F32(x)) => d.set_float32_value(id, f32::from_bits(*x)).unwrap(),
            (Prim::F64, Val::F64(x)) => d.set_float64_value(id, f64::from_bits(*x)).unwrap(),
            (Prim::F128, Val::F128(x)) => d.set_float128_value(id, *x as i128).unwrap(),
            _ => panic!("harness: prim mismatch {p:?} {v:?}"),
        },
        (Ty::Str(_) | Ty::WStr(_), Val::Str(s)) => d.set_string_value(id, s.clone()).unwrap(),
        (Ty::Enum(_) | Ty::Struct(_) | Ty::Union(_), v) => d.set_complex_value(id, lower_data(ty, lt, v)).unwrap(),
        (Ty::Seq(e, _) | Ty::Array(e, _), Val::List(l)) => {
            let elt = &lt.kids[0];
            match &**e {
                Ty::Prim(p) => match p {
                    Prim::Bool => d.set_boolean_values(id, prim_list!(l, Bool, bool)).unwrap(),
                    Prim::Byte => d.set_byte_values(id, prim_list!(l, U8, u8)).unwrap(),
                    Prim::U8 => d.set_uint8_values(id, prim_list!(l, U8, u8)).unwrap(),
                    Prim::Char8 => d
                        .set_char8_values(
                            id,
                            l.iter()
                                .map(|x| match x {
                                    Val::U8(b) => char_of(*b),
                                    o => panic!("harness: {o:?}"),
                                })
                                .collect(),
                        )
                        .unwrap(),
                    Prim::I8 => d.set_int8_values(id, prim_list!(l, I8, i8)).unwrap(),
                    Prim::I16 => d.set_int16_values(id, prim_list!(l, I16, i16)).unwrap(),
                    Prim::U16 => d.set_uint16_values(id, prim_list!(l, U16, u16)).unwrap(),
                    Prim::I32 => d.set_int32_values(id, prim_list!(l, I32, i32)).unwrap(),
                    Prim::U32 => d.set_uint32_values(id, prim_list!(l, U32, u32)).unwrap(),
                    Prim::I64 => d.set_int64_values(id, prim_list!(l, I64, i64)).unwrap(),
                    Prim::U64 => d.set_uint64_values(id, prim_list!(l, U64, u64)).unwrap(),
                    Prim::F32 => d
                        .set_float32_values(
                            id,
                            l.iter()
                                .map(|x| match x {
                                    Val::F32(b) => f32::from_bits(*b),
                                    o => panic!("harness: {o:?}"),
                                })
                                .collect(),
                        )
                        .unwrap(),
                    Prim::F64 => d
                        .set_float64_values(
                            id,
                            l.iter()
                                .map(|x| match x {
                                    Val::F64(b) => f64::from_bits(*b),
                                    o => panic!("harness: {o:?}"),
                                })
                                .collect(),
                        )
                        .unwrap(),
                    Prim::F128 => d.set_float128_values(id, prim_list!(l, F128, i128)).unwrap(),
                },
                Ty::Str(_) | Ty::WStr(_) => d
                    .set_string_values(
                        id,
                        l.iter()
                            .map(|x| match x {
                                Val::Str(s) => s.clone(),
                                o => panic!("harness: {o:?}"),
                            })
                            .collect(),
                    )
                    .unwrap(),
                Ty::Enum(_) | Ty::Struct(_) | Ty::Union(_) => {
                    d.set_complex_values(id, l.iter().map(|x| lower_data(e, elt, x)).collect()).unwrap()
                }
                Ty::Seq(..) | Ty::Array(..) => panic!("harness: nested collections are not generated"),
            }
        }
        _ => panic!("harness: value does not match member type {ty:?} / {v:?}"),
    }
}

// ------------------------------------------------------------------------------------------
// DynamicData -> Val

fn latin1(c: char) -> Result<u8, String> {
    u8::try_from(c as u32).map_err(|_| format!("char8 value U+{:04X} does not fit 8 bits", c as u32))
}

/// Read a DynamicData back into a `Val` by walking it with the type. Members that are not set
/// come back as `None` (only legal for optional members; the comparison decides).
pub fn read_data(ty: &Ty, d: &DynamicData) -> Result<Val, String> {
    match ty {
        Ty::Struct(s) => {
            let mut out = vec![];
            for m in &s.members {
                if d.get_value(m.id).is_err() {
                    out.push(None);
                } else {
                    out.push(Some(read_member(d, m.id, &m.ty).map_err(|e| format!("{}.{}: {e}", s.name, m.name))?));
                }
            }
            let known: Vec<u32> = s.members.iter().map(|m| m.id).collect();
            for i in 0..d.get_item_count() {
                let id = d.get_member_id_at_index(i).map_err(|e| format!("{e:?}"))?;
                if !known.contains(&id) {
                    return Err(format!("{}: data holds a value for id {id} which is no member", s.name));
                }
            }
            Ok(Val::Struct(out))
        }
        Ty::Union(u) => {
            let disc: i64 = match u.disc {
                Prim::I8 => *d.get_int8_value(0).map_err(|e| format!("disc: {e:?}"))? as i64,
                Prim::U8 => *d.get_uint8_value(0).map_err(|e| format!("disc: {e:?}"))? as i64,
                Prim::I16 => *d.get_int16_value(0).map_err(|e| format!("disc: {e:?}"))? as i64,
                Prim::U16 => *d.get_uint16_value(0).map_err(|e| format!("disc: {e:?}"))? as i64,
                Prim::I32 => *d.get_int32_value(0).map_err(|e| format!("disc: {e:?}"))? as i64,
                Prim::U32 => *d.get_uint32_value(0).map_err(|e| format!("disc: {e:?}"))? as i64,
                _ => return Err("disc kind".into()),
            };
            // which members are set?
            let mut set = vec![];
            for (ci, c) in u.cases.iter().enumerate() {
                if d.get_value(c.id).is_ok() {
                    set.push(ci);
                }
            }
            if d.get_item_count() as usize != 1 + set.len() {
                return Err(format!("{}: data holds values for ids that are no case of the union", u.name));
            }
            // the case the discriminator selects
            let sel = select_case(u, disc);
            match (sel, set.as_slice()) {
                (Some(ci), []) if u.cases[ci].ty.is_none() => Ok(Val::Union { disc, case: Some(ci), val: None }),
                (None, []) => Ok(Val::Union { disc, case: None, val: None }),
                (Some(ci), [one]) if *one == ci => {
                    let c = &u.cases[ci];
                    let ct = c.ty.as_ref().ok_or_else(|| format!("{}: value stored for unit case {}", u.name, c.name))?;
                    let v = read_member(d, c.id, ct).map_err(|e| format!("{}.{}: {e}", u.name, c.name))?;
                    Ok(Val::Union { disc, case: Some(ci), val: Some(Box::new(v)) })
                }
                (sel, set) => Err(format!("{}: discriminator {disc} selects case {sel:?} but members set are {set:?}", u.name)),
            }
        }
        Ty::Enum(e) => {
            let v = match e.bit_bound {
                8 => d.get_int8_value(0).map(|x| *x as i32),
                16 => d.get_int16_value(0).map(|x| *x as i32),
                _ => d.get_int32_value(0).copied(),
            }
            .map_err(|er| format!("enum {}: {er:?}", e.name))?;
            Ok(Val::Enum(v))
        }
        _ => Err("read_data on non-aggregated type".into()),
    }
}

pub fn select_case(u: &UnionDef, disc: i64) -> Option<usize> {
    // dust-dds compares labels as i32 against the discriminator converted with `as i32`
    let d32 = disc as i32;
    u.cases.iter().position(|c| c.labels.contains(&d32)).or_else(|| u.cases.iter().position(|c| c.default))
}

fn read_member(d: &DynamicData, id: u32, ty: &Ty) -> Result<Val, String> {
    let e = |x: dust_dds::xtypes::error::XTypesError| format!("{x:?}");
    Ok(match ty {
        Ty::Prim(p) => match p {
            Prim::Bool => Val::Bool(*d.get_boolean_value(id).map_err(e)?),
            Prim::Byte => Val::U8(*d.get_byte_value(id).map_err(e)?),
            Prim::U8 => Val::U8(*d.get_uint8_value(id).map_err(e)?),
            Prim::Char8 => Val::U8(latin1(*d.get_char8_value(id).map_err(e)?)?),
            Prim::I8 => Val::I8(*d.get_int8_value(id).map_err(e)?),
            Prim::I16 => Val::I16(*d.get_int16_value(id).map_err(e)?),
            Prim::U16 => Val::U16(*d.get_uint16_value(id).map_err(e)?),
            Prim::I32 => Val::I32(*d.get_int32_value(id).map_err(e)?),
            Prim::U32 => Val::U32(*d.get_uint32_value(id).map_err(e)?),
            Prim::I64 => Val::I64(*d.get_int64_value(id).map_err(e)?),
            Prim::U64 => Val::U64(*d.get_uint64_value(id).map_err(e)?),
            Prim::F32 => Val::F32(d.get_float32_value(id).map_err(e)?.to_bits()),
            Prim::F64 => Val::F64(d.get_float64_value(id).map_err(e)?.to_bits()),
            Prim::F128 => Val::F128(*d.get_float128_value(id).map_err(e)? as u128),
        },
        Ty::Str(_) | Ty::WStr(_) => Val::Str(d.get_string_value(id).map_err(e)?.clone()),
        Ty::Enum(_) | Ty::Struct(_) | Ty::Union(_) => read_data(ty, d.get_complex_value(id).map_err(e)?)?,
        Ty::Seq(el, _) | Ty::Array(el, _) => Val::List(match &**el {
            Ty::Prim(p) => match p {
                Prim::Bool => d.get_boolean_values(id).map_err(e)?.iter().map(|x| Val::Bool(*x)).collect(),
                Prim::Byte => d.get_byte_values(id).map_err(e)?.iter().map(|x| Val::U8(*x)).collect(),
                Prim::U8 => d.get_uint8_values(id).map_err(e)?.iter().map(|x| Val::U8(*x)).collect(),
                Prim::Char8 => {
                    let mut v = vec![];
                    for c in d.get_char8_values(id).map_err(e)? {
                        v.push(Val::U8(latin1(*c)?));
                    }
                    v
                }
                Prim::I8 => d.get_int8_values(id).map_err(e)?.iter().map(|x| Val::I8(*x)).collect(),
                Prim::I16 => d.get_int16_values(id).map_err(e)?.iter().map(|x| Val::I16(*x)).collect(),
                Prim::U16 => d.get_uint16_values(id).map_err(e)?.iter().map(|x| Val::U16(*x)).collect(),
                Prim::I32 => d.get_int32_values(id).map_err(e)?.iter().map(|x| Val::I32(*x)).collect(),
                Prim::U32 => d.get_uint32_values(id).map_err(e)?.iter().map(|x| Val::U32(*x)).collect(),
                Prim::I64 => d.get_int64_values(id).map_err(e)?.iter().map(|x| Val::I64(*x)).collect(),
                Prim::U64 => d.get_uint64_values(id).map_err(e)?.iter().map(|x| Val::U64(*x)).collect(),
                Prim::F32 => d.get_float32_values(id).map_err(e)?.iter().map(|x| Val::F32(x.to_bits())).collect(),
                Prim::F64 => d.get_float64_values(id).map_err(e)?.iter().map(|x| Val::F64(x.to_bits())).collect(),
                Prim::F128 => d.get_float128_values(id).map_err(e)?.iter().map(|x| Val::F128(*x as u128)).collect(),
            },
            Ty::Str(_) | Ty::WStr(_) => d.get_string_values(id).map_err(e)?.iter().map(|s| Val::Str(s.clone())).collect(),
            Ty::Enum(_) | Ty::Struct(_) | Ty::Union(_) => {
                let mut v = vec![];
                for x in d.get_complex_values(id).map_err(e)? {
                    v.push(read_data(el, x)?);
                }
                v
            }
            _ => return Err("nested collection".into()),
        }),
    })
}

/// First difference between two values of a type, as a path (None = equal). Floats are compared
/// by bits (they are stored as bits in `Val`).
pub fn diff(ty: &Ty, a: &Val, b: &Val) -> Option<String> {
    if a == b {
        return None;
    }
    match (ty, a, b) {
        (Ty::Struct(s), Val::Struct(x), Val::Struct(y)) => {
            for (i, m) in s.members.iter().enumerate() {
                match (x.get(i).and_then(|v| v.as_ref()), y.get(i).and_then(|v| v.as_ref())) {
                    (None, None) => {}
                    (Some(p), Some(q)) => {
                        if let Some(d) = diff(&m.ty, p, q) {
                            return Some(format!(".{}{}", m.name, d));
                        }
                    }
                    (Some(_), None) => return Some(format!(".{} (present -> absent)", m.name)),
                    (None, Some(_)) => return Some(format!(".{} (absent -> present)", m.name)),
                }
            }
            Some(" (struct shape)".into())
        }
        (Ty::Union(u), Val::Union { disc: d1, case: c1, val: v1 }, Val::Union { disc: d2, case: c2, val: v2 }) => {
            if d1 != d2 {
                return Some(format!(" (discriminator {d1} -> {d2})"));
            }
            if c1 != c2 {
                return Some(format!(" (selected case {c1:?} -> {c2:?})"));
            }
            match (c1, v1, v2) {
                (Some(ci), Some(p), Some(q)) => {
                    let c = &u.cases[*ci];
                    diff(c.ty.as_ref().unwrap(), p, q).map(|d| format!(".{}{}", c.name, d))
                }
                _ => Some(" (union member presence)".into()),
            }
        }
        (Ty::Seq(e, _) | Ty::Array(e, _), Val::List(x), Val::List(y)) => {
            if x.len() != y.len() {
                return Some(format!(" (length {} -> {})", x.len(), y.len()));
            }
            for (i, (p, q)) in x.iter().zip(y).enumerate() {
                if let Some(d) = diff(e, p, q) {
                    return Some(format!("[{i}]{d}"));
                }
            }
            None
        }
        (_, a, b) => Some(format!(" ({} -> {})", short(a), short(b))),
    }
}

pub fn short(v: &Val) -> String {
    let s = format!("{v:?}");
    if s.chars().count() > 160 { format!("{}…", s.chars().take(160).collect::<String>()) } else { s }
}
