//! C09 — XCDR serialization round-trips every value of every supported type, XCDR1 and XCDR2 in
//! both byte orders, and the encapsulation padding is recorded correctly.

use crate::features;
use crate::harness::*;
use crate::lower::*;
use crate::rxcdr::{self, ALL_ENC};
use crate::types::*;
use proptest::prelude::*;
use serde::{Deserialize, Serialize};
use serde_json::json;
use vcore::{Ctx, Meta, Report};

#[derive(Clone, Debug, Serialize, Deserialize)]
pub struct Case {
    pub ty: Ty,
    pub vals: Vec<Val>,
}

#[derive(Clone, Debug)]
pub struct GenCase {
    pub ty: Ty,
    pub tapes: Vec<Vec<u32>>,
}

pub fn case_strategy(gc: GenCfg, max_vals: usize) -> BoxedStrategy<GenCase> {
    (top_strategy(gc), proptest::collection::vec(tape_strategy(), 1..=max_vals)).prop_map(|(ty, tapes)| GenCase { ty, tapes }).boxed()
}

/// Turn a generated (type, tapes) pair into a concrete case. In clean mode the type is rewritten
/// so that no trigger shape of a confirmed finding occurs (features::sanitize).
pub fn realize(g: &GenCase, vc: &ValCfg, allowed: &features::Allowed, clean: bool) -> Case {
    if clean {
        let ty = features::sanitize(&g.ty, allowed);
        let vc = features::clean_val_cfg(vc, allowed, &ty);
        Case { vals: g.tapes.iter().map(|t| make_value(&ty, t, &vc)).collect(), ty }
    } else {
        Case { ty: g.ty.clone(), vals: g.tapes.iter().map(|t| make_value(&g.ty, t, vc)).collect() }
    }
}

/// A child that dies (refused giant allocation while decoding, abort) is a round-trip failure of
/// the evaluation it was working on. The marker is "<value index> <encoding index>".
pub fn on_death(c: &Case, d: &ChildDeath, allowed: &features::Allowed) -> Outcome {
    let mut it = d.marker.split_whitespace();
    let vi: usize = it.next().and_then(|x| x.parse().ok()).unwrap_or(0);
    let ei: usize = it.next().and_then(|x| x.parse().ok()).unwrap_or(0);
    let enc = ALL_ENC[ei.min(3)];
    let val = c.vals.get(vi).unwrap_or(&c.vals[0]);
    let feats = features::scan(&c.ty, val, enc);
    let shape = features::blame(&feats, allowed).map(|f| f.name().to_string());
    let what = format!(
        "evaluator process died ({}) while decoding dust-dds's own output ({}): signal 6 = abort on a failed giant allocation, signal 27 (SIGPROF) = per-case CPU allowance exceeded; type {}; value {}",
        d.exit,
        enc.name(),
        describe(&c.ty),
        short(val)
    );
    let mut o = Outcome { classes: type_classes(&c.ty), evaluations: 1, nontrivial: nontrivial_type(&c.ty), ..Default::default() };
    o.fail(roundtrip_sig(&shape, enc, &c.ty), what);
    o
}

pub fn eval_case(c: &Case, allowed: &features::Allowed, fd: i32) -> Outcome {
    let mut classes = type_classes(&c.ty);
    let mut evals = 0;
    let lt = match guarded(|| lower(&c.ty)) {
        Caught::Ok(l) => l,
        Caught::Panic(_, s) => {
            return Outcome { verdicts: vec![(format!("harness:lower:{s}"), "type lowering panicked".into())], classes, evaluations: 0, nontrivial: false };
        }
    };
    let mut verdict: Vec<(String, String)> = vec![];
    let set = |v: &mut Vec<(String, String)>, sig: String, what: String| {
        if !v.iter().any(|(s, _)| *s == sig) {
            v.push((sig, what));
        }
    };
    for (vi, val) in c.vals.iter().enumerate() {
        let data = match guarded(|| lower_data(&c.ty, &lt, val)) {
            Caught::Ok(d) => d,
            Caught::Panic(_, s) => {
                set(&mut verdict, format!("harness:lower-data:{s}"), "value lowering panicked".into());
                continue;
            }
        };
        // sanity of the harness itself: reading the lowered data back gives the value
        match read_data(&c.ty, &data) {
            Ok(back) if diff(&c.ty, val, &back).is_none() => {}
            other => {
                set(&mut verdict, "harness:readback".into(), format!("lowered data does not read back: {other:?}"));
                continue;
            }
        }
        for (ei, enc) in ALL_ENC.into_iter().enumerate() {
            evals += 1;
            mark(fd, &format!("{vi} {ei}"));
            let feats = features::scan(&c.ty, val, enc);
            for f in &feats {
                classes.push(format!("feature:{}", f.name()));
            }
            let blame = features::blame(&feats, allowed);
            let shape = blame.map(|f| f.name().to_string());
            let bytes = match dust_serialize(&data, enc) {
                Caught::Panic(in_dust, s) => {
                    if in_dust {
                        let sig = match &shape {
                            Some(sh) => format!("C09:roundtrip:{sh}"),
                            None => format!("C09:panic:{s}"),
                        };
                        set(&mut verdict, sig, format!("serialize ({}) of a valid value panicked: {s}; type {}", enc.name(), describe(&c.ty)));
                    } else {
                        set(&mut verdict, format!("harness:panic:{s}"), "panic outside dust-dds".into());
                    }
                    continue;
                }
                Caught::Ok(Err(e)) => {
                    let sh = shape.clone().unwrap_or_else(|| c.ty.tag());
                    set(
                        &mut verdict,
                        format!("C09:serialize-error:{sh}"),
                        format!("serialize ({}) of a valid value of a supported type failed with {e}; type {}", enc.name(), describe(&c.ty)),
                    );
                    continue;
                }
                Caught::Ok(Ok(b)) => b,
            };
            // round trip
            match dust_deserialize(lt.dt, &bytes) {
                Caught::Panic(in_dust, s) => {
                    if in_dust {
                        // a panic while decoding a stream that a known finding mis-frames belongs to that finding
                        let sig = match &shape {
                            Some(sh) => format!("C09:roundtrip:{sh}"),
                            None => format!("C09:panic:{s}"),
                        };
                        set(&mut verdict, sig, format!("deserialize ({}) of dust-dds's own output panicked: {s}; type {}; bytes {}", enc.name(), describe(&c.ty), hex(&bytes)));
                    } else {
                        set(&mut verdict, format!("harness:panic:{s}"), "panic outside dust-dds".into());
                    }
                }
                Caught::Ok(Err(e)) => {
                    set(
                        &mut verdict,
                        roundtrip_sig(&shape, enc, &c.ty),
                        format!("deserialize(serialize(v)) failed with {e} ({}); type {}; value {}; bytes {}", enc.name(), describe(&c.ty), short(val), hex(&bytes)),
                    );
                }
                Caught::Ok(Ok(d2)) => match read_data(&c.ty, &d2) {
                    Err(e) => {
                        set(
                            &mut verdict,
                            roundtrip_sig(&shape, enc, &c.ty),
                            format!("deserialized data is malformed ({e}) ({}); type {}; value {}; bytes {}", enc.name(), describe(&c.ty), short(val), hex(&bytes)),
                        );
                    }
                    Ok(back) => {
                        if let Some(path) = diff(&c.ty, val, &back) {
                            set(
                                &mut verdict,
                                roundtrip_sig(&shape, enc, &c.ty),
                                format!(
                                    "deserialize(serialize(v)) != v at {path} ({}); type {}; value {}; bytes {}",
                                    enc.name(),
                                    describe(&c.ty),
                                    short(val),
                                    hex(&bytes)
                                ),
                            );
                        }
                    }
                },
            }
            // padding
            if bytes.len() % 4 != 0 {
                set(&mut verdict, format!("C09:padding:{}", enc.name()), format!("serialized length {} is not a multiple of 4", bytes.len()));
            } else if bytes.len() >= 4 && !c.ty.any(&|t| matches!(t, Ty::WStr(_))) {
                // the unpadded length comes from the independent decoder: where the value ends
                match rxcdr::decode_end(&c.ty, &bytes, enc.ver, enc.be) {
                    Ok((v2, _, _)) if &v2 != val => classes.push("padding-unchecked(reference decoder reads a different value)".into()),
                    Ok((_, end, _)) => {
                        let pad = bytes.len() as i64 - end as i64;
                        let announced = (bytes[3] & 3) as i64;
                        classes.push("padding-checked".into());
                        if (0..4).contains(&pad) && (pad != announced || bytes[2] != 0 || bytes[3] & !3 != 0) {
                            set(
                                &mut verdict,
                                format!("C09:padding:{}", enc.name()),
                                format!(
                                    "value ends at offset {end} of {} bytes ({pad} padding bytes) but the options are {:02x} {:02x}; XTypes 1.3 7.6.3.1.2: the two least significant bits of the options hold the number of padding bytes",
                                    bytes.len(),
                                    bytes[2],
                                    bytes[3]
                                ),
                            );
                        }
                    }
                    Err(_) => classes.push("padding-unchecked(reference decoder rejects stream)".into()),
                }
            }
        }
    }
    Outcome { verdicts: verdict, classes, evaluations: evals, nontrivial: nontrivial_type(&c.ty) }
}

/// attributed failures are named after the root cause's trigger; others after encoding and shape
fn roundtrip_sig(shape: &Option<String>, enc: rxcdr::Enc, ty: &Ty) -> String {
    match shape {
        Some(f) => format!("C09:roundtrip:{f}"),
        None => format!("C09:roundtrip:{}:{}", enc.vname(), ty.tag()),
    }
}

pub fn describe(ty: &Ty) -> String {
    let s = serde_json::to_string(ty).unwrap_or_default();
    if s.chars().count() > 600 { format!("{}…", s.chars().take(600).collect::<String>()) } else { s }
}

/// shape tag used when no known trigger feature is present
pub fn generic_shape(ty: &Ty) -> String {
    let mut tags: Vec<String> = vec![];
    if let Ty::Struct(s) = ty {
        for m in &s.members {
            let mut t = m.ty.tag();
            if m.optional {
                t = format!("opt {t}");
            }
            if !tags.contains(&t) {
                tags.push(t);
            }
        }
        format!("{}-struct{{{}}}", s.ext.name(), tags.join(","))
    } else if let Ty::Union(u) = ty {
        for c in &u.cases {
            let t = c.ty.as_ref().map(|t| t.tag()).unwrap_or("-".into());
            if !tags.contains(&t) {
                tags.push(t);
            }
        }
        format!("{}-union<{}>{{{}}}", u.ext.name(), u.disc.name(), tags.join(","))
    } else {
        ty.tag()
    }
}

pub const RULE: &str = "non-trivial = the top-level type has aggregation depth >= 2 or contains an optional member, a mutable struct or a union; distinct by (type, values) hash; evaluations = value x encoding";

pub fn main(ctx: &Ctx) -> ! {
    let thorough = ctx.tier == vcore::Tier::Thorough;
    let mut gc = GenCfg::new(thorough);
    gc.wstr = true;
    let vc = ValCfg::new(thorough);
    let allowed = features::Allowed::for_property("C09");
    let mut report = Report::default();
    let meta = Meta {
        rule: RULE,
        assumptions: &[
            "types restricted to shapes dust-dds supports (see fragment tolerances)",
            "values built through the public DynamicData setters exactly like derive(DdsType)::create_dynamic_sample",
            "padding sub-oracle uses the independent R-XCDR decoder to find where the value ends",
        ],
        nontrivial_floor: ctx.pick(300, 3000),
    };
    let everything = features::Allowed::everything();
    if let Some(path) = &ctx.replay {
        let v = vcore::load_replay(path);
        let case: Case = serde_json::from_value(v).unwrap_or_else(|e| {
            eprintln!("replay file does not hold a C09 case: {e}");
            std::process::exit(2)
        });
        replay_case(&mut report, &case, &|c, fd| eval_case(c, &allowed, fd), &|c, d| on_death(c, d, &everything));
        vcore::finish(ctx, meta, report);
    }
    let strat = (case_strategy(gc, 3), any::<u8>()).boxed();
    campaign(
        ctx,
        CampaignCfg { stream: "c09", cases: ctx.pick(4_000, 80_000), batch: 128, max_shrink: ctx.pick(600, 3000) },
        &strat,
        &mut report,
        // 85 % of the cases avoid every shape with a confirmed finding so that the rest of the
        // space is explored at full power; 15 % are unrestricted
        &|(g, mode)| realize(g, &vc, &allowed, mode % 20 < 17),
        &|c, fd| eval_case(c, &allowed, fd),
        &|c, d| on_death(c, d, &allowed),
        &|c| json!({"type": generic_shape(&c.ty), "values": c.vals.len()}),
    );
    vcore::finish(ctx, meta, report)
}

/// development aid: print what each side does with a case
pub fn probe(c: &Case) {
    let lt = lower(&c.ty);
    for val in &c.vals {
        println!("value {}", short(val));
        let data = lower_data(&c.ty, &lt, val);
        for enc in ALL_ENC {
            let feats = features::scan(&c.ty, val, enc);
            println!(" {} features {:?}", enc.name(), feats.iter().map(|f| f.name()).collect::<Vec<_>>());
            match dust_serialize(&data, enc) {
                Caught::Ok(Ok(b)) => {
                    println!("   dust : {}", hex(&b));
                    match rxcdr::encode(&c.ty, val, enc, rxcdr::Policy::SPEC) {
                        Ok((r, _)) => println!("   spec : {}{}", hex(&r), if r == b { "  (equal)" } else { "" }),
                        Err(e) => println!("   spec : error {}", e.0),
                    }
                    match rxcdr::decode(&c.ty, &b, Some(enc)) {
                        Ok((v2, _)) => println!("   R-XCDR decode of dust bytes: {}", if &v2 == val { "same value".to_string() } else { format!("DIFFERENT {:?}", diff(&c.ty, val, &v2)) }),
                        Err(e) => println!("   R-XCDR decode of dust bytes: error {} [{}]", e.what, e.clause),
                    }
                    match dust_deserialize(lt.dt, &b) {
                        Caught::Ok(Ok(d2)) => match read_data(&c.ty, &d2) {
                            Ok(back) => println!("   dust roundtrip: {}", match diff(&c.ty, val, &back) { None => "ok".to_string(), Some(p) => format!("DIFF at {p}") }),
                            Err(e) => println!("   dust roundtrip: malformed data {e}"),
                        },
                        Caught::Ok(Err(e)) => println!("   dust roundtrip: error {e}"),
                        Caught::Panic(_, s) => println!("   dust roundtrip: panic {s}"),
                    }
                }
                Caught::Ok(Err(e)) => println!("   dust serialize error {e}"),
                Caught::Panic(_, s) => println!("   dust serialize panic {s}"),
            }
        }
    }
}
