//! C11 (instance identity) and C12 (key hash rule, XTypes 1.3 §7.6.8) — function level.
//!
//! R-KEY: KeyHolder(T) of §7.6.8.3.1, its big-endian XCDR serialization and its *maximum*
//! serialized size; key hash = serialization zero-padded to 16 bytes if the maximum size is at
//! most 16, else MD5 of the serialization (§7.6.8.4 / RTPS 2.5 §9.6.4.8).

use crate::c09::{describe, generic_shape};
use crate::harness::*;
use crate::lower::*;
use crate::rxcdr::{self, Policy, Ver};
use crate::types::*;
use proptest::prelude::*;
use serde::{Deserialize, Serialize};
use serde_json::json;
use vcore::{Ctx, Meta, Report};

#[derive(Clone, Debug, Serialize, Deserialize)]
pub struct Pair {
    pub a: Val,
    pub b: Val,
    /// "equal-keys" | "one-key-member-differs" | "boundary-similar" | "swapped"
    pub relation: String,
}

#[derive(Clone, Debug, Serialize, Deserialize)]
pub struct Case {
    pub ty: Ty,
    pub pairs: Vec<Pair>,
}

#[derive(Clone, Debug)]
pub struct GenCase {
    pub ty: Ty,
    pub tapes: Vec<(Vec<u32>, Vec<u32>, u8)>,
}

// ------------------------------------------------------------------------------------------
// keyed type universe

/// Restrict a generated top-level struct to the keyed shapes on which dust-dds's notion of "key
/// members" and XTypes §7.6.8.3.1 coincide (see fragment tolerances):
///  * at least one top-level key member, key members are not optional;
///  * no member below the top level is marked as key (dust-dds adds key members of non-key
///    nested structs to the key and hashes key structs whole; XTypes uses KeyHolder recursively —
///    with no nested key marks both readings give the same key);
///  * key members are not unions and contain none (XTypes: the key of a union is its
///    discriminator only) and contain no optional members.
pub fn make_keyed(ty: &Ty, seed: u8) -> Option<Ty> {
    let Ty::Struct(s) = ty else { return None };
    let mut s = (**s).clone();
    fn strip(t: &mut Ty) {
        match t {
            Ty::Struct(s) => {
                for m in s.members.iter_mut() {
                    m.key = false;
                    if !m.must_understand {
                        m.must_understand = false;
                    }
                    strip(&mut m.ty);
                }
            }
            Ty::Union(u) => u.cases.iter_mut().filter_map(|c| c.ty.as_mut()).for_each(strip),
            Ty::Seq(e, _) | Ty::Array(e, _) => strip(e),
            _ => {}
        }
    }
    fn key_ok(t: &Ty) -> bool {
        !t.any(&|x| match x {
            Ty::Union(_) | Ty::WStr(_) => true,
            Ty::Struct(s) => s.members.iter().any(|m| m.optional),
            _ => false,
        })
    }
    for m in s.members.iter_mut() {
        strip(&mut m.ty);
        if m.key && (m.optional || !key_ok(&m.ty)) {
            m.key = false;
        }
        if m.key {
            m.must_understand = true;
        }
    }
    if !s.members.iter().any(|m| m.key) {
        // promote some eligible member
        let eligible: Vec<usize> = s.members.iter().enumerate().filter(|(_, m)| !m.optional && key_ok(&m.ty)).map(|(i, _)| i).collect();
        if eligible.is_empty() {
            return None;
        }
        let i = eligible[seed as usize % eligible.len()];
        s.members[i].key = true;
        s.members[i].must_understand = true;
        // sometimes a second one
        if seed % 3 == 0 && eligible.len() > 1 {
            let j = eligible[(seed as usize / 3 + 1) % eligible.len()];
            s.members[j].key = true;
            s.members[j].must_understand = true;
        }
    }
    Some(Ty::Struct(Box::new(s)))
}

/// a type generator biased towards small, key-like member types
fn key_biased_top(gc: GenCfg) -> BoxedStrategy<Ty> {
    let small = prop_oneof![
        4 => prim_strategy(gc).prop_map(Ty::Prim),
        2 => Just(Ty::Str(None)),
        2 => (1u32..14).prop_map(|b| Ty::Str(Some(b))),
        1 => (prim_strategy(gc), 1u32..6).prop_map(|(p, n)| Ty::Array(Box::new(Ty::Prim(p)), n)),
        1 => (prim_strategy(gc), proptest::option::of(1u32..6)).prop_map(|(p, b)| Ty::Seq(Box::new(Ty::Prim(p)), b)),
    ];
    let simple = (proptest::collection::vec((small, any::<u8>()), 1..5), prop_oneof![Just(Ext::Final), Just(Ext::Appendable), Just(Ext::Mutable)], any::<u16>())
        .prop_map(|(ms, ext, n)| {
            let members = ms
                .into_iter()
                .enumerate()
                .map(|(i, (ty, f))| Member { name: format!("m{i}"), id: i as u32, ty, key: f % 2 == 0, optional: false, must_understand: f % 2 == 0 })
                .collect();
            Ty::Struct(Box::new(StructDef { name: format!("K{}", n % 1000), ext, members }))
        });
    prop_oneof![3 => simple, 2 => struct_strategy(gc, gc.depth.saturating_sub(1), true).prop_map(|s| Ty::Struct(Box::new(s)))].boxed()
}

pub fn case_strategy(gc: GenCfg, pairs: usize) -> BoxedStrategy<GenCase> {
    (key_biased_top(gc), any::<u8>(), proptest::collection::vec((tape_strategy(), tape_strategy(), any::<u8>()), 1..=pairs))
        .prop_filter_map("keyed", |(ty, seed, tapes)| make_keyed(&ty, seed).map(|ty| GenCase { ty, tapes }))
        .boxed()
}

// ------------------------------------------------------------------------------------------
// value mutations

/// A value of `ty` different from `v` (None when the type has a single value).
pub fn tweak(ty: &Ty, v: &Val, w: u32) -> Option<Val> {
    Some(match (ty, v) {
        (Ty::Prim(_), Val::Bool(b)) => Val::Bool(!b),
        (Ty::Prim(Prim::Char8), Val::U8(x)) => Val::U8(if *x == b'a' { b'b' } else { b'a' }),
        (Ty::Prim(_), Val::U8(x)) => Val::U8(x ^ (1 << (w % 8))),
        (Ty::Prim(_), Val::I8(x)) => Val::I8(x ^ (1 << (w % 7))),
        (Ty::Prim(_), Val::I16(x)) => Val::I16(x ^ (1 << (w % 15))),
        (Ty::Prim(_), Val::U16(x)) => Val::U16(x ^ (1 << (w % 16))),
        (Ty::Prim(_), Val::I32(x)) => Val::I32(x ^ (1 << (w % 31))),
        (Ty::Prim(_), Val::U32(x)) => Val::U32(x ^ (1 << (w % 32))),
        (Ty::Prim(_), Val::I64(x)) => Val::I64(x ^ (1 << (w % 63))),
        (Ty::Prim(_), Val::U64(x)) => Val::U64(x ^ (1 << (w % 64))),
        (Ty::Prim(_), Val::F32(x)) => Val::F32(x ^ (1 << (w % 32))),
        (Ty::Prim(_), Val::F64(x)) => Val::F64(x ^ (1 << (w % 64))),
        (Ty::Prim(_), Val::F128(x)) => Val::F128(x ^ (1 << (w % 128))),
        (Ty::Str(b) | Ty::WStr(b), Val::Str(s)) => {
            let can_grow = b.map(|b| (s.len() as u32) < b).unwrap_or(true);
            if can_grow && w % 2 == 0 {
                Val::Str(format!("{s}x"))
            } else if !s.is_empty() {
                let mut cs: Vec<char> = s.chars().collect();
                if w % 3 == 0 {
                    cs.pop();
                } else {
                    let i = w as usize % cs.len();
                    cs[i] = if cs[i] == 'q' { 'r' } else { 'q' };
                }
                Val::Str(cs.into_iter().collect())
            } else if can_grow {
                Val::Str("x".into())
            } else {
                return None;
            }
        }
        (Ty::Enum(e), Val::Enum(x)) => {
            let others: Vec<i32> = e.labels.iter().map(|l| l.1).filter(|l| l != x).collect();
            if others.is_empty() {
                return None;
            }
            Val::Enum(others[w as usize % others.len()])
        }
        (Ty::Struct(s), Val::Struct(ms)) => {
            let n = s.members.len();
            for k in 0..n {
                let i = (w as usize + k) % n;
                if let Some(Some(mv)) = ms.get(i) {
                    if let Some(nv) = tweak(&s.members[i].ty, mv, w / 7 + 1) {
                        let mut out = ms.clone();
                        out[i] = Some(nv);
                        return Some(Val::Struct(out));
                    }
                }
            }
            return None;
        }
        (Ty::Seq(e, b), Val::List(l)) => {
            let can_grow = b.map(|b| (l.len() as u32) < b).unwrap_or(true);
            if can_grow && (w % 2 == 0 || l.is_empty()) {
                let mut out = l.clone();
                out.push(default_val(e));
                Val::List(out)
            } else if !l.is_empty() {
                if w % 3 == 0 {
                    let mut out = l.clone();
                    out.pop();
                    Val::List(out)
                } else {
                    let i = w as usize % l.len();
                    let nv = tweak(e, &l[i], w / 5 + 1)?;
                    let mut out = l.clone();
                    out[i] = nv;
                    Val::List(out)
                }
            } else {
                return None;
            }
        }
        (Ty::Array(e, _), Val::List(l)) => {
            if l.is_empty() {
                return None;
            }
            let i = w as usize % l.len();
            let nv = tweak(e, &l[i], w / 5 + 1)?;
            let mut out = l.clone();
            out[i] = nv;
            Val::List(out)
        }
        _ => return None,
    })
}

fn default_val(t: &Ty) -> Val {
    crate::types::default_val(t)
}

fn top(ty: &Ty) -> &StructDef {
    match ty {
        Ty::Struct(s) => s,
        _ => unreachable!("keyed types are structs"),
    }
}

/// the key of a value: values of the key members (declaration order)
pub fn key_of(ty: &Ty, v: &Val) -> Vec<Val> {
    let s = top(ty);
    let Val::Struct(ms) = v else { return vec![] };
    s.members.iter().zip(ms).filter(|(m, _)| m.key).map(|(_, mv)| mv.clone().expect("key members are not optional")).collect()
}

pub fn realize(g: &GenCase, vc: &ValCfg) -> Case {
    let s = top(&g.ty);
    let mut pairs = vec![];
    for (ta, tb, mode) in &g.tapes {
        let a = make_value(&g.ty, ta, vc);
        let Val::Struct(am) = &a else { continue };
        let other = make_value(&g.ty, tb, vc);
        let Val::Struct(om) = &other else { continue };
        let w = tb.first().copied().unwrap_or(7);
        let key_idx: Vec<usize> = s.members.iter().enumerate().filter(|(_, m)| m.key).map(|(i, _)| i).collect();
        match mode % 4 {
            0 => {
                // same key, every non-key member taken from the other value
                let mut bm = am.clone();
                for (i, m) in s.members.iter().enumerate() {
                    if !m.key {
                        bm[i] = om[i].clone();
                    }
                }
                pairs.push(Pair { a: a.clone(), b: Val::Struct(bm), relation: "equal-keys".into() });
            }
            1 => {
                // exactly one key member differs (minimally); non-key members equal
                let k = key_idx[w as usize % key_idx.len()];
                if let Some(nv) = am[k].as_ref().and_then(|x| tweak(&s.members[k].ty, x, w / 3)) {
                    let mut bm = am.clone();
                    bm[k] = Some(nv);
                    pairs.push(Pair { a: a.clone(), b: Val::Struct(bm), relation: "one-key-member-differs".into() });
                }
            }
            2 => {
                // boundary-similar keys
                if let Some(bm) = boundary(s, am, &key_idx, w) {
                    if key_of(&g.ty, &a) != key_of(&g.ty, &Val::Struct(bm.clone())) {
                        pairs.push(Pair { a: a.clone(), b: Val::Struct(bm), relation: "boundary-similar".into() });
                    }
                } else {
                    // one key member from the other value, non-key members too
                    let k = key_idx[w as usize % key_idx.len()];
                    let mut bm = om.clone();
                    for i in &key_idx {
                        if *i != k {
                            bm[*i] = am[*i].clone();
                        }
                    }
                    let rel = if bm[k] == am[k] { "equal-keys" } else { "one-key-member-differs" };
                    pairs.push(Pair { a: a.clone(), b: Val::Struct(bm), relation: rel.into() });
                }
            }
            _ => {
                // two key members of the same type swapped
                let mut done = false;
                for x in 0..key_idx.len() {
                    for y in x + 1..key_idx.len() {
                        let (i, j) = (key_idx[x], key_idx[y]);
                        if !done && s.members[i].ty == s.members[j].ty && am[i] != am[j] {
                            let mut bm = am.clone();
                            bm.swap(i, j);
                            pairs.push(Pair { a: a.clone(), b: Val::Struct(bm), relation: "swapped".into() });
                            done = true;
                        }
                    }
                }
                if !done {
                    let rel = if key_of(&g.ty, &a) == key_of(&g.ty, &other) { "equal-keys" } else { "independent-values" };
                    pairs.push(Pair { a: a.clone(), b: other.clone(), relation: rel.into() });
                }
            }
        }
    }
    Case { ty: g.ty.clone(), pairs }
}

/// ("ab","c") vs ("a","bc"); [1] vs [1,0]; "a" vs "a" + following member shifted
fn boundary(s: &StructDef, am: &[Option<Val>], key_idx: &[usize], w: u32) -> Option<Vec<Option<Val>>> {
    // adjacent string keys: move the last char of the first to the front of the second
    for p in key_idx.windows(2) {
        let (i, j) = (p[0], p[1]);
        if let (Ty::Str(_), Ty::Str(bj), Some(Val::Str(x)), Some(Val::Str(y))) = (&s.members[i].ty, &s.members[j].ty, &am[i], &am[j]) {
            if !x.is_empty() && bj.map(|b| (y.len() as u32) < b).unwrap_or(true) && x.is_char_boundary(x.len() - 1) {
                let (head, last) = x.split_at(x.len() - 1);
                let mut bm = am.to_vec();
                bm[i] = Some(Val::Str(head.to_string()));
                bm[j] = Some(Val::Str(format!("{last}{y}")));
                return Some(bm);
            }
        }
        if let (Ty::Seq(ei, _), Ty::Seq(ej, bj), Some(Val::List(x)), Some(Val::List(y))) = (&s.members[i].ty, &s.members[j].ty, &am[i], &am[j]) {
            if ei == ej && !x.is_empty() && bj.map(|b| (y.len() as u32) < b).unwrap_or(true) {
                let mut xs = x.clone();
                let last = xs.pop().unwrap();
                let mut ys = vec![last];
                ys.extend(y.iter().cloned());
                let mut bm = am.to_vec();
                bm[i] = Some(Val::List(xs));
                bm[j] = Some(Val::List(ys));
                return Some(bm);
            }
        }
    }
    // a sequence key: append a default (zero) element
    for &i in key_idx {
        if let (Ty::Seq(e, b), Some(Val::List(x))) = (&s.members[i].ty, &am[i]) {
            if b.map(|b| (x.len() as u32) < b).unwrap_or(true) && w % 2 == 0 {
                let mut xs = x.clone();
                xs.push(default_val(e));
                let mut bm = am.to_vec();
                bm[i] = Some(Val::List(xs));
                return Some(bm);
            }
        }
    }
    None
}

// ------------------------------------------------------------------------------------------
// R-KEY

#[derive(Clone, Copy, Debug, PartialEq, Eq)]
pub struct KeyMode {
    pub ver: Ver,
    /// members of the key holder in ascending member id order (XTypes 1.3 §7.6.8.4 for XCDR2) instead of declaration order
    pub by_id: bool,
    /// nested key structs serialized as FINAL (KeyHolder is final) or with their own extensibility
    pub nested_final: bool,
    /// with own extensibility: encoder choices of the standard (false) or the ones dust-dds makes
    /// for ordinary samples (member-id order, PID 1 terminator) (true)
    pub alt_policy: bool,
}

pub fn key_modes() -> Vec<KeyMode> {
    let mut v = vec![];
    for ver in [Ver::V1, Ver::V2] {
        for by_id in [false, true] {
            v.push(KeyMode { ver, by_id, nested_final: true, alt_policy: false });
            v.push(KeyMode { ver, by_id, nested_final: false, alt_policy: false });
            v.push(KeyMode { ver, by_id, nested_final: false, alt_policy: true });
        }
    }
    v
}

fn finalize(t: &Ty) -> Ty {
    match t {
        Ty::Struct(s) => {
            let mut s = (**s).clone();
            s.ext = Ext::Final;
            for m in s.members.iter_mut() {
                m.ty = finalize(&m.ty);
            }
            Ty::Struct(Box::new(s))
        }
        Ty::Seq(e, b) => Ty::Seq(Box::new(finalize(e)), *b),
        Ty::Array(e, n) => Ty::Array(Box::new(finalize(e)), *n),
        o => o.clone(),
    }
}

/// KeyHolder(T) (§7.6.8.3.1) for the keyed universe of this check and the key value in it.
pub fn key_holder(ty: &Ty, v: &Val, mode: KeyMode) -> (Ty, Val) {
    let s = top(ty);
    let Val::Struct(ms) = v else { unreachable!() };
    let mut members: Vec<(Member, Val)> = s
        .members
        .iter()
        .zip(ms)
        .filter(|(m, _)| m.key)
        .map(|(m, mv)| {
            let mut m = m.clone();
            if mode.nested_final {
                m.ty = finalize(&m.ty);
            }
            (m, mv.clone().unwrap())
        })
        .collect();
    if mode.by_id {
        members.sort_by_key(|(m, _)| m.id);
    }
    let ty = Ty::Struct(Box::new(StructDef { name: "KeyHolder".into(), ext: Ext::Final, members: members.iter().map(|(m, _)| m.clone()).collect() }));
    let val = Val::Struct(members.into_iter().map(|(_, v)| Some(v)).collect());
    (ty, val)
}

/// Does the maximum serialized size of the type exceed `limit`, starting at offset 0?
/// DP over alignment residues: `states` maps offset residue (mod 8) to the largest offset seen.
pub fn max_size_exceeds(ty: &Ty, ver: Ver, limit: usize) -> bool {
    let maxalign = if ver == Ver::V1 { 8 } else { 4 };
    let mut states: Vec<usize> = vec![0];
    walk_max(ty, ver, maxalign, &mut states, limit).is_err()
}

fn align_up(o: usize, a: usize) -> usize {
    (o + a - 1) / a * a
}

/// Err(()) = exceeds the limit (or unbounded)
fn walk_max(t: &Ty, ver: Ver, maxalign: usize, states: &mut Vec<usize>, limit: usize) -> Result<(), ()> {
    let norm = |st: &mut Vec<usize>| -> Result<(), ()> {
        // keep the largest offset per residue
        let mut best = [None::<usize>; 8];
        for o in st.iter() {
            let r = o % 8;
            if best[r].map(|b| *o > b).unwrap_or(true) {
                best[r] = Some(*o);
            }
        }
        st.clear();
        st.extend(best.iter().flatten());
        if st.iter().any(|o| *o > limit) { Err(()) } else { Ok(()) }
    };
    match t {
        Ty::Prim(p) => {
            let a = p.size().min(maxalign);
            for o in states.iter_mut() {
                *o = align_up(*o, a) + p.size();
            }
            norm(states)
        }
        Ty::Enum(e) => {
            let n = rxcdr::holder_size(e);
            for o in states.iter_mut() {
                *o = align_up(*o, n.min(maxalign)) + n;
            }
            norm(states)
        }
        Ty::Str(None) | Ty::WStr(None) | Ty::Seq(_, None) => Err(()),
        Ty::Str(Some(b)) | Ty::WStr(Some(b)) => {
            // any length 0..=b: the longest ones dominate, the last 8 lengths cover every residue
            let mut out = vec![];
            for o in states.iter() {
                let base = align_up(*o, 4) + 4;
                for l in (*b as usize).saturating_sub(7)..=*b as usize {
                    out.push(base + l + 1);
                }
            }
            *states = out;
            norm(states)
        }
        Ty::Array(e, n) => {
            if !rxcdr::is_primitive_elem(e) && ver == Ver::V2 {
                for o in states.iter_mut() {
                    *o = align_up(*o, 4) + 4;
                }
            }
            for _ in 0..*n {
                walk_max(e, ver, maxalign, states, limit)?;
            }
            Ok(())
        }
        Ty::Seq(e, Some(b)) => {
            let hdr = if !rxcdr::is_primitive_elem(e) && ver == Ver::V2 { 8 } else { 4 };
            for o in states.iter_mut() {
                *o = align_up(*o, 4) + hdr;
            }
            norm(states)?;
            // 0..=b elements: union of the states after each count
            let mut all = states.clone();
            for _ in 0..*b {
                walk_max(e, ver, maxalign, states, limit)?;
                all.extend(states.iter().copied());
            }
            *states = all;
            norm(states)
        }
        Ty::Struct(s) => {
            // key holders (and, in the nested_final reading, their nested structs) are FINAL; a
            // nested struct kept with its own extensibility carries extra headers: count them
            match (s.ext, ver) {
                (Ext::Final, _) | (Ext::Appendable, Ver::V1) => {}
                (Ext::Appendable, Ver::V2) => {
                    for o in states.iter_mut() {
                        *o = align_up(*o, 4) + 4;
                    }
                }
                (Ext::Mutable, _) => {
                    // parameter / EMHEADER framing: 4..12 bytes per member plus DHEADER or sentinel
                    for o in states.iter_mut() {
                        *o = align_up(*o, 4) + 4 + 4 * s.members.len();
                    }
                }
            }
            for m in &s.members {
                walk_max(&m.ty, ver, maxalign, states, limit)?;
            }
            norm(states)
        }
        Ty::Union(_) => Err(()),
    }
}

#[derive(Debug)]
pub struct Expected {
    pub mode: KeyMode,
    pub bytes: Vec<u8>,
    pub max_over_16: bool,
    pub hash: [u8; 16],
}

fn pad16(b: &[u8]) -> [u8; 16] {
    let mut k = [0u8; 16];
    let n = b.len().min(16);
    k[..n].copy_from_slice(&b[..n]);
    k
}

pub fn expected_hashes(ty: &Ty, v: &Val) -> Vec<Expected> {
    let mut out = vec![];
    for mode in key_modes() {
        let (kt, kv) = key_holder(ty, v, mode);
        let pol = if mode.alt_policy { crate::golden::DUST } else { Policy::SPEC };
        let Ok(bytes) = rxcdr::encode_bare(&kt, &kv, mode.ver, true, pol) else { continue };
        let over = max_size_exceeds(&kt, mode.ver, 16);
        let hash = if over { md5::compute(&bytes).0 } else { pad16(&bytes) };
        // a nested mutable key struct kept with its own extensibility carries parameter /
        // EMHEADER framing whose maximum size depends on encoder choices: accept both forms there
        let framing_dependent = !mode.nested_final && kt.any(&|t| matches!(t, Ty::Struct(s) if s.ext == Ext::Mutable && s.name != "KeyHolder"));
        if framing_dependent {
            let other = if over {
                if bytes.len() <= 16 { Some(pad16(&bytes)) } else { None }
            } else {
                Some(md5::compute(&bytes).0)
            };
            if let Some(h) = other {
                out.push(Expected { mode, bytes: bytes.clone(), max_over_16: !over, hash: h });
            }
        }
        out.push(Expected { mode, bytes, max_over_16: over, hash });
    }
    out
}

/// the variable-size component that decides the maximum key size (coarse: one root cause, few signatures)
pub fn key_var_kind(ty: &Ty) -> &'static str {
    let s = top(ty);
    let keys: Vec<&Ty> = s.members.iter().filter(|m| m.key).map(|m| &m.ty).collect();
    let any = |p: &dyn Fn(&Ty) -> bool| keys.iter().any(|t| t.any(p));
    if any(&|t| matches!(t, Ty::Str(None))) {
        "string"
    } else if any(&|t| matches!(t, Ty::Seq(_, None))) {
        "sequence"
    } else if any(&|t| matches!(t, Ty::Str(Some(_)))) {
        "bounded-string"
    } else if any(&|t| matches!(t, Ty::Seq(_, Some(_)))) {
        "bounded-sequence"
    } else {
        "fixed-size"
    }
}

/// coarse structural kind of the key for wrong-bytes signatures
pub fn key_struct_kind(ty: &Ty) -> &'static str {
    let s = top(ty);
    let keys: Vec<&Ty> = s.members.iter().filter(|m| m.key).map(|m| &m.ty).collect();
    let any = |p: &dyn Fn(&Ty) -> bool| keys.iter().any(|t| t.any(p));
    if any(&|t| matches!(t, Ty::Struct(s) if s.ext == Ext::Mutable)) {
        "nested-mutable-struct"
    } else if any(&|t| matches!(t, Ty::Struct(_))) {
        "nested-struct"
    } else if any(&|t| matches!(t, Ty::Seq(..) | Ty::Array(..))) {
        "collection"
    } else if any(&|t| matches!(t, Ty::Str(_))) {
        "string"
    } else {
        "primitive"
    }
}

/// tag of the key shape for signatures
pub fn key_shape(ty: &Ty) -> String {
    let s = top(ty);
    let mut tags: Vec<String> = s.members.iter().filter(|m| m.key).map(|m| m.ty.tag()).collect();
    tags.sort();
    tags.dedup();
    tags.join("+")
}

// ------------------------------------------------------------------------------------------
// evaluation

fn handle_of(ty: &Ty, lt: &LTy, v: &Val, o: &mut Outcome, prop: &str) -> Option<[u8; 16]> {
    let data = match guarded(|| lower_data(ty, lt, v)) {
        Caught::Ok(d) => d,
        Caught::Panic(_, s) => {
            o.fail(format!("harness:lower-data:{s}"), "value lowering panicked");
            return None;
        }
    };
    match dust_handle(&data) {
        Caught::Ok(Ok(h)) => Some(h),
        Caught::Ok(Err(e)) => {
            o.fail(format!("{prop}:handle-error:{}", key_shape(ty)), format!("instance_handle of a valid sample failed with {e}; type {}; value {}", describe(ty), short(v)));
            None
        }
        Caught::Panic(true, s) => {
            o.fail(format!("{prop}:panic:{s}"), format!("instance_handle panicked: {s}; type {}; value {}", describe(ty), short(v)));
            None
        }
        Caught::Panic(false, s) => {
            o.fail(format!("harness:panic:{s}"), "panic outside dust-dds");
            None
        }
    }
}

fn key_classes(ty: &Ty, o: &mut Outcome) {
    let s = top(ty);
    let keys: Vec<&Member> = s.members.iter().filter(|m| m.key).collect();
    o.class(format!("keys-{}", keys.len().min(4)));
    o.class(format!("top-{}", s.ext.name()));
    for m in keys {
        match &m.ty {
            Ty::Struct(_) => o.class("key:struct"),
            Ty::Str(None) => o.class("key:string"),
            Ty::Str(Some(_)) => o.class("key:bounded-string"),
            Ty::Seq(_, None) => o.class("key:sequence"),
            Ty::Seq(_, Some(_)) => o.class("key:bounded-sequence"),
            Ty::Array(..) => o.class("key:array"),
            Ty::Enum(_) => o.class("key:enum"),
            Ty::Prim(_) => o.class("key:primitive"),
            _ => {}
        }
    }
}

pub fn eval_c11(c: &Case, _fd: i32) -> Outcome {
    let mut o = Outcome::default();
    key_classes(&c.ty, &mut o);
    let lt = match guarded(|| lower(&c.ty)) {
        Caught::Ok(l) => l,
        Caught::Panic(_, s) => {
            o.fail(format!("harness:lower:{s}"), "type lowering panicked");
            return o;
        }
    };
    for p in &c.pairs {
        o.evaluations += 1;
        o.class(format!("pair:{}", p.relation));
        let (Some(ha), Some(hb)) = (handle_of(&c.ty, &lt, &p.a, &mut o, "C11"), handle_of(&c.ty, &lt, &p.b, &mut o, "C11")) else { continue };
        let same_key = key_of(&c.ty, &p.a) == key_of(&c.ty, &p.b);
        let differs_elsewhere = p.a != p.b;
        if same_key && differs_elsewhere || !same_key {
            o.nontrivial = true;
        }
        if same_key && ha != hb {
            o.fail(
                format!("C11:equal-keys-different-handle:{}", key_struct_kind(&c.ty)),
                format!(
                    "two samples with equal key members got different instance handles {} / {} ({}); type {}; a {}; b {}",
                    hex(&ha),
                    hex(&hb),
                    p.relation,
                    describe(&c.ty),
                    short(&p.a),
                    short(&p.b)
                ),
            );
        }
        if !same_key && ha == hb {
            // an MD5 collision is not a realistic explanation; a padded collision means the key serialization lost information
            o.fail(
                format!("C11:different-keys-same-handle:{}", key_struct_kind(&c.ty)),
                format!(
                    "two samples with different key members got the same instance handle {} ({}); type {}; key a {:?}; key b {:?}",
                    hex(&ha),
                    p.relation,
                    describe(&c.ty),
                    key_of(&c.ty, &p.a).iter().map(short).collect::<Vec<_>>(),
                    key_of(&c.ty, &p.b).iter().map(short).collect::<Vec<_>>()
                ),
            );
        }
    }
    o
}

pub fn eval_c12(c: &Case, _fd: i32) -> Outcome {
    let mut o = Outcome::default();
    key_classes(&c.ty, &mut o);
    let lt = match guarded(|| lower(&c.ty)) {
        Caught::Ok(l) => l,
        Caught::Panic(_, s) => {
            o.fail(format!("harness:lower:{s}"), "type lowering panicked");
            return o;
        }
    };
    let mut vals: Vec<&Val> = vec![];
    for p in &c.pairs {
        vals.push(&p.a);
        vals.push(&p.b);
    }
    for v in vals {
        o.evaluations += 1;
        let Some(h) = handle_of(&c.ty, &lt, v, &mut o, "C12") else { continue };
        let exp = expected_hashes(&c.ty, v);
        if exp.is_empty() {
            o.fail("harness:rkey", "no expected hash could be computed");
            continue;
        }
        let any_small_actual = exp.iter().any(|e| e.bytes.len() <= 16);
        let over_all = exp.iter().all(|e| e.max_over_16);
        let over_none = exp.iter().all(|e| !e.max_over_16);
        if over_all {
            o.class("max-size-over-16");
            if any_small_actual {
                // the interesting class: actual size <= 16 < maximum size
                o.class("actual<=16<max");
                o.nontrivial = true;
            }
        } else if over_none {
            o.class("max-size-within-16");
        } else {
            o.class("max-size-depends-on-xcdr-version");
            o.nontrivial = true;
        }
        if exp.iter().any(|e| e.hash == h) {
            continue;
        }
        // classify the mismatch
        let padded_match = exp.iter().find(|e| e.max_over_16 && e.bytes.len() <= 16 && pad16(&e.bytes) == h);
        let md5_match = exp.iter().find(|e| !e.max_over_16 && md5::compute(&e.bytes).0 == h);
        if let Some(e) = padded_match {
            o.fail(
                format!("C12:padded-but-max-size-over-16:{}", key_var_kind(&c.ty)),
                format!(
                    "key hash {} is the zero-padded key serialization ({} bytes, {:?}) although the key type's maximum serialized size exceeds 16 bytes (unbounded or larger bound), so XTypes 1.3 7.6.8.4 / RTPS 2.5 9.6.4.8 demand MD5 = {}; type {}; key {:?}",
                    hex(&h),
                    e.bytes.len(),
                    e.mode,
                    hex(&e.hash),
                    describe(&c.ty),
                    key_of(&c.ty, v).iter().map(short).collect::<Vec<_>>()
                ),
            );
        } else if let Some(e) = md5_match {
            o.fail(
                "C12:md5-but-max-size-within-16".to_string(),
                format!("key hash {} is an MD5 digest although the maximum key size is within 16 bytes ({:?}); type {}", hex(&h), e.mode, describe(&c.ty)),
            );
        } else {
            o.fail(
                format!("C12:wrong-bytes:{}", key_struct_kind(&c.ty)),
                format!(
                    "key hash {} matches neither the zero-padded nor the MD5 form of any accepted big-endian key serialization (XCDR1/XCDR2, declaration/member-id order, nested key structs final/as declared, standard/dust-dds encoder choices); e.g. XCDR1 serialization {} -> {}; type {}; key {:?}",
                    hex(&h),
                    hex(&exp[0].bytes),
                    hex(&exp[0].hash),
                    describe(&c.ty),
                    key_of(&c.ty, v).iter().map(short).collect::<Vec<_>>()
                ),
            );
        }
    }
    o
}

fn on_death(c: &Case, d: &ChildDeath, prop: &str) -> Outcome {
    let mut o = Outcome::default();
    o.fail(format!("{prop}:process-died:{}", key_shape(&c.ty)), format!("evaluator process died ({}) computing an instance handle; type {}", d.exit, describe(&c.ty)));
    o
}

pub const RULE_C11: &str = "non-trivial = pair whose keys are equal while a non-key member differs, or whose keys differ (one member / boundary-similar / swapped); evaluations = pairs";
pub const RULE_C12: &str = "non-trivial = key contains an unbounded or bounded string/sequence whose actual serialized size is <= 16 < maximum size, or whose maximum depends on the XCDR version; evaluations = samples";

pub fn main(ctx: &Ctx) -> ! {
    let thorough = ctx.tier == vcore::Tier::Thorough;
    let mut gc = GenCfg::new(thorough);
    gc.depth = if thorough { 4 } else { 3 };
    gc.big_ids = false;
    gc.f128 = false;
    let mut vc = ValCfg::new(thorough);
    vc.latin1 = false; // char8 > 0x7f is a C09/C10 finding (two UTF-8 bytes); keep keys clean of it
    vc.thorough = false;
    let is11 = ctx.id == "C11";
    let mut report = Report::default();
    let meta = Meta {
        rule: if is11 { RULE_C11 } else { RULE_C12 },
        assumptions: &[
            "keyed types restricted to shapes where dust-dds's key extraction and XTypes 7.6.8.3.1 KeyHolder agree (no key marks below the top level, no union/optional inside keys)",
            "handles obtained through verif_hooks::instance_handle (the function writer and reader use)",
            "C12: the XCDR version, member order (declaration / member id), nested-struct extensibility and encoder choices of the hashed serialization are not fixed by the statement: all 12 combinations accepted",
        ],
        nontrivial_floor: ctx.pick(300, 3000),
    };
    let eval: &dyn Fn(&Case, i32) -> Outcome = if is11 { &eval_c11 } else { &eval_c12 };
    let prop = ctx.id.clone();
    let death = move |c: &Case, d: &ChildDeath| on_death(c, d, &prop);
    if let Some(path) = &ctx.replay {
        let v = vcore::load_replay(path);
        let case: Case = serde_json::from_value(v).unwrap_or_else(|e| {
            eprintln!("replay file does not hold a {} case: {e}", ctx.id);
            std::process::exit(2)
        });
        replay_case(&mut report, &case, eval, &death);
        vcore::finish(ctx, meta, report);
    }
    let strat = case_strategy(gc, 6);
    campaign(
        ctx,
        CampaignCfg { stream: if is11 { "c11" } else { "c12" }, cases: ctx.pick(14_000, 300_000), batch: 256, max_shrink: ctx.pick(800, 3000) },
        &strat,
        &mut report,
        &|g: &GenCase| realize(g, &vc),
        eval,
        &death,
        &|c| json!({"type": generic_shape(&c.ty), "key": key_shape(&c.ty), "pairs": c.pairs.len()}),
    );
    vcore::finish(ctx, meta, report)
}

/// development aid
pub fn probe(c: &Case) {
    let lt = lower(&c.ty);
    for p in c.pairs.iter().take(2) {
        let v = &p.a;
        let mut o = Outcome::default();
        let h = handle_of(&c.ty, &lt, v, &mut o, "C12");
        println!("value {}\n dust handle {:?}", short(v), h.map(|h| hex(&h)));
        for e in expected_hashes(&c.ty, v) {
            println!(" {:?} over16={} bytes {} -> {}", e.mode, e.max_over_16, hex(&e.bytes), hex(&e.hash));
        }
        // dust-dds's ordinary XCDR1-BE serialization of the key holder type (declaration order, as declared)
        let (kt, kv) = key_holder(&c.ty, v, KeyMode { ver: Ver::V1, by_id: false, nested_final: false, alt_policy: false });
        let klt = lower(&kt);
        let kd = lower_data(&kt, &klt, &kv);
        if let Caught::Ok(Ok(b)) = dust_serialize(&kd, rxcdr::Enc { ver: Ver::V1, be: true }) {
            let pad = (b[3] & 3) as usize;
            let body = &b[4..b.len() - pad];
            println!(" dust XCDR1-BE of key holder: {}  md5 {}", hex(body), hex(&md5::compute(body).0));
        }
    }
}
